#!/bin/sh
# usage: tools/tryseed.sh <patch.diff> <prop> [<prop>...] : applies the patch to /repo, runs the checks, reverts.
P="$1"; shift
git -C /repo diff --quiet || { echo "/repo not clean"; exit 3; }
git -C /repo apply "$P" 2>/dev/null || (cd /repo && patch -p1 -s --fuzz=3 < "$P") || { echo "patch does not apply"; git -C /repo checkout -- .; exit 3; }
for id in "$@"; do
  (cd /verif && ./check "$id" --no-evidence 2>&1 | grep -E "^\[|FINDING|VIOLATION|ANALYSIS-ERROR|KNOWN|^    " | head -${LINES_MAX:-14}); echo "  -> exit of $id: $?"
done
git -C /repo checkout -- . ; git -C /repo clean -fdq -- src; git -C /repo status --short | head -3
