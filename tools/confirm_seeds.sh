#!/bin/bash
# Confirms every seed in /tmp/seed/*/out/{A,B}.diff in a scratch worktree of /repo HEAD:
#  - applies (with fuzz), full test suite must pass, demo must fail; reverted: demo must pass.
# Writes /tmp/seed/CONFIRM.tsv
WT=/tmp/seed/_confirm_wt
git -C /repo worktree remove --force $WT 2>/dev/null
git -C /repo worktree add -q $WT HEAD || exit 1
OUT=/tmp/seed/CONFIRM.tsv; : > $OUT
for d in /tmp/seed/C*/out; do
  id=$(basename $(dirname $d))
  for v in A B; do
    P=$d/$v.diff; D=$d/demo$v.py
    [ -f $P ] || continue
    git -C $WT checkout -q -- . ; git -C $WT clean -fdq
    (cd $WT && (git apply $P 2>/dev/null || patch -p1 -s --fuzz=3 < $P)) || { echo -e "$id\t$v\tAPPLY-FAIL" >> $OUT; continue; }
    tests=$(cd $WT && PYTHONPATH=$WT/src /venv/bin/python -m pytest -q -p no:cacheprovider -n 8 --timeout=900 2>&1 | tail -1)
    (cd $d && PYTHONPATH=$WT/src timeout 600 /venv/bin/python $D > /tmp/seed/_demo_with.txt 2>&1); with=$?
    git -C $WT checkout -q -- . ; git -C $WT clean -fdq
    (cd $d && PYTHONPATH=$WT/src timeout 600 /venv/bin/python $D > /tmp/seed/_demo_without.txt 2>&1); without=$?
    echo -e "$id\t$v\t$tests\tdemo_with=$with\tdemo_without=$without" >> $OUT
  done
done
git -C /repo worktree remove --force $WT
echo DONE >> $OUT
