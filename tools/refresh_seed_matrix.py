"""Re-runs every check against every stored seed (scratch worktrees under /tmp, removed afterwards) and rewrites the
detected_by / undecided_in / first_finding fields of /verif/seeded/*/meta.json."""
import json, os, subprocess, sys, tempfile
from concurrent.futures import ThreadPoolExecutor

VERIF = os.path.dirname(os.path.dirname(os.path.abspath(__file__)))
PROPS = ["C01", "C02", "C03", "C05", "C06", "C07", "C08", "C10", "C11", "C12", "C13", "C14", "C15", "C16", "C18", "C19", "C20"]
SEEDED = os.path.join(VERIF, "seeded")


def one(name):
    patch = os.path.join(SEEDED, name, "patch.diff")
    wt = tempfile.mkdtemp(prefix=f"mx_{name}_", dir="/tmp")
    os.rmdir(wt)
    subprocess.check_call(["git", "-C", "/repo", "worktree", "add", "-q", "--detach", wt, "HEAD"])
    try:
        if subprocess.call(f"cd {wt} && (git apply {patch} 2>/dev/null || patch -p1 -s --fuzz=3 < {patch})", shell=True) != 0:
            return name, None
        res = {}
        for p in PROPS:
            pr = subprocess.run([os.path.join(VERIF, "check"), p, "--repo", wt, "--no-evidence"], capture_output=True, text=True, cwd=VERIF)
            first = next((l.strip()[:220] for l in pr.stdout.splitlines() if "FINDING" in l and "KNOWN" not in l or "ANALYSIS-ERROR" in l), "")
            res[p] = (pr.returncode, first)
        return name, res
    finally:
        subprocess.call(["git", "-C", "/repo", "worktree", "remove", "--force", wt])


def main():
    names = sorted(n for n in os.listdir(SEEDED) if os.path.exists(os.path.join(SEEDED, n, "meta.json")))
    if len(sys.argv) > 1:
        names = [n for n in names if any(a in n for a in sys.argv[1:])]
    with ThreadPoolExecutor(12) as ex:
        for name, res in ex.map(one, names):
            if res is None:
                print(name, "APPLY-FAIL")
                continue
            mp = os.path.join(SEEDED, name, "meta.json")
            meta = json.load(open(mp))
            meta["detected_by"] = sorted(p for p, (rc, _) in res.items() if rc == 1)
            meta["undecided_in"] = sorted(p for p, (rc, _) in res.items() if rc == 2)
            meta["first_finding"] = {p: t for p, (rc, t) in res.items() if rc == 1}
            json.dump(meta, open(mp, "w"), indent=1)
            own = meta["breaks_property"] in meta["detected_by"]
            print(name, "OWN" if own else ("other" if meta["detected_by"] else "MISSED"), "det=" + ",".join(meta["detected_by"]), "undecided=" + ",".join(meta["undecided_in"]))


main()
