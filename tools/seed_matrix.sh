#!/bin/bash
# usage: seed_matrix.sh <seed-id> <variant>  -> prints one line per check: id variant prop exit
id=$1; v=$2
P=/tmp/seed/$id/out/$v.diff
[ -f $P ] || P=/verif/seeded/$id-$v/patch.diff
WT=/tmp/seed/_mx_${id}_$v
git -C /repo worktree remove --force $WT 2>/dev/null
git -C /repo worktree add -q $WT HEAD || exit 1
(cd $WT && (git apply $P 2>/dev/null || patch -p1 -s --fuzz=3 < $P)) || { echo "$id $v APPLY-FAIL"; git -C /repo worktree remove --force $WT; exit 0; }
cd /verif
for p in C01 C02 C03 C05 C06 C07 C08 C10 C11 C12 C13 C14 C15 C16 C18 C19 C20; do
  out=$(VERIF_REPO=$WT ./check $p --repo $WT --no-evidence 2>&1); rc=$?
  first=$(echo "$out" | grep -m1 -E "FINDING|ANALYSIS-ERROR" | cut -c1-200)
  echo "$id $v $p $rc $first"
done
git -C /repo worktree remove --force $WT
