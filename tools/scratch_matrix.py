"""Runs every check against every <scratch>/<Cxx>/out/<V>.diff (applied as an in-memory overlay of /repo, nothing is written
to /repo) and writes <scratch>/MATRIX.txt with lines `<Cxx> <V> <prop> <rc> <first finding>`."""
import contextlib, io, os, sys
from concurrent.futures import ProcessPoolExecutor

VERIF = os.path.dirname(os.path.dirname(os.path.abspath(__file__)))
sys.path.insert(0, VERIF)
PROPS = ["C01", "C02", "C03", "C05", "C06", "C07", "C08", "C10", "C11", "C12", "C13", "C14", "C15", "C16", "C18", "C19", "C20"]


def one(args):
    pid, v, patch = args
    from selftest.corpus import _seed_overlay
    from sa.cli import run_property

    ov = _seed_overlay("/repo", patch)
    if ov is None:
        return [f"{pid} {v} APPLY-FAIL"]
    out = []
    for p in PROPS:
        buf = io.StringIO()
        with contextlib.redirect_stdout(buf):
            rc = run_property(p, "/repo", "quick", 0, overlay=ov, write_evidence=False)
        first = next((l.strip()[:220] for l in buf.getvalue().splitlines() if ("FINDING" in l and "KNOWN" not in l) or "ANALYSIS-ERROR" in l), "")
        out.append(f"{pid} {v} {p} {rc} {first}")
    return out


def main():
    scr = sys.argv[1]
    only = sys.argv[2:]
    jobs = []
    for pid in sorted(os.listdir(scr)):
        d = os.path.join(scr, pid, "out")
        if not os.path.isdir(d):
            continue
        for f in sorted(os.listdir(d)):
            if f.endswith(".diff") and os.path.getsize(os.path.join(d, f)) > 0:
                v = f[:-5]
                if only and not any(o in f"{pid}-{v}" for o in only):
                    continue
                jobs.append((pid, v, os.path.join(d, f)))
    lines = []
    with ProcessPoolExecutor(int(os.environ.get("JOBS", "8"))) as ex:
        for res in ex.map(one, jobs):
            lines += res
            print("\n".join(l for l in res if not l.endswith(" 0 ") and " 0 " not in l[:16]) if False else "", end="")
    mode = "a" if only else "w"
    with open(os.path.join(scr, "MATRIX.txt"), mode) as fh:
        fh.write("\n".join(lines) + "\n")
    # summary
    import collections
    m = collections.defaultdict(dict)
    for l in lines:
        f = l.split(" ", 4)
        if len(f) >= 4 and f[3] in "012":
            m[(f[0], f[1])][f[2]] = (int(f[3]), f[4] if len(f) > 4 else "")
    for k in sorted(m):
        det = [p for p, (r, _) in m[k].items() if r == 1]
        und = [p for p, (r, _) in m[k].items() if r == 2]
        keep = k[1].startswith("K")
        status = ("SILENT" if not det and not und else "ALARM") if keep else ("OWN" if k[0] in det else ("other" if det else "MISSED"))
        print(f"{k[0]}-{k[1]} {status} det={','.join(det)} undecided={','.join(und)}")
        if keep and (det or und):
            for p in det + und:
                print("     ", p, m[k][p][1][:200])


main()
