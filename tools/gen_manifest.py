"""Regenerates /verif/MANIFEST.json from the table below (run after adding a check)."""
import json, os, sys
HERE = os.path.dirname(os.path.dirname(os.path.abspath(__file__)))
sys.path.insert(0, HERE)
from tools.manifest_table import CHECKS, NOT_APPLICABLE  # noqa

checks = []
for pid, c in CHECKS.items():
    checks.append({
        "property_id": pid,
        "quick_cmd": f"./check {pid} --tier quick",
        "thorough_cmd": f"./check {pid} --tier thorough",
        "evidence_file": f"/verif/evidence/{pid}.json",
        "replay_cmd_template": f"./check {pid} --replay {{path}}",
        "engine": "sa",
        "level_claimed": {"category": "other", "text": c["text"], "design_ref": f"DESIGN.md section 5 / {pid}"},
        "level_note": c["note"],
        "technique": c["technique"],
    })
m = {
    "version": 1,
    "setup_cmd": "./check --selfcheck",
    "hooks": {
        "guard": "TORCHJD_VERIF",
        "enable": "none needed: the checks are static and read /repo/src/torchjd as it is; no instrumentation commit exists",
        "baseline_off_cmd": "cd /repo && /venv/bin/python -m pytest -ra -q -p no:cacheprovider --timeout=900 --continue-on-collection-errors",
        "source_commits": [],
        "add_only": True,
    },
    "engines": [{"name": "sa", "path": "/verif/sa", "serves_properties": list(CHECKS),
                 "kind_free_text": "repository-specific static analyser on the Python stdlib: program index + resolver, statement CFGs with (post)dominators, "
                                   "abstract interpreter with trace partitioning over a product domain (axis tags, equivariance flags, scaling degree, dtype, aliasing, order/layout, polynomial normal forms, origins) and an operator table for torch/numpy/cvxpy"}],
    "checks": checks,
    "not_applicable": [{"property_id": k, "reason": v} for k, v in NOT_APPLICABLE.items()],
    "notes": "Static analysis only: no check imports or executes torchjd. Exit 0 = all obligations discharged, exit 1 + VIOLATION line = a definite violation, "
             "exit 2 + ANALYSIS-ERROR = the analysis no longer applies (vanished anchor / construct outside the analysed subset). Genuine defects found and repaired are in known_findings.json (status fixed).",
}
json.dump(m, open(os.path.join(HERE, "MANIFEST.json"), "w"), indent=1)
print("MANIFEST.json:", len(checks), "checks,", len(m["not_applicable"]), "not applicable")
