"""Regenerates the seed × check tables of DESIGN.md (between the `<!-- seeds:<round> -->` markers) from seeded/*/meta.json."""
import json, os, re, sys

VERIF = os.path.dirname(os.path.dirname(os.path.abspath(__file__)))


def table(tag):
    rows = ["| seed | change | needs | detected by |", "|---|---|---|---|"]
    for n in sorted(os.listdir(os.path.join(VERIF, "seeded"))):
        if not __import__("re").search(rf"-{tag}[A-Z]", n):
            continue
        m = json.load(open(os.path.join(VERIF, "seeded", n, "meta.json")))
        cut = lambda s, k: (s[:k].rstrip() + "…") if len(s) > k else s
        esc = lambda s: s.replace("|", "\\|").replace("\n", " ")
        und = f" (undecided: {', '.join(m['undecided_in'])})" if m.get("undecided_in") else ""
        rows.append(f"| {n} | {esc(cut(m.get('what', ''), 170))} | {esc(cut(m.get('needs_to_manifest', ''), 100))} | {', '.join(m['detected_by'])}{und} |")
    return "\n".join(rows)


p = os.path.join(VERIF, "DESIGN.md")
s = open(p, encoding="utf-8").read()
def keep_table(tag):
    rows = ["| refactoring | what | checks not silent after the fixes |", "|---|---|---|"]
    d = os.path.join(VERIF, "seeded_keep")
    for n in sorted(os.listdir(d)) if os.path.isdir(d) else []:
        if not __import__("re").search(rf"-{tag}[A-Z]", n):
            continue
        m = json.load(open(os.path.join(d, n, "meta.json")))
        und = m.get("undecided_in") or {}
        rows.append(f"| {n} | {m.get('what', '').replace('|', chr(92) + '|')} | {('undecided (exit 2, recorded limitation): ' + ', '.join(sorted(und))) if und else 'none'} |")
    return "\n".join(rows)


for tag in ("r3", "r4", "r5", "r6", "r7", "r8", "r9", "r10", "r11", "r12"):
    a, b = f"<!-- keep:{tag} -->", f"<!-- /keep:{tag} -->"
    if a in s and b in s:
        s = s[: s.index(a) + len(a)] + "\n" + keep_table(tag) + "\n" + s[s.index(b):]
for tag in ("r1", "r2", "r3", "r4", "r5", "r6", "r7", "r8", "r9", "r10", "r11", "r12"):
    a, b = f"<!-- seeds:{tag} -->", f"<!-- /seeds:{tag} -->"
    if a in s and b in s:
        s = s[: s.index(a) + len(a)] + "\n" + table(tag) + "\n" + s[s.index(b):]
open(p, "w", encoding="utf-8").write(s)
