OPS = "trusted base: the operator table (axis/equivariance/degree/dtype axioms for torch, numpy, cvxpy, qpsolvers operators) and the home-grown resolver; numerical values are not decided"
CHECKS = {
 "C08": {"technique": "abstract interpretation: axis-tag / equivariance type system over every aggregator forward, per constructor variant and path",
         "text": "For all matrices at once: every weighted aggregator's result is typed 'in the row span'; the 13 Gramian-based ones are typed equivariant under orthogonal column maps; deterministic ones under column permutation and zero-column insertion. The symmetry is the soundness theorem of the typing, so no input is sampled.",
         "note": OPS + "; provisos of the property (unambiguous rank, fixed seed) assumed"},
 "C10": {"technique": "abstract interpretation: row-permutation equivariance typing (incl. implicit flows through branches, slice bounds, loops over rows)",
         "text": "For every listed aggregator, constructor variant (with/without preference, weight, leak vectors) and path, the returned value is typed invariant under row permutations.",
         "note": OPS + "; no exact ties at argmin/topk/argsort, unique QP/conic optimum (the property's own provisos)"},
 "C11": {"technique": "abstract interpretation with mis-shaped / mismatched abstract inputs + effect inventory + scaling-degree and dtype typing",
         "text": "Decides validation (non-2-d, non-finite, row-count vs. configured vectors/minima -> ValueError before any value use), purity, statelessness, torch-seeded RNG only, dtype preservation and positive homogeneity (degree-1 result, scale-free decisions except the documented norm_eps threshold). Finiteness over 27 orders of magnitude is NOT decided.",
         "note": OPS},
}
CHECKS["C03"] = {"technique": "abstract interpretation with origin tracking: parameter-role flow to the threshold / regulariser / QP-bound / solver sinks; must-pass-through the QP",
  "text": "Structural necessary conditions only: norm_eps is compared with the largest singular value (degree 1, from the svd of the raw matrix), reg_eps scales an identity added to the Gramian handed to solve_qp as P, pref_vector (or uniform 1/m) is the QP bound, solver reaches solve_qp, and the weights come out of the QP on every returning path. Exactness/uniqueness of the projection is numerical and not decided.",
  "note": OPS}
CHECKS["C16"] = {"technique": "abstract interpretation + polynomial normal forms of slice/narrow/topk bounds and row-count guards; dataflow reconstruction from tagged structural operators",
  "text": "Decides the index arithmetic, axes and direction flags: TrimmedMean = mean over window [b, m-b) of the ascending row-wise sort; Krum = cdist(p=2, exact differences), ascending top-(m-f-1) minus self = m-f-2 distances summed, n_selected lowest scores, weights 1/n_selected; guards raise iff m < 2b+1 / m < f+3 / m < k; constructors reject b<0, f<0, k<1. Floating-point behaviour at 1e12 corruption and ties are not decided.",
  "note": OPS + "; torch.cdist switches to the mm expansion above 25 rows unless compute_mode forbids it"}
CHECKS["C18"] = {"technique": "loop-carried def-use analysis, polynomial normal form of the blend coefficient / convex step, tagged-operator dataflow",
  "text": "Five structural necessary conditions only: PCGrad tests each conflict against the vector the same loop updates, visits every other row, uses one order per row and sums the projected vectors; GradDrop draws one uniform sample per column outside the row loop and its blend coefficient normalises to 1 / leak_i; Random = softmax over the rows of randn(m); CAGrad rejects c<0 and returns 1/m + (c-dependent factor)·w or exact zeros; MGDA starts uniform and takes convex steps. All numerical clauses are not decided.",
  "note": OPS + "; enumerated idioms — other code shapes give ANALYSIS-ERROR"}
CHECKS["C19"] = {"technique": "typestate / constructor-reset agreement over the class's attribute stores, CFG path predicates (exactly-once, dominance, guarded-by), reaching definitions with kind inference",
  "text": "Every attribute stored outside __init__ is restored by reset() with the constructor's expression or rebuilt under the 'fresh' guard; step advances exactly once per path after the schedule test; the optimiser runs exactly on scheduled calls and is the only writer of the reused weights; reused calls read no other cached state; the weights are a torch tensor on all paths into weights @ matrix. The max_norm bound and solver convergence are not decided.",
  "note": "kinds inferred from construction forms (torch.* / np.* / .numpy()); cvxpy behaviour trusted"}
NA_PENDING = "check not built yet in this commit (planned, see DESIGN.md section 5)"
NOT_APPLICABLE = {
 "C04": "Non-conflict is a numerical inequality on the outputs of a QP, a Frank-Wolfe loop and a conic solver with input-dependent allowances; no clause of it is visible in the shape of the code.",
 "C09": "Linearity of c -> A(diag(c)J) is a numerical identity (exact or up to O(sqrt(reg_eps))); the only structural sub-case (value-independent weights of Mean/Sum/Constant) is decided under C05.",
 "C17": "Equal projections / cosines / orthogonality are identities between pseudo-inverses and eigendecompositions for full-row-rank inputs; not derivable by a finite-domain static analysis.",
}
for _p in ["C01", "C02", "C03", "C05", "C06", "C07", "C12", "C13", "C14", "C15", "C16", "C18", "C19", "C20"]:
    if _p not in CHECKS:
        NOT_APPLICABLE[_p] = NA_PENDING
