OPS = "trusted base: the operator table (axis/equivariance/degree/dtype axioms for torch, numpy, cvxpy, qpsolvers operators) and the home-grown resolver; numerical values are not decided"
CHECKS = {
 "C08": {"technique": "abstract interpretation: axis-tag / equivariance type system over every aggregator forward, per constructor variant and path",
         "text": "For all matrices at once: every weighted aggregator's result is typed 'in the row span'; the 13 Gramian-based ones are typed equivariant under orthogonal column maps; deterministic ones under column permutation and zero-column insertion. The symmetry is the soundness theorem of the typing, so no input is sampled.",
         "note": OPS + "; provisos of the property (unambiguous rank, fixed seed) assumed"},
 "C10": {"technique": "abstract interpretation: row-permutation equivariance typing (incl. implicit flows through branches, slice bounds, loops over rows)",
         "text": "For every listed aggregator, constructor variant (with/without preference, weight, leak vectors) and path, the returned value is typed invariant under row permutations.",
         "note": OPS + "; no exact ties at argmin/topk/argsort, unique QP/conic optimum (the property's own provisos)"},
 "C11": {"technique": "abstract interpretation with mis-shaped / mismatched abstract inputs + effect inventory + scaling-degree and dtype typing",
         "text": "Decides validation (non-2-d, non-finite, row-count vs. configured vectors/minima -> ValueError before any value use), purity, statelessness, torch-seeded RNG only, dtype preservation and positive homogeneity (degree-1 result, scale-free decisions except the documented norm_eps threshold). Finiteness over 27 orders of magnitude is NOT decided.",
         "note": OPS},
}
CHECKS["C03"] = {"technique": "abstract interpretation with origin tracking: parameter-role flow to the threshold / regulariser / QP-bound / solver sinks; must-pass-through the QP",
  "text": "Structural necessary conditions only: norm_eps is compared with the largest singular value (degree 1, from the svd of the raw matrix), reg_eps scales an identity added to the Gramian handed to solve_qp as P, pref_vector (or uniform 1/m) is the QP bound, solver reaches solve_qp, and the weights come out of the QP on every returning path. Exactness/uniqueness of the projection is numerical and not decided.",
  "note": OPS}
CHECKS["C16"] = {"technique": "abstract interpretation + polynomial normal forms of slice/narrow/topk bounds and row-count guards; dataflow reconstruction from tagged structural operators",
  "text": "Decides the index arithmetic, axes and direction flags: TrimmedMean = mean over window [b, m-b) of the ascending row-wise sort; Krum = cdist(p=2, exact differences), ascending top-(m-f-1) minus self = m-f-2 distances summed, n_selected lowest scores, weights 1/n_selected; guards raise iff m < 2b+1 / m < f+3 / m < k; constructors reject b<0, f<0, k<1. Floating-point behaviour at 1e12 corruption and ties are not decided.",
  "note": OPS + "; torch.cdist switches to the mm expansion above 25 rows unless compute_mode forbids it"}
CHECKS["C18"] = {"technique": "loop-carried def-use analysis, polynomial normal form of the blend coefficient / convex step, tagged-operator dataflow",
  "text": "Five structural necessary conditions only: PCGrad tests each conflict against the vector the same loop updates, visits every other row, uses one order per row and sums the projected vectors; GradDrop draws one uniform sample per column outside the row loop and its blend coefficient normalises to 1 / leak_i; Random = softmax over the rows of randn(m); CAGrad rejects c<0 and returns 1/m + (c-dependent factor)·w or exact zeros; MGDA starts uniform and takes convex steps. All numerical clauses are not decided.",
  "note": OPS + "; enumerated idioms — other code shapes give ANALYSIS-ERROR"}
CHECKS["C19"] = {"technique": "typestate / constructor-reset agreement over the class's attribute stores, CFG path predicates (exactly-once, dominance, guarded-by), reaching definitions with kind inference",
  "text": "Every attribute stored outside __init__ is restored by reset() with the constructor's expression or rebuilt under the 'fresh' guard; step advances exactly once per path after the schedule test; the optimiser runs exactly on scheduled calls and is the only writer of the reused weights; reused calls read no other cached state; the weights are a torch tensor on all paths into weights @ matrix. The max_norm bound and solver convergence are not decided.",
  "note": "kinds inferred from construction forms (torch.* / np.* / .numpy()); cvxpy behaviour trusted"}
PIPE = "trusted base: pipeline operator axioms (autograd.grad returns one optional gradient per input in order and has no .grad side effect; cat/stack/vstack/diag/vmap layout axioms; an aggregator's output inherits its input's column layout) and the home-grown resolver; numerical values are not decided"
CHECKS["C01"] = {"technique": "abstract end-to-end interpretation of backward over symbolic key collections: stage order, order/layout tokens at every pack/zip/slice site, idiom recognition, single-pass-iterable typestate",
  "text": "For all programs and argument lists at once (no input appears in the argument): on every non-empty returning path cotangents are ones diagonalised in the given order, every sweep differentiates exactly `tensors` w.r.t. exactly the inputs with paired cotangents, unused inputs become zeros, the aggregator is applied exactly once before any write to a matrix laid out over the inputs, each key gets the slice packed for it (pack/unpack orders coincide), and iterable parameters are materialised before traversal. Numerical values are not decided.",
  "note": PIPE}
CHECKS["C02"] = {"technique": "abstract end-to-end interpretation of mtl_backward (explicit and defaulted parameter lists): stage order, row/column order coherence, overlap check dominance, single-pass iterables",
  "text": "Each task differentiates its own loss w.r.t. its own parameters + features and accumulates only its own parameters; per-task feature gradients are stacked along dim 0 in the order of the losses; the shared Jacobian uses exactly features and shared parameters; one aggregation after all sweeps; overlap rejected first. Numerical values are not decided.",
  "note": PIPE}
CHECKS["C05"] = {"technique": "closed-form (polynomial) evaluation of the constant weightings + single-contraction check of the combine step + the pipeline conditions of C01/C02",
  "text": "Structural reduction of 'coincides with autograd' by linearity: Constant/Sum/Mean are exactly J -> w^T J with w = the configured vector / 1 / 1/m (no state, no value reads), cotangents are ones and one row per output scalar, the aggregator is applied exactly once to the united Jacobian. The numerical equality with torch.autograd's .grad is not decided.",
  "note": OPS + "; " + PIPE}
CHECKS["C06"] = {"technique": "ownership / effect analysis: who-may-write .grad (syntactic writers vs. observed abstract writes), forbidden autograd APIs, CFG path counting in the writer, freshness typing of stored values",
  "text": "The only .grad writers are reached only with requested targets; existing .grad is added to in place, absent .grad gets a freshly allocated tensor; exactly one write per key; no other autograd side effect API is called; no in-place op on user tensors. Decided for all histories because no history appears in the argument.",
  "note": PIPE + "; graphs without retain_grad() tensors (documented limitation)"}
CHECKS["C13"] = {"technique": "interprocedural value-flow (origin) of retain_graph to every autograd.grad site through constructors, fields, partials, closures and defaults; sweep-order rule over the abstract execution",
  "text": "Every autograd.grad site receives the caller's retain_graph unmodified or the literal True; the last sweep of each Jacobian carries the caller's flag and earlier ones True; single-sweep task gradients use the flag; create_graph never derives from it. What torch frees is trusted.",
  "note": PIPE}
CHECKS["C15"] = {"technique": "per-building-block order/layout coherence over the abstract runs (pack/zip/slice sites, prefix-sum and running-offset idioms, row-major reshapes)",
  "text": "Layout/pairing clauses only: Grad/Jac pair outputs, cotangents and inputs from one ordered source with zero materialisation and prefix-sum column blocks; Init = ones; Diagonalize = one row per scalar in key order; Stack = dim 0 with zeros for absent keys; Aggregate = one aggregator call on the column-wise concatenation and each key its own slice. Numerical content is torch's and not decided.",
  "note": PIPE}
CHECKS["C20"] = {"technique": "checks-before-effects ordering over the abstract execution: rejection inventory, no write event on any rejection path, validation loops completed before the first write",
  "text": "On every path ending in an argument-kind ValueError (and aggregator rejection in backward) no .grad write event precedes the raise; all requested parameter collections pass the expects-grad check in completed loops before the first write, so the position of an offending argument cannot matter.",
  "note": PIPE}
CHECKS["C07"] = {"technique": "polynomial normal form of the row-slice bounds (loop index, ceil/floordiv as derived symbols) with exhaustive evaluation of the extracted index expressions as fallback; CFG exactly-once and guarded-by predicates",
  "text": "The row blocks are proved to be [i·k,(i+1)·k) for i < ceil(m/k)−1 plus the open-ended remainder (normal forms equal), or — for any other arithmetic — the extracted expressions are evaluated for all m ≤ 12, k ∈ {None,1..m+2}: ordered partition, non-empty, ≤ k rows, ceil(m/k) blocks. One chunk-routine call per block, one VJP application per call, one autograd.grad per VJP; vmap only on the negative edge of 'this block has one row'. vmap ≡ sequential numerically is not decided.",
  "note": PIPE}
CHECKS["C12"] = {"technique": "differential comparison of abstract event sequences (defaulted vs explicit call, after renaming the discovered collections), call-site role extraction, loop-carried overwrite rule, CFG guard analysis of the traversal",
  "text": "The defaulted call executes the same event sequences as the explicit one on every non-empty path; the three discovery call sites receive the documented (tensors, excluded) roles in the order of the losses; the overlap check sees all tasks and comes first; every successor adoption in the graph walk is guarded by not-None and not-visited/excluded tests on that successor and marks it. torch's leaf/AccumulateGrad correspondence is not decided.",
  "note": PIPE + "; traversal idiom recognised in enumerated forms"}
CHECKS["C14"] = {"technique": "who-may-override / who-may-call rules, dominance on CFGs, abstract execution of the real constructors and of check_keys_are over symbolic key sets under all set relations, class-table LCA cross-check",
  "text": "For all terms at once: the key check dominates _compute and cannot be overridden or bypassed; check_keys_are / Composition / Conjunction reject exactly the unequal / overlapping scenarios (adjacent or not) and accept the equal / disjoint ones; every runtime key check of the real pipelines is decided equal (declared = computed keys); LCA of all 36 ordered pairs of dictionary types matches the class table; mutators always raise; construction checks dominate storage and visit every pair.",
  "note": "symbolic key sets are non-empty and pairwise disjoint atoms; " + PIPE}
NA_PENDING = "check not built yet in this commit (planned, see DESIGN.md section 5)"
NOT_APPLICABLE = {
 "C04": "Non-conflict is a numerical inequality on the outputs of a QP, a Frank-Wolfe loop and a conic solver with input-dependent allowances; no clause of it is visible in the shape of the code.",
 "C09": "Linearity of c -> A(diag(c)J) is a numerical identity (exact or up to O(sqrt(reg_eps))); the only structural sub-case (value-independent weights of Mean/Sum/Constant) is decided under C05.",
 "C17": "Equal projections / cosines / orthogonality are identities between pseudo-inverses and eigendecompositions for full-row-rank inputs; not derivable by a finite-domain static analysis.",
}
for _p in ["C01", "C02", "C03", "C05", "C06", "C07", "C12", "C13", "C14", "C15", "C16", "C18", "C19", "C20"]:
    if _p not in CHECKS:
        NOT_APPLICABLE[_p] = NA_PENDING
