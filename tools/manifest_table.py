OPS = "trusted base: the operator table (axis/equivariance/degree/dtype axioms for torch, numpy, cvxpy, qpsolvers operators) and the home-grown resolver; numerical values are not decided"
CHECKS = {
 "C08": {"technique": "abstract interpretation: axis-tag / equivariance type system over every aggregator forward, per constructor variant and path",
         "text": "For all matrices at once: every weighted aggregator's result is typed 'in the row span'; the 13 Gramian-based ones are typed equivariant under orthogonal column maps; deterministic ones under column permutation and zero-column insertion. The symmetry is the soundness theorem of the typing, so no input is sampled.",
         "note": OPS + "; provisos of the property (unambiguous rank, fixed seed) assumed"},
 "C10": {"technique": "abstract interpretation: row-permutation equivariance typing (incl. implicit flows through branches, slice bounds, loops over rows)",
         "text": "For every listed aggregator, constructor variant (with/without preference, weight, leak vectors) and path, the returned value is typed invariant under row permutations.",
         "note": OPS + "; no exact ties at argmin/topk/argsort, unique QP/conic optimum (the property's own provisos)"},
 "C11": {"technique": "abstract interpretation with mis-shaped / mismatched abstract inputs + effect inventory + scaling-degree and dtype typing",
         "text": "Decides validation (non-2-d, non-finite, row-count vs. configured vectors/minima -> ValueError before any value use), purity, statelessness (no store to self/globals from forward, no memoisation decorators or module-level mutable containers in torchjd.aggregation), torch-seeded RNG only, dtype preservation and positive homogeneity (degree-1 result, scale-free decisions except the documented norm_eps threshold). Finiteness over 27 orders of magnitude is NOT decided.",
         "note": OPS},
}
CHECKS["C03"] = {"technique": "abstract interpretation with origin tracking: parameter-role flow to the threshold / regulariser / QP-bound / solver sinks; must-pass-through the QP",
  "text": "Structural necessary conditions only: norm_eps is compared with the largest singular value (degree 1, from the svd of the raw matrix), reg_eps scales an identity added to the Gramian handed to solve_qp as P, pref_vector (or uniform 1/m) is the QP bound, solver reaches solve_qp, and the weights come out of the QP on every returning path. Exactness/uniqueness of the projection is numerical and not decided.",
  "note": OPS}
CHECKS["C16"] = {"technique": "abstract interpretation + polynomial normal forms of slice/narrow/topk bounds and row-count guards; dataflow reconstruction from tagged structural operators",
  "text": "Decides the index arithmetic, axes and direction flags: TrimmedMean = mean over window [b, m-b) of the ascending row-wise sort; Krum = cdist(p=2, exact differences), ascending top-(m-f-1) minus self = m-f-2 distances summed, n_selected lowest scores, weights 1/n_selected; guards raise iff m < 2b+1 / m < f+3 / m < k; constructors reject b<0, f<0, k<1; the average is formed in the matrix's dtype. Floating-point behaviour at 1e12 corruption and ties are not decided.",
  "note": OPS + "; torch.cdist switches to the mm expansion above 25 rows unless compute_mode forbids it"}
CHECKS["C18"] = {"technique": "loop-carried def-use analysis, polynomial normal form of the blend coefficient / convex step, tagged-operator dataflow",
  "text": "Five structural necessary conditions only: PCGrad tests each conflict against the vector the same loop updates, visits every other row, uses one order per row and sums the projected vectors; GradDrop draws one uniform sample per column outside the row loop and its blend coefficient normalises to 1 / leak_i; Random = softmax over the rows of randn(m); CAGrad rejects c<0 and returns 1/m + (c-dependent factor)·w or exact zeros; MGDA starts uniform, takes convex steps with a step size proved in (0,1) from the guards (also when the choice lives in a helper), leaves the loop only on a test of the step size and never lets the iterate alias a buffer it overwrites; CAGrad hands the whole factorisation of the Gramian to the cone programme. All numerical clauses are not decided.",
  "note": OPS + "; enumerated idioms — other code shapes give ANALYSIS-ERROR"}
CHECKS["C19"] = {"technique": "typestate / constructor-reset agreement over the class's attribute stores, CFG path predicates (exactly-once, dominance, guarded-by), reaching definitions with kind inference",
  "text": "Every attribute stored outside __init__ is restored by reset() with the constructor's expression or rebuilt under the 'fresh' guard; step advances exactly once per path after the schedule test; the optimiser runs exactly on scheduled calls and is the only writer of the reused weights; reused calls read no other cached state; the weights are a torch tensor on all paths into weights @ matrix. The max_norm bound and solver convergence are not decided.",
  "note": "kinds inferred from construction forms (torch.* / np.* / .numpy()); cvxpy behaviour trusted"}
PIPE = "trusted base: pipeline operator axioms (autograd.grad returns one optional gradient per input in order and has no .grad side effect; cat/stack/vstack/diag/vmap layout axioms; an aggregator's output inherits its input's column layout) and the home-grown resolver; numerical values are not decided"
CHECKS["C01"] = {"technique": "abstract end-to-end interpretation of backward over symbolic key collections: stage order, order/layout tokens at every pack/zip/slice site, idiom recognition, single-pass-iterable typestate",
  "text": "For all programs and argument lists at once (no input appears in the argument): on every non-empty returning path cotangents are ones diagonalised in the given order, every sweep differentiates exactly `tensors` w.r.t. exactly the inputs with paired cotangents, unused inputs become zeros, the aggregator is applied exactly once, through __call__ (so that its hooks run), before any write, to a matrix laid out over the inputs, each key gets the slice packed for it (pack/unpack orders coincide), and iterable parameters are materialised before traversal. Numerical values are not decided. Where a rewritten chunk loop defeats the symbolic reading, the same clauses are read off instance runs of the abstract interpreter (sizes concrete, m ≤ 6, tensors abstract; bounded evidence, marked as such).",
  "note": PIPE}
CHECKS["C02"] = {"technique": "abstract end-to-end interpretation of mtl_backward (explicit and defaulted parameter lists): stage order, row/column order coherence, overlap check dominance, single-pass iterables",
  "text": "Each task differentiates its own loss w.r.t. its own parameters + features and accumulates only its own parameters; per-task feature gradients are stacked along dim 0 in the order of the losses; the shared Jacobian uses exactly features and shared parameters; one aggregation after all sweeps; overlap rejected first. Numerical values are not decided. Where a rewritten chunk loop defeats the symbolic reading, the same clauses are read off instance runs of the abstract interpreter (sizes concrete, m ≤ 6, tensors abstract; bounded evidence, marked as such).",
  "note": PIPE}
CHECKS["C05"] = {"technique": "closed-form (polynomial) evaluation of the constant weightings + single-contraction check of the combine step + the pipeline conditions of C01/C02",
  "text": "Structural reduction of 'coincides with autograd' by linearity: Constant/Sum/Mean are exactly J -> w^T J with w = the configured vector / 1 / 1/m (no state, no value reads), cotangents are ones and one row per output scalar, the aggregator is applied exactly once to the united Jacobian. The numerical equality with torch.autograd's .grad is not decided.",
  "note": OPS + "; " + PIPE}
CHECKS["C06"] = {"technique": "ownership / effect analysis: who-may-write .grad (syntactic writers vs. observed abstract writes), forbidden autograd APIs, CFG path counting in the writer, freshness typing of stored values",
  "text": "The only .grad writers are reached only with requested targets; existing .grad is added to in place, absent .grad gets a freshly allocated tensor; exactly one write per key; no other autograd side effect API is called; no in-place op on user tensors; the stored value has the dtype of its target and never aliases an autograd result or another .grad. Decided for all histories because no history appears in the argument.",
  "note": PIPE + "; graphs without retain_grad() tensors (documented limitation)"}
CHECKS["C13"] = {"technique": "interprocedural value-flow (origin) of retain_graph to every autograd.grad site through constructors, fields, partials, closures and defaults; sweep-order rule over the abstract execution (instance runs with concrete sizes when the flag is chosen per iteration)",
  "text": "Every autograd.grad site receives the caller's retain_graph unmodified or the literal True — or an expression of it whose value at each sweep the instance runs determine; the last sweep of each Jacobian carries the caller's flag and earlier ones True; single-sweep task gradients use the flag; create_graph never derives from it. What torch frees is trusted.",
  "note": PIPE}
CHECKS["C15"] = {"technique": "per-building-block order/layout coherence over the abstract runs (pack/zip/slice sites, prefix-sum and running-offset idioms, row-major reshapes)",
  "text": "Layout/pairing clauses only: Grad/Jac pair outputs, cotangents and inputs from one ordered source with zero materialisation and prefix-sum column blocks; Init = ones; Diagonalize = one row per scalar in key order; Stack = dim 0 with zeros for absent keys; Aggregate = one aggregator call on the column-wise concatenation and each key its own slice, also when the block is applied on its own to a dictionary whose insertion order is unrelated to the constructor's key order. Numerical content is torch's and not decided. Where a rewritten chunk loop defeats the symbolic reading, the same clauses are read off instance runs of the abstract interpreter (sizes concrete, m ≤ 6, tensors abstract; bounded evidence, marked as such).",
  "note": PIPE}
CHECKS["C20"] = {"technique": "checks-before-effects ordering over the abstract execution: rejection inventory, no write event on any rejection path, validation loops completed before the first write",
  "text": "On every path ending in an argument-kind ValueError (and aggregator rejection in backward) no .grad write event precedes the raise; all requested parameter collections (in mtl_backward also the discovered ones: a leaf frozen after the forward pass is still discovered) pass the full expects-grad check in completed loops before the first write, so the position of an offending argument cannot matter. One-shot iterators are consumed once along a path (a validation loop over an iterator that an earlier check exhausted validates nothing).",
  "note": PIPE}
CHECKS["C07"] = {"technique": "polynomial normal form of the row-slice bounds (loop index, ceil/floordiv as derived symbols) with two fallbacks (extracted index expressions evaluated for m ≤ 12; instance runs of the abstract interpreter with concrete sizes and row-span tracking); CFG exactly-once and guarded-by predicates",
  "text": "The row blocks are proved to be [i·k,(i+1)·k) for i < ceil(m/k)−1 plus the open-ended remainder (normal forms equal), or — for any other arithmetic — the extracted expressions are evaluated for all m ≤ 12, k ∈ {None,1..m+2}: ordered partition, non-empty, ≤ k rows, ceil(m/k) blocks; or — for loops whose index expressions cannot be extracted (while loops, generators with look-ahead, lists of slices) — the interpreter is run with concrete sizes (m ≤ 6, every k ≤ m+1 and None) and the sweeps it meets, with the rows their cotangents carry, must cover rows 0..m−1 exactly once, in order. One chunk-routine call per block, one VJP application per call, one autograd.grad per VJP; vmap only on the negative edge of 'this block has one row'. Differential rule: what reaches the aggregator and every .grad write (dtype, layout, assign/accumulate) on the chunked paths is also produced by the un-chunked call of the same variant. vmap ≡ sequential numerically is not decided.",
  "note": PIPE}
CHECKS["C12"] = {"technique": "differential comparison of abstract event sequences (defaulted vs explicit call, after renaming the discovered collections), call-site role extraction, loop-carried overwrite rule, CFG guard analysis of the traversal",
  "text": "The defaulted call executes the same event sequences as the explicit one on every non-empty path; the three discovery call sites receive the documented (tensors, excluded) roles in the order of the losses; the overlap check sees all tasks and comes first; every successor adoption in the graph walk is guarded by not-None and not-visited/excluded tests on that successor and marks it. torch's leaf/AccumulateGrad correspondence is not decided.",
  "note": PIPE + "; traversal idiom recognised in enumerated forms"}
CHECKS["C14"] = {"technique": "who-may-override / who-may-call rules, dominance on CFGs, abstract execution of the real constructors and of check_keys_are over symbolic key sets under all set relations, class-table LCA cross-check",
  "text": "For all terms at once: the key check dominates the method __call__ applies and cannot be overridden or bypassed (a direct call of that method is accepted only with a proof that the skipped check repeats the one just made); check_keys_are / Composition / Conjunction reject exactly the unequal / overlapping scenarios (adjacent or not) and accept the equal / disjoint ones; all 644 terms of depth ≤ 2 over five Select leaves and the empty conjunction are built abstractly and compared with the documented rules (accepted exactly when well-formed, declared keys as documented); every runtime key check of the real pipelines is decided equal (declared = computed keys); LCA of all 36 ordered pairs of dictionary types matches the class table; mutators always raise; construction checks dominate storage and visit every pair.",
  "note": "symbolic key sets are non-empty and pairwise disjoint atoms; " + PIPE}
# ---- clauses added in round 6 (appended to the texts above)
_R6 = {
 "C02": " One task per POSITION of `losses`: the losses never become dictionary keys or set elements on the way to the per-task transforms (a loss listed twice gives two rows).",
 "C03": " Scale safety: no product or power on a returning path scales like the input to a power > 1 (the Gramian is assembled from factors already divided by the largest singular value).",
 "C06": " An in-place accumulation into flatten()/reshape()/contiguous() of the existing .grad (also through torch._foreach_add_) is reported: it is the field's own storage only when contiguous.",
 "C07": " Sweeps per block and the vmap guard are read off the shape of the code and, where that reading fails, off instance runs (sizes concrete, tensors abstract) that list every sweep with its rows and whether it ran under vmap; sizes the row count says nothing about (total numel of the features) are enumerated; bounds read from a set of integers in iteration order are reported.",
 "C11": " The finiteness test is the whole question 'is every entry finite' (all(isfinite) / any(isnan | isinf) and their negations) and the path that computes a result is the one on which it answered yes.",
 "C12": " The mapping from graph nodes to leaves is not filtered.",
 "C14": " Constructors of the quantified transforms traverse their iterable parameters once; unions walk all members.",
 "C15": " A transform is a function of its input: no attribute of a transform is stored during an application with a value that depends on what the application was given (memoising constructor data is accepted); as_strided with another tensor's strides is not a row-major un-flattening.",
 "C16": " The distance matrix may be spelt torch.cdist(matrix, matrix) or F.pairwise_distance of the broadcast rows (eps must be 0); the row itself is excluded by position, never by a test on the distance values.",
 "C18": " CAGrad: the quantity compared with the stationarity threshold is the same norm power as the divisor. PCGrad may walk zip(order, G[order]).",
 "C19": " The max_norm cap compares equal powers of ||weights·matrix|| and max_norm and rescales by max_norm/||weights·matrix|| (evaluated at sample points); the weights stored for reuse are the weights returned; state rebuilt lazily is rebuilt, on every path feasible right after reset(), before it is read.",
 "C20": " The chunk-size validator returns normally only for None or a positive value; an argument rejection raised inside a loop is not preceded by a .grad write of an earlier iteration.",
}
for _p, _t in _R6.items():
    CHECKS[_p]["text"] = CHECKS[_p]["text"] + _t
# ---- clauses added in round 7
_R7 = {
 "C01": " No flattening with view(-1) of a tensor that has the strides of a user tensor, and no conversion of the Jacobian / the aggregated vector to a fixed or default dtype.",
 "C02": " A second abstract run passes `features` and `losses` as tuples (no TypeError); the transforms handed to the stack are in the order of the tasks.",
 "C03": " The QP solution is not stored into a buffer allocated with the dtype of the preference vector.",
 "C05": " A tensor listed twice in `inputs` is accepted (as torch.autograd.backward does).",
 "C06": " A requested collection is never re-bound to a selection of itself.",
 "C07": " The instance runs are consulted on every run: a single-row sweep never runs batched (torch.vmap or is_grads_batched); vmap's own chunk_size is the row count of the block.",
 "C11": " A 0-d input is rejected with ValueError too; values are not stored into buffers that have the dtype of a configuration tensor.",
 "C12": " Discovered leaves are not de-duplicated by a derived key; the walker may classify nodes when they are discovered; excluded roots may be subtracted by the caller.",
 "C13": " Inside summarised loops 'is this element's collection empty' is decided uniformly per path; vmap's own chunk_size must not split the last block.",
 "C14": " Shape validators decide on shapes, not by quantifying over the rows of the value; the checks may be declared as class-level tables walked by TensorDict.__init__.",
 "C15": " (see C01 for view(-1) and dtype conversions.)",
 "C16": " TrimmedMean may select by two partial selections (rank windows compose); trimming by position without ordering, and a total from which the extremes are subtracted, are reported.",
 "C18": " PCGrad: a conflict mask computed before the loops reads the original rows (reported); GradDrop: the mask algebra is integer-valued (signed masks), and a constructor-time copy derived from a public attribute that forward also reads is reported.",
 "C19": " The cap may be one expression (evaluated in both regimes); every returning path of forward passes the cap; reset() touches only attributes the constructor creates.",
 "C20": " Before the first .grad write a test has established that tensors / features / losses are non-empty, in every argument form.",
}
for _p, _t in _R7.items():
    CHECKS[_p]["text"] = CHECKS[_p]["text"] + _t
# ---- clauses added in round 8
_R8 = {
 "C01": " A view that leaves a dimension to be inferred beside a number of elements (fails for an empty key) and a view of a packed vector as (-1, n) read column-wise (strided, not block-wise) are reported; a length taken from a dictionary keyed by tensor is reported.",
 "C02": " (see C01 / C15 for strided readings of packed axes.)",
 "C03": " reg_eps multiplies the identity itself: an interpolation towards the identity (torch.lerp, eps * (I - G)) is another quadratic form and is reported.",
 "C07": " chunk(n) cuts into n blocks (ceil(rows / n) rows each), split(k) into blocks of k rows: both are followed by the instance runs; a block size capped by a constant is reported.",
 "C11": " Type promotion is dimension-aware (a configuration tensor with dimensions promotes the matrix, a 0-d one does not; an in-place operation keeps the dtype of its target; sum(dtype=) sets it).",
 "C12": " A successor is followed unless it is None, excluded or visited — any other condition on it is reported; the element-wise overlap check is not left early on a condition about one task.",
 "C13": " A memo (`if k not in d: d[k] = ...`) whose value is computed from a parameter the key does not name, and whose dictionary meets several values of it, is reported (the VJP callable of another sweep).",
 "C14": " A conjunction hands back what its members produced, never its input; the checks of Gradients / Jacobians compare shapes as wholes (numbers of axes and of elements alone are reported).",
 "C15": " A column axis made of per-key blocks viewed as (rows, …key axes…, n) interleaves the blocks (reported); container stores (append / extend / …) into an attribute of a transform during an application count as stores.",
 "C18": " PCGrad: the order of every row is drawn on every path (not only when some row conflicts); products kept up to date instead of recomputed are read through their invariant. MGDA: the step just computed is taken before the loop is left.",
 "C19": " Tensors handed to numpy that derive from the input are detached first; attributes changed in place (an iterator advanced with next(), a container) are state that reset() must restore.",
 "C20": " The entry points are also run with their differentiated collection handed over as a one-shot iterable (always true, no len()); a loop variable read after its loop denotes the last element only.",
}
for _p, _t in _R8.items():
    CHECKS[_p]["text"] = CHECKS[_p]["text"] + _t
# ---- clauses added in round 9
_R9 = {
 "C02": " Sizes that the row count does not determine (the number of feature tensors) are free in the exhaustive evaluation of the row-block expressions.",
 "C03": " norm_eps is a STRICT threshold (an inclusive test, isclose(s, 0, atol=eps), is reported); the configuration forward computes with is read at call time (a constructor parameter kept as a public attribute and also frozen into a partial / derived field that forward uses is reported).",
 "C06": " A requested collection is not de-duplicated by a key computed from its elements (data_ptr, shape, stride).",
 "C07": " (see C02 for free collection sizes.)",
 "C11": " A store to a field of an object created during the call (a local helper object) is not a store to state.",
 "C12": " Guards on names bound by the same loop target as the successor (`for child, output_nr in next_functions`) count as guards on the successor; a dictionary used as 'visited set + flag' is read as a visited set and a result set.",
 "C13": " A graph differentiated once receives the caller's retain_graph itself: combined with anything else (`retain_graph or len(features) > 1`) it is reported.",
 "C14": " A mutator is looked up the way python does (own class, then bases left to right): a blocking mixin listed after dict is reported; one member object listed twice in a conjunction is rejected; GradientVectors / JacobianMatrices fix the NUMBER of axes by an equality (a lower bound is reported); the per-pair check may be one comparison in TensorDict against an 'expected shape' hook of the typed classes.",
 "C15": " Building blocks materialise Iterable parameters before any other traversal (rule P). Rows written block by block into a pre-allocated buffer are followed by position in the instance runs; rows never written are reported.",
 "C16": " A slice applied to its own result in a loop over range(b) (`x = x[1:-1]`) is folded once, multiplied by the trip count.",
 "C18": " GradDrop without a loop may blend the leak with torch.lerp (the reversed arguments are reported); MGDA may keep the vertex as an index (`alpha = (1-g)·alpha; alpha[t] += g`) and drive the loop with a flag; PCGrad may keep the projected row in a small helper object.",
 "C19": " The cap bound may be handed to a helper as a parameter: every call must pass self.max_norm there (a call relying on the default is reported); hyper-parameters may live in a frozen configuration object.",
}
for _p, _t in _R9.items():
    CHECKS[_p]["text"] = CHECKS[_p]["text"] + _t
# ---- clauses added in round 10
_R10 = {
 "C06": " Every iteration of the writer's loop over the keys executes a .grad write (no `continue` before it).",
 "C07": " vmap's own chunk_size, where the expression is not readable (a factory parameter), is decided by the instance runs (chunk >= rows of the block it is applied to).",
 "C11": " A read-only module-level table is a constant, a written one is state; values computed from the matrix are not converted to a narrower fixed dtype on the way; isclose() is modelled with its default absolute tolerance.",
 "C12": " The worklist is unbounded (no deque maxlen); leaf discovery may be done per group of tensors.",
 "C13": " The two entry points list retain_graph / parallel_chunk_size in the same relative order (sibling cross-check).",
 "C14": " Stack's constructor is decided by abstract execution like Conjunction's (spreading `*generator` consumes it); checks that REPORT instead of raising are a layout this rule does not read (undecided).",
 "C15": " Zeros standing in for a missing gradient are flattened like the gradients before they are laid end to end.",
 "C18": " MGDA makes max_iters steps (a counter started at 1, `range(1, n)`, is reported); counter- and flag-driven while loops are read as the for loops they are.",
 "C19": " In the method that stores the weights, a store of the returned value dominates every `return <local>`; a helper object held in an attribute (a call counter) is read through its methods.",
 "C20": " all()/any() over a validator that returns None stops after the first element (reported); the validated collection is not de-duplicated by a key computed from the tensors.",
}
for _p, _t in _R10.items():
    CHECKS[_p]["text"] = CHECKS[_p]["text"] + _t
_R11 = {
 "C10": " A loop over the rows that uses the position it is at as a number ((i + 1) * f(row_i)) is reported; `acc = acc + f(row_i)` is read like `acc += f(row_i)`.",
 "C14": " Sets of key sets are counted by proven equality of their members; collections.Counter(iterable) is its list (len = distinct, total = all).",
 "C16": " Krum's distance matrix may also be filled row by row (`buf[i] = vector_norm(matrix - row_i)` over enumerate(matrix)) or scattered from torch.pdist through triu_indices(m, m, 1) to both triangles; any other enumeration of the pairs, and distances rebuilt from the Gramian (squared norms minus twice the inner products), are reported. TrimmedMean's window may be a topk followed by a slice of its ordered result.",
}
for _p, _t in _R11.items():
    CHECKS[_p]["text"] = CHECKS[_p]["text"] + _t
_R12 = {
 "C03": " R6: no conversion to torch.get_default_dtype() or to a literal float32 / float16 / bfloat16 in the modules UPGrad and DualProj are made of (a float64 preference vector keeps its precision).",
 "C11": " R6: every Tensor.numpy() in torchjd.aggregation detaches first (receiver chain followed through single-assignment locals) or passes force=True. Decorators of the shape factory -> decorator -> wraps-wrapper(PRE; return f(...)) are expanded into the decorated function before anything is analysed (all aggregator checks).",
 "C12": " The start nodes may be filtered by a comprehension (`r for r in roots if r not in <excluded or a copy of it>`).",
 "C14": " R9: the dictionary-level test on first dimensions is not a signed sum / mean of consecutive differences. Stack's constructor is also executed on members whose requirements grow along the list. Class attributes bound by setattr(C, name, v) at module level (alone or in a loop over string constants) are read as aliases (R5).",
 "C19": " The weights·matrix product may be spelt torch.mv / mm / matmul / dot(x, y) or x.matmul(y), with transposed operands; a reaching definition of the weights that fixes their dtype to a torch.<dtype> literal is reported (R3).",
 "C20": " R3 also reads the source: a loop that calls the expects-grad validator cannot be left by return / break.",
 "C02": " The overlap test may be the inclusion-exclusion comparison len(A | B) < len(A) + len(B) (normalised to len(A & B) != 0); [*x] materialises like list(x).",
}
for _p, _t in _R12.items():
    CHECKS[_p]["text"] = CHECKS[_p]["text"] + _t
NA_PENDING = "check not built yet in this commit (planned, see DESIGN.md section 5)"
NOT_APPLICABLE = {
 "C04": "Non-conflict is a numerical inequality on the outputs of a QP, a Frank-Wolfe loop and a conic solver with input-dependent allowances; no clause of it is visible in the shape of the code.",
 "C09": "Linearity of c -> A(diag(c)J) is a numerical identity (exact or up to O(sqrt(reg_eps))); the only structural sub-case (value-independent weights of Mean/Sum/Constant) is decided under C05.",
 "C17": "Equal projections / cosines / orthogonality are identities between pseudo-inverses and eigendecompositions for full-row-rank inputs; not derivable by a finite-domain static analysis.",
}
for _p in ["C01", "C02", "C03", "C05", "C06", "C07", "C12", "C13", "C14", "C15", "C16", "C18", "C19", "C20"]:
    if _p not in CHECKS:
        NOT_APPLICABLE[_p] = NA_PENDING
