"""Copies confirmed seeds from a scratch directory into /verif/seeded/<id>/ (patch regenerated against /repo HEAD)."""
import json, os, shutil, subprocess, sys

SCR = sys.argv[1] if len(sys.argv) > 1 else "/tmp/seed"
TAG = sys.argv[2] if len(sys.argv) > 2 else "r1"
DESC = json.load(open(os.path.join(SCR, "DESCRIPTIONS.json"))) if os.path.exists(os.path.join(SCR, "DESCRIPTIONS.json")) else {}
confirm = {}
for l in open(os.path.join(SCR, "CONFIRM.tsv")):
    f = l.rstrip("\n").split("\t")
    if len(f) >= 5:
        confirm[(f[0], f[1])] = f
matrix = {}
mp = os.path.join(SCR, "MATRIX.txt")
if os.path.exists(mp):
    for l in open(mp):
        f = l.split(" ", 4)
        if len(f) >= 4 and f[3] in ("0", "1", "2"):
            matrix.setdefault((f[0], f[1]), {})[f[2]] = (int(f[3]), f[4].strip() if len(f) > 4 else "")
head = subprocess.check_output(["git", "-C", "/repo", "rev-parse", "--short", "HEAD"]).decode().strip()
wt = os.path.join(SCR, "_store_wt")
subprocess.call(["git", "-C", "/repo", "worktree", "remove", "--force", wt], stderr=subprocess.DEVNULL)
subprocess.check_call(["git", "-C", "/repo", "worktree", "add", "-q", wt, "HEAD"])
KEEP = json.load(open(os.path.join(SCR, "KEEP.json"))) if os.path.exists(os.path.join(SCR, "KEEP.json")) else {}
kept = 0
for (pid, v), f in sorted(confirm.items()):
    preserving = v.startswith("K")
    if preserving:
        ok = "1448 passed" in f[2] and f[3] == "demo_with=0" and f[4] == "demo_without=0"
    else:
        ok = "1448 passed" in f[2] and f[3] != "demo_with=0" and f[4] == "demo_without=0"
    if not ok:
        print("NOT KEPT", pid, v, f[2:])
        continue
    out = os.path.join(SCR, pid, "out")
    patch = os.path.join(out, f"{v}.diff")
    if preserving:
        subprocess.check_call(["git", "-C", wt, "checkout", "-q", "--", "."])
        subprocess.check_call(["git", "-C", wt, "clean", "-fdq"])
        if subprocess.call(f"cd {wt} && (git apply {patch} 2>/dev/null || patch -p1 -s --fuzz=3 < {patch})", shell=True) != 0:
            print("APPLY FAIL", pid, v)
            continue
        subprocess.check_call(["git", "-C", wt, "add", "-A"])
        diff = subprocess.check_output(["git", "-C", wt, "diff", "--cached"]).decode()
        subprocess.check_call(["git", "-C", wt, "reset", "-q", "--hard"])
        dest = f"/verif/seeded_keep/{pid}-{TAG}{v}"
        os.makedirs(dest, exist_ok=True)
        open(os.path.join(dest, "patch.diff"), "w").write(diff)
        shutil.copy(os.path.join(out, "demoK.py"), os.path.join(dest, "demo.py"))
        mx = matrix.get((pid, v), {})
        meta = {
            "preserves_property": pid,
            "kind": "behaviour-preserving refactoring",
            "origin": f"independent sub-agent, round {TAG[1:]}, given only the property record and a scratch worktree",
            "what": KEEP.get(f"{pid}-{v}", ""),
            "based_on_repo_commit": head,
            "confirmed": {
                "how": "scratch worktree of /repo HEAD: patch applied; full suite; demo.py (checks the property through the public API) run with and without the patch",
                "tests_with_change": f[2], "demo_exit_with_change": 0, "demo_exit_without_change": 0,
            },
            "alarms": sorted(p for p, (rc, _) in mx.items() if rc != 0),
            "expect": "every check exits 0 with this patch applied",
        }
        json.dump(meta, open(os.path.join(dest, "meta.json"), "w"), indent=1)
        kept += 1
        continue
    subprocess.check_call(["git", "-C", wt, "checkout", "-q", "--", "."])
    if subprocess.call(f"cd {wt} && (git apply {patch} 2>/dev/null || patch -p1 -s --fuzz=3 < {patch})", shell=True) != 0:
        print("APPLY FAIL", pid, v)
        continue
    subprocess.check_call(["git", "-C", wt, "add", "-A"])
    diff = subprocess.check_output(["git", "-C", wt, "diff", "--cached"]).decode()
    subprocess.check_call(["git", "-C", wt, "reset", "-q", "--hard"])
    dest = f"/verif/seeded/{pid}-{TAG}{v}"
    os.makedirs(dest, exist_ok=True)
    open(os.path.join(dest, "patch.diff"), "w").write(diff)
    shutil.copy(os.path.join(out, f"demo{v}.py"), os.path.join(dest, "demo.py"))
    for extra in os.listdir(out):
        if extra.startswith("_") and extra.endswith(".py"):
            shutil.copy(os.path.join(out, extra), os.path.join(dest, extra))
    mx = matrix.get((pid, v), {})
    d = DESC.get(f"{pid}-{v}", {})
    meta = {
        "breaks_property": pid,
        "origin": f"independent sub-agent, round {TAG[1:]}, given only the property record and a scratch worktree",
        "what": d.get("what", ""),
        "needs_to_manifest": d.get("needs", ""),
        "based_on_repo_commit": head,
        "confirmed": {
            "how": "scratch worktree of /repo HEAD: patch applied; `PYTHONPATH=<wt>/src /venv/bin/python -m pytest -q -p no:cacheprovider -n 8 --timeout=900`; demo.py run with and without the patch",
            "tests_with_change": f[2],
            "demo_exit_with_change": int(f[3].split("=")[1]),
            "demo_exit_without_change": int(f[4].split("=")[1]),
        },
        "detected_by": sorted(p for p, (rc, _) in mx.items() if rc == 1),
        "undecided_in": sorted(p for p, (rc, _) in mx.items() if rc == 2),
        "first_finding": {p: t for p, (rc, t) in mx.items() if rc == 1},
        "apply": "git -C /repo apply /verif/seeded/%s-%s%s/patch.diff ; run checks ; git -C /repo checkout -- ." % (pid, TAG, v),
    }
    json.dump(meta, open(os.path.join(dest, "meta.json"), "w"), indent=1)
    kept += 1
subprocess.call(["git", "-C", "/repo", "worktree", "remove", "--force", wt])
print("kept", kept)
