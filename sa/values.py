"""Abstract values of the interpreter (DESIGN.md 3.5)."""

from __future__ import annotations

from dataclasses import dataclass, field, replace
from fractions import Fraction

from .poly import Poly

Z = "Z"  # exact zero: any scaling degree


class AVal:
    pass


@dataclass(frozen=True)
class Unk(AVal):
    why: str = "unknown"

    def __repr__(self):
        return f"Unk({self.why})"


@dataclass(frozen=True, eq=False)
class OptV(AVal):
    """`val` or None (the result of next(it, None), d.get(k), ... on an object): narrowed by `is None` tests."""

    val: AVal = None

    def __eq__(self, other):
        return isinstance(other, OptV) and (self.val is other.val or self.val == other.val)

    def __hash__(self):
        return hash(("OptV", id(self.val)))

    def __repr__(self):
        return f"Optional[{self.val!r}]"


@dataclass(frozen=True)
class Const(AVal):
    """A concrete python constant (None, bool, int, float, str, Ellipsis)."""

    v: object

    def __repr__(self):
        return f"Const({self.v!r})"


NONE = Const(None)
TRUE = Const(True)
FALSE = Const(False)


@dataclass(frozen=True)
class TV(AVal):
    """Typed numeric value: tensor / ndarray / cvxpy expression / python number."""

    kind: str = "tensor"  # tensor | ndarray | cvx | pyint | pyfloat | pybool
    axes: tuple = ()
    p: bool = True  # equivariant under row permutations acting on R axes
    q: bool = True  # equivariant under orthogonal maps acting on C axes
    s: bool = True  # equivariant under column permutations
    z: bool = True  # equivariant under appending all-zero columns
    span: bool = False  # every C-fibre lies in the row span of the input matrix
    deg: object = Fraction(0)  # scaling degree: Fraction | Z | None (not homogeneous)
    dtype: str = "Py"  # M | Default | F64 | Int | Bool | Cfg | Py
    alias: bool = False  # may share memory with the input matrix / a configuration tensor
    origin: frozenset = frozenset()
    poly: Poly | None = None  # closed form (python numbers) / constant fill value (tensors)
    idx_of: str | None = None  # values are positions along an axis with this tag
    size_of: str | None = None  # python int measuring the extent of an axis with this tag
    gen: frozenset = frozenset()  # generic loop indices the value depends on
    rng: bool = False
    layout: tuple = ()  # per-axis layout tokens (pipeline domain)
    note: str = ""
    rowspan: object = None  # instance runs: which rows [lo, hi) of the full stack of cotangents this value carries, in order; "?" = lost

    def but(self, **kw) -> "TV":
        return replace(self, **kw)

    @property
    def is_py(self) -> bool:
        return self.kind in ("pyint", "pyfloat", "pybool")

    def short(self) -> str:
        fl = "".join(c for c, b in zip("pqsz", (self.p, self.q, self.s, self.z)) if b)
        d = "⊤" if self.deg is None else str(self.deg)
        extra = ""
        if self.span:
            extra += " span"
        if self.idx_of:
            extra += f" idx:{self.idx_of}"
        if self.poly is not None and self.is_py:
            extra += f" ={self.poly}"
        if self.rng:
            extra += " rng"
        if self.gen:
            extra += " gen"
        return f"{self.kind}({','.join(self.axes)}) {fl} deg={d} {self.dtype}{' alias' if self.alias else ''}{extra}"

    def __repr__(self):
        return self.short()


@dataclass(frozen=True)
class ListV(AVal):
    """Immutable abstract list/tuple: either concrete ``items`` or a summary (generic ``elem``)."""

    items: tuple | None = None
    elem: AVal | None = None
    kind: str = "list"
    over: str | None = None  # axis tag when the sequence enumerates a tensor axis (rows)
    order: tuple | None = None  # (source token, mode) for pipeline order tracking
    length: AVal | None = None
    # a summary followed by items appended one by one outside any loop: `elem` covers everything (sound for all
    # consumers), `head` is the generic element of the summarised prefix and `tail` the appended items, in order
    head: AVal | None = None
    tail: tuple = ()
    tail_elem: AVal | None = None  # the `elem` these head/tail describe; a derived list with another elem invalidates them
    born: tuple | None = None  # the abstract loops open when a concrete list was created by a display: appends in the same context stay concrete
    it: int | None = None  # identity of a one-shot iterator (iter(), generator expression, chain, map, zip, ...): consumed once per path

    def parts(self):
        """(head element, tail items) when the segmented view is valid for this list, else None."""
        if self.items is None and self.tail and self.head is not None and self.tail_elem is self.elem:
            return self.head, self.tail
        return None

    def __repr__(self):
        if self.items is not None:
            return f"{self.kind}{list(self.items)!r}"
        return f"{self.kind}<{self.elem!r} over={self.over} order={self.order}{' +tail' + str(len(self.tail)) if self.tail else ''}>"


@dataclass(frozen=True)
class DictV(AVal):
    items: tuple | None = None  # tuple of (key AVal, value AVal) for small concrete dicts
    keys: AVal | None = None  # summary: key collection
    val: AVal | None = None
    ordered: bool = False
    born: int = -1  # abstract-loop depth at which this (concrete) dictionary was created: stores at the same depth happen in straight-line / unrolled code

    def __repr__(self):
        if self.items is not None:
            return "dict{" + ", ".join(f"{k!r}: {v!r}" for k, v in self.items) + "}"
        return f"dict<{self.keys!r} -> {self.val!r}>"


class ObjV(AVal):
    """Instance of a repository class (mutable: fields are set by interpreting ``__init__``)."""

    _n = 0

    def __init__(self, cls, fields=None):
        self.cls = cls
        self.fields: dict[str, AVal] = dict(fields or {})
        self.payload: AVal | None = None  # for dict subclasses
        ObjV._n += 1
        self.oid = ObjV._n

    def __repr__(self):
        return f"<{self.cls.name}#{self.oid}>"


@dataclass(frozen=True)
class ClassV(AVal):
    cls: object  # ClassInfo

    def __repr__(self):
        return f"class {self.cls.name}"


@dataclass(frozen=True)
class ExtV(AVal):
    """External module / function / class identified by dotted name."""

    name: str

    def __repr__(self):
        return f"ext:{self.name}"


@dataclass(frozen=True)
class ModV(AVal):
    name: str


@dataclass(frozen=True)
class MetaV(AVal):
    """dtype / device objects: ``what`` in {'dtype', 'device'}; ``tag`` as TV.dtype for dtypes."""

    what: str
    tag: str = ""
    origin: frozenset = frozenset()

    def __repr__(self):
        return f"{self.what}:{self.tag}"


@dataclass(frozen=True)
class SetV(AVal):
    """Abstract set / key collection: concrete ``items`` or summary ``elem``; ``atoms`` name the symbolic
    collections it is the union of (pipeline domain)."""

    items: tuple | None = None
    elem: AVal | None = None
    atoms: frozenset = frozenset()
    order: tuple | None = None

    def __repr__(self):
        if self.items is not None:
            return "set{" + ", ".join(map(repr, self.items)) + "}"
        return f"set<{sorted(self.atoms)} {self.elem!r}>"


@dataclass(frozen=True, eq=False)
class FuncV(AVal):
    info: object  # FunctionInfo
    closure: object = None  # Env

    def __repr__(self):
        return f"func {self.info.short}"


@dataclass(frozen=True, eq=False)
class LambdaV(AVal):
    node: object
    closure: object
    module: object

    def __repr__(self):
        return "lambda"


@dataclass(frozen=True, eq=False)
class BoundV(AVal):
    func: AVal
    self_obj: AVal

    def __repr__(self):
        return f"bound {self.func!r} of {self.self_obj!r}"


@dataclass(frozen=True, eq=False)
class PartialV(AVal):
    func: AVal
    args: tuple = ()
    kwargs: tuple = ()  # tuple of (name, value)

    def __repr__(self):
        return f"partial({self.func!r}, {dict(self.kwargs)!r})"


@dataclass(frozen=True, eq=False)
class ExtMethodV(AVal):
    recv: AVal
    name: str

    def __repr__(self):
        return f"{self.recv!r}.{self.name}"


@dataclass(frozen=True, eq=False)
class SuperV(AVal):
    obj: AVal
    after: object  # ClassInfo: lookup starts after this class in the MRO of obj.cls


@dataclass(frozen=True, eq=False)
class VmapV(AVal):
    func: AVal


class Env:
    def __init__(self, module, parent: "Env | None" = None, fn=None):
        self.vars: dict[str, AVal] = {}
        self.module = module
        self.parent = parent
        self.fn = fn  # FunctionInfo of the activation (None for module level)
        self.self_cls = None  # class in which the running method is defined (for super())
        self.caller_owned: set[str] = set()  # parameters still holding the container object the caller passed (not re-assigned since)
        self.mutated_params: set[str] = set()  # ... of which these were changed in place: the final value is written back to the caller's l-value

    def lookup(self, name: str):
        e = self
        while e is not None:
            if name in e.vars:
                return e.vars[name]
            e = e.parent
        return None

    def clone(self, memo: dict) -> "Env":
        if id(self) in memo:
            return memo[id(self)]
        n = Env(self.module, None, self.fn)
        memo[id(self)] = n
        n.self_cls = self.self_cls
        n.caller_owned = set(self.caller_owned)
        n.mutated_params = set(self.mutated_params)
        n.parent = self.parent.clone(memo) if self.parent is not None else None
        n.vars = {k: clone_value(v, memo) for k, v in self.vars.items()}
        return n


def clone_value(v, memo: dict):
    """Deep clone of the mutable part of the heap (ObjV, Env); immutable values are shared."""
    if isinstance(v, ObjV):
        if id(v) in memo:
            return memo[id(v)]
        n = ObjV.__new__(ObjV)
        memo[id(v)] = n
        n.cls = v.cls
        n.oid = v.oid
        n.payload = clone_value(v.payload, memo)
        n.fields = {k: clone_value(x, memo) for k, x in v.fields.items()}
        for extra in ("tuple_fields", "summary", "born_trace"):
            if hasattr(v, extra):
                setattr(n, extra, getattr(v, extra))
        return n
    if isinstance(v, FuncV) and v.closure is not None:
        return FuncV(v.info, v.closure.clone(memo))
    if isinstance(v, LambdaV) and v.closure is not None:
        return LambdaV(v.node, v.closure.clone(memo), v.module)
    if isinstance(v, BoundV):
        return BoundV(clone_value(v.func, memo), clone_value(v.self_obj, memo))
    if isinstance(v, PartialV):
        return PartialV(clone_value(v.func, memo), tuple(clone_value(a, memo) for a in v.args),
                        tuple((k, clone_value(a, memo)) for k, a in v.kwargs))
    if isinstance(v, ListV) and v.items is not None and any(isinstance(x, (ObjV, FuncV, BoundV, PartialV, ListV)) for x in v.items):
        return replace(v, items=tuple(clone_value(x, memo) for x in v.items))
    if isinstance(v, SuperV):
        return SuperV(clone_value(v.obj, memo), v.after)
    return v


# ------------------------------------------------------------------------------------------ joins
def join_deg(a, b):
    if a == b:
        return a
    if a == Z:
        return b
    if b == Z:
        return a
    return None


def join(a: AVal, b: AVal) -> AVal:
    if a is b or a == b:
        return a
    if a is None:
        return b
    if b is None:
        return a
    if isinstance(a, Unk):
        return a
    if isinstance(b, Unk):
        return b
    # an object or None
    if isinstance(a, OptV) or isinstance(b, OptV):
        va = a.val if isinstance(a, OptV) else (None if isinstance(a, Const) and a.v is None else a)
        vb = b.val if isinstance(b, OptV) else (None if isinstance(b, Const) and b.v is None else b)
        inner = join(va, vb)
        return inner if isinstance(inner, Unk) else OptV(inner)
    if isinstance(a, ObjV) and isinstance(b, Const) and b.v is None:
        return OptV(a)
    if isinstance(b, ObjV) and isinstance(a, Const) and a.v is None:
        return OptV(b)
    if isinstance(a, TV) and isinstance(b, TV):
        if a.kind != b.kind:
            if a.is_py and b.is_py:
                kind = "pyfloat"
            elif a.is_py != b.is_py and a.axes == b.axes == ():
                kind = b.kind if a.is_py else a.kind
            else:
                return Unk(f"join of kinds {a.kind}/{b.kind}")
        else:
            kind = a.kind
        if a.axes != b.axes:
            if "?" in a.axes and "?" in b.axes:
                ax = ("R", "?") if len(a.axes) >= 2 and len(b.axes) >= 2 else ("?",)
                a, b = replace(a, axes=ax), replace(b, axes=ax)
            elif ("?" in a.axes or "?" in b.axes) and set(a.axes) | set(b.axes) <= {"?", "K", "R"}:
                # opaque tensors of the pipeline domain (shape not tracked beyond a possible leading row axis)
                ax = tuple(x if x == y else "?" for x, y in zip(a.axes, b.axes)) if len(a.axes) == len(b.axes) else ("?",)
                a, b = replace(a, axes=ax), replace(b, axes=ax)
            else:
                return Unk(f"join of axes {a.axes}/{b.axes}")
        return TV(
            kind=kind, axes=a.axes, p=a.p and b.p, q=a.q and b.q, s=a.s and b.s, z=a.z and b.z,
            span=a.span and b.span, deg=join_deg(a.deg, b.deg), dtype=_join_dtype(a.dtype, b.dtype),
            alias=a.alias or b.alias, origin=a.origin | b.origin, poly=a.poly if a.poly == b.poly else None,
            idx_of=a.idx_of if a.idx_of == b.idx_of else None, size_of=a.size_of if a.size_of == b.size_of else None,
            gen=a.gen | b.gen, rng=a.rng or b.rng, layout=a.layout if a.layout == b.layout else (), note=a.note,
            rowspan=a.rowspan if (b.rowspan is None or a.rowspan == b.rowspan) else (b.rowspan if a.rowspan is None else "?"),
        )
    if isinstance(a, PartialV) and isinstance(b, PartialV):
        # functools.partial objects built from the same expression at two evaluations: the same function with the same bound arguments
        if join(a.func, b.func) is a.func and len(a.args) == len(b.args) and [k for k, _ in a.kwargs] == [k for k, _ in b.kwargs]:
            args = tuple(join(x, y) for x, y in zip(a.args, b.args))
            kws = tuple((k, join(x, y)) for (k, x), (_, y) in zip(a.kwargs, b.kwargs))
            if not any(isinstance(x, Unk) for x in args) and not any(isinstance(x, Unk) for _, x in kws):
                if all(x is y for x, y in zip(args, a.args)) and all(x is y for (_, x), (_, y) in zip(kws, a.kwargs)):
                    return a  # nothing new: the fixpoint iteration must see the same value
                return PartialV(a.func, args, kws)
    if isinstance(a, FuncV) and isinstance(b, FuncV) and a.info is b.info and (a.closure is b.closure or a.closure is None or b.closure is None):
        return a
    if isinstance(a, ObjV) and isinstance(b, ObjV):
        return join_objects(a, b)
    # a tensor or None (a slot being filled, an optional gradient)
    if isinstance(a, Const) and a.v is None and isinstance(b, TV) and not b.is_py and b.note in ("", "optional", "clone"):
        return b.but(note="optional")
    if isinstance(b, Const) and b.v is None and isinstance(a, TV) and not a.is_py and a.note in ("", "optional", "clone"):
        return a.but(note="optional")
    if isinstance(a, Const) and a.v is None and isinstance(b, TV) and not b.is_py:
        return OptV(b)  # a tensor or None (`buf: Tensor | None = None`, filled on first use): narrowed by `is None` tests
    if isinstance(b, Const) and b.v is None and isinstance(a, TV) and not a.is_py:
        return OptV(a)
    if isinstance(a, Const) and isinstance(b, TV):
        ta = const_to_tv(a)
        return join(ta, b) if isinstance(ta, TV) else Unk(f"join of {a.v!r} with a value")
    if isinstance(a, TV) and isinstance(b, Const):
        tb = const_to_tv(b)
        return join(a, tb) if isinstance(tb, TV) else Unk(f"join of a value with {b.v!r}")
    if isinstance(a, Const) and isinstance(b, Const):
        ta, tb = const_to_tv(a), const_to_tv(b)
        if isinstance(ta, TV) and isinstance(tb, TV):
            return join(ta, tb)
        return Unk(f"join of constants {a.v!r}/{b.v!r}")
    if isinstance(a, ListV) and isinstance(b, ListV):
        if a.items is not None and len(a.items) == 0 and b.items is None:
            return b
        if b.items is not None and len(b.items) == 0 and a.items is None:
            return a
        if a.items is not None and b.items is not None and len(a.items) == len(b.items):
            return replace(a, items=tuple(join(x, y) for x, y in zip(a.items, b.items)))
        ea = a.elem if a.items is None else _join_all(a.items)
        eb = b.elem if b.items is None else _join_all(b.items)
        return ListV(items=None, elem=join(ea, eb) if ea is not None and eb is not None else (ea or eb), kind=a.kind,
                     over=a.over if a.over == b.over else None, order=_join_order(a.order, b.order))
    if isinstance(a, (ListV, SetV)) and isinstance(b, (ListV, SetV)) and type(a) is not type(b):
        # key collections met as a list on one path and as a set on the other: keep the set view
        def as_set(x):
            if isinstance(x, SetV):
                return x
            atoms = frozenset(o for it in (x.items or ()) if isinstance(it, TV) and it.note == "key" for o in it.origin) or \
                (frozenset(a2 for a2 in x.order[0] if isinstance(a2, str)) if x.order else frozenset())
            if x.items is None and isinstance(x.elem, TV) and x.elem.note == "key":
                atoms = x.elem.origin
            return SetV(items=None if x.items is None or x.items else (), elem=x.elem if x.items is None else _join_all(x.items), atoms=atoms)

        return join(as_set(a), as_set(b))
    if isinstance(a, DictV) and isinstance(b, DictV):
        if a.items is not None and len(a.items) == 0:
            return b
        if b.items is not None and len(b.items) == 0:
            return a
        def summ(d):
            if d.items is None:
                return d
            ks = ListV(items=tuple(k for k, _ in d.items))
            return DictV(items=None, keys=ks, val=_join_all([v for _, v in d.items]), ordered=d.ordered)

        sa_, sb_ = summ(a), summ(b)
        ka, kb = sa_.keys, sb_.keys
        if isinstance(ka, ListV) and isinstance(kb, ListV) and ka.items is not None and kb.items is not None:
            keys = ListV(items=ka.items + tuple(k for k in kb.items if k not in ka.items))
        else:
            keys = join(ka, kb)
        return DictV(items=None, keys=keys, val=join(sa_.val, sb_.val), ordered=a.ordered and b.ordered)
    if isinstance(a, SetV) and isinstance(b, SetV):
        if a.items is not None and len(a.items) == 0 and b.items is None:
            return b
        if b.items is not None and len(b.items) == 0 and a.items is None:
            return a
        ea = a.elem if a.items is None else _join_all(a.items)
        eb = b.elem if b.items is None else _join_all(b.items)

        def at(x):
            return x.atoms or frozenset(o for it in (x.items or ()) if isinstance(it, TV) and it.note == "key" for o in it.origin)

        return SetV(items=None, elem=join(ea, eb) if ea is not None and eb is not None else (ea or eb), atoms=at(a) | at(b))
    return Unk(f"join of {type(a).__name__}/{type(b).__name__}")


def _join_order(oa, ob):
    """Order token of a list that is `a` on one path and `b` on another: a constant fill (`[x] * n`) adopts the other's order."""
    if oa == ob:
        return oa
    if oa is not None and ob is not None:
        if oa[1] == "const":
            return ob
        if ob[1] == "const":
            return oa
    return None


def join_objects(a: "ObjV", b: "ObjV", depth: int = 0) -> AVal:
    """Summary of two distinct instances of one class (elements of a list built in a loop): a fresh object whose fields are
    the joins. Its identity is derived from the oldest constituent so that fixpoint iteration stabilises. Sound for the
    objects of this code base that are met in collections (transforms, tensor dictionaries): they are not mutated after
    construction; a later field store on a summary is reported by the interpreter as `lost_mutation`."""
    if a.oid == b.oid:
        return a
    if a.cls is not b.cls or depth > 6:
        return Unk(f"join of distinct objects ({a.cls.name}/{b.cls.name})")
    root = min(abs(a.oid), abs(b.oid))
    o = ObjV(a.cls)
    o.oid = -root
    o.summary = True
    if getattr(a, "tuple_fields", None):
        o.tuple_fields = list(a.tuple_fields)
    for k in set(a.fields) | set(b.fields):
        fa, fb = a.fields.get(k), b.fields.get(k)
        if fa is None or fb is None:
            o.fields[k] = fa if fb is None else fb
        elif isinstance(fa, ObjV) and isinstance(fb, ObjV):
            o.fields[k] = join_objects(fa, fb, depth + 1)
        elif type(fa) is type(fb) and not isinstance(fa, (TV, Const, ListV, SetV, DictV, Unk)):
            o.fields[k] = fa  # callables / classes / modules: same kind of value
        else:
            o.fields[k] = join(fa, fb)
    if a.payload is not None or b.payload is not None:
        o.payload = join(a.payload, b.payload)
    return o


def _join_dtype(a, b):
    if a == b:
        return a
    # "the dtype of the key this value belongs to" met with "the dtype of the elements of collection X": the claim about X is the
    # one a consumer can check against its target collection
    if a == "dt:=key" and isinstance(b, str) and b.startswith("dt:"):
        return b
    if b == "dt:=key" and isinstance(a, str) and a.startswith("dt:"):
        return a
    if a == "Py":
        return b
    if b == "Py":
        return a
    return "Mixed"


def _join_all(items):
    out = None
    for x in items:
        out = x if out is None else join(out, x)
    return out


def const_to_tv(c: Const) -> AVal:
    v = c.v
    if isinstance(v, bool):
        return TV(kind="pybool", dtype="Bool", poly=Poly.const(int(v)))
    if isinstance(v, int):
        return TV(kind="pyint", dtype="Py", poly=Poly.const(v), deg=Z if v == 0 else Fraction(0))
    if isinstance(v, float):
        try:
            pl = Poly.const(v)
        except ValueError:
            pl = None
        return TV(kind="pyfloat", dtype="Py", poly=pl, deg=Z if v == 0 else Fraction(0))
    return c


def join_all(items):
    out = None
    for x in items:
        out = x if out is None else join(out, x)
    return out
