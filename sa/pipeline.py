"""Abstract end-to-end execution of torchjd.autojac.backward / mtl_backward (DESIGN.md 3.7)."""

from __future__ import annotations

from dataclasses import dataclass, field

from . import AnalysisError
from .interp import AbsRaise, Interp
from .pipeops import PipeOps, key_tv, keys_list, opaque, Q
from .poly import Poly
from .values import Const, FuncV, ListV, NONE, ObjV, SetV, TV, Unk


def find_grad_validators(index) -> dict:
    """Functions that reject (raise ValueError) a tensor by looking at requires_grad / is_leaf / retains_grad.

    Found structurally, not by name: a `raise ValueError` guarded by a test whose expression — inlining the return
    expression of repository predicates it calls — reads those attributes. 'full' = tests requires_grad and
    (is_leaf or retains_grad); anything less is 'weak'."""
    import ast

    def attrs_of(expr, fi, depth=0):
        out = set()
        for n in ast.walk(expr):
            if isinstance(n, ast.Attribute) and n.attr in ("requires_grad", "is_leaf", "retains_grad"):
                out.add(n.attr)
            if isinstance(n, ast.Call) and depth < 2:
                from .index import FunctionInfo

                callee = None
                if isinstance(n.func, ast.Name):
                    callee = index.resolve_name(fi.module, n.func.id)
                elif isinstance(n.func, ast.Attribute) and isinstance(n.func.value, ast.Name):
                    # cls.pred(t) / self.pred(t) / ClassName.pred(t)
                    owner = fi.cls if n.func.value.id in ("self", "cls") else index.resolve_name(fi.module, n.func.value.id)
                    if owner is not None and hasattr(owner, "lookup"):
                        r_ = owner.lookup(n.func.attr)
                        callee = r_[1] if r_ else None
                if isinstance(callee, FunctionInfo):
                    for v in returned_exprs(callee.node):
                        out |= attrs_of(v, callee, depth + 1)
        return out

    def returned_exprs(fn):
        """Expressions a function may return, following locals assigned once or several times (`r = e; return r`)."""
        out, seen = [], set()
        work = [r.value for r in ast.walk(fn) if isinstance(r, ast.Return) and r.value is not None]
        while work:
            e = work.pop()
            if isinstance(e, ast.Name):
                if e.id in seen:
                    continue
                seen.add(e.id)
                for a in ast.walk(fn):
                    if isinstance(a, ast.Assign) and any(isinstance(t, ast.Name) and t.id == e.id for t in a.targets):
                        work.append(a.value)
                    elif isinstance(a, (ast.AnnAssign, ast.AugAssign)) and isinstance(a.target, ast.Name) and a.target.id == e.id and a.value is not None:
                        work.append(a.value)
            else:
                out.append(e)
                # names used inside a returned expression may themselves be locals holding part of the predicate
                for n in ast.walk(e):
                    if isinstance(n, ast.Name) and isinstance(n.ctx, ast.Load) and n.id not in seen and any(
                            isinstance(a, ast.Assign) and any(isinstance(t, ast.Name) and t.id == n.id for t in a.targets) for a in ast.walk(fn)):
                        work.append(n)
        return out

    from .cfg import cfg_of
    from .guards import feasible
    from .index import FunctionInfo

    ATOMS = {"requires_grad": "R", "is_leaf": "L", "retains_grad": "G"}

    def inline_predicates(test, fi):
        """The test with calls of one-expression repository predicates replaced by what they return (parameters substituted)."""
        import copy

        class T(ast.NodeTransformer):
            def visit_Call(self, n):
                self.generic_visit(n)
                callee = None
                if isinstance(n.func, ast.Name):
                    callee = index.resolve_name(fi.module, n.func.id)
                elif isinstance(n.func, ast.Attribute) and isinstance(n.func.value, ast.Name):
                    owner = fi.cls if n.func.value.id in ("self", "cls") else index.resolve_name(fi.module, n.func.value.id)
                    if owner is not None and hasattr(owner, "lookup"):
                        r_ = owner.lookup(n.func.attr)
                        callee = r_[1] if r_ else None
                if isinstance(callee, FunctionInfo):
                    rets = returned_exprs(callee.node)
                    ps = [a.arg for a in callee.node.args.args if a.arg not in ("self", "cls")]
                    if len(rets) == 1 and len(ps) == len(n.args) and not n.keywords:
                        m = {p_: a_ for p_, a_ in zip(ps, n.args)}

                        class S(ast.NodeTransformer):
                            def visit_Name(self, x):
                                return copy.deepcopy(m[x.id]) if x.id in m and isinstance(x.ctx, ast.Load) else x

                        return S().visit(copy.deepcopy(rets[0]))
                return n

        return T().visit(copy.deepcopy(test))

    def strength(fi):
        """'full' when every way of returning normally has established requires_grad and (is_leaf or retains_grad) of the first
        parameter — read off the tests taken along each path, whatever their nesting and polarity; 'weak' otherwise."""
        ps = [a.arg for a in fi.node.args.args if a.arg not in ("self", "cls")]
        if not ps:
            return "weak"
        subject = ps[0]

        def classify(t):
            if isinstance(t, ast.Attribute) and isinstance(t.value, ast.Name) and t.value.id == subject and t.attr in ATOMS:
                return (ATOMS[t.attr], True)
            # `x.grad_fn is None`: no autograd function produced x — the definition of a leaf
            if isinstance(t, ast.Compare) and len(t.ops) == 1 and isinstance(t.ops[0], (ast.Is, ast.IsNot)):
                l_, r_ = t.left, t.comparators[0]
                if isinstance(l_, ast.Constant) and l_.value is None:
                    l_, r_ = r_, l_
                if isinstance(r_, ast.Constant) and r_.value is None and isinstance(l_, ast.Attribute) and l_.attr == "grad_fn" and isinstance(l_.value, ast.Name) and l_.value.id == subject:
                    return ("L", isinstance(t.ops[0], ast.Is))
            return None

        cfg = cfg_of(fi.node)
        for path in cfg.acyclic_paths():
            guards = []
            for a, b in zip(path, path[1:]):
                if a.kind == "test" and hasattr(a.ast, "test"):
                    lbl = next((l for m_, l in cfg.succ[a] if m_ is b), None)
                    if lbl in ("True", "False"):
                        guards.append((inline_predicates(a.ast.test, fi), lbl == "True"))
            f = feasible(guards, classify, extra_vars=("R", "L", "G"))
            if f is None:
                return "weak"
            if any(not (a_["R"] and (a_["L"] or a_["G"])) for a_ in f):
                return "weak"
        return "full"

    found = {}
    for fi in index.all_functions("torchjd.autojac"):
        if fi.parent is not None:
            continue
        raises = [x for x in ast.walk(fi.node) if isinstance(x, ast.Raise) and "ValueError" in ast.unparse(x)]
        if not raises:
            continue
        tests = [n.test for n in ast.walk(fi.node) if isinstance(n, (ast.If, ast.IfExp, ast.While))]
        a = set()
        for t in tests:
            a |= attrs_of(t, fi)
        if a & {"is_leaf", "retains_grad", "requires_grad"}:  # (grad_fn alone does not make a function a validator)
            found[fi.qualname] = strength(fi)
    return found


def find_leaf_discovery(index):
    """The function that maps tensors to the leaves of their autograd graphs, found by what it does: it (or the helpers it
    calls) walks `next_functions`; among the functions doing so, the outermost one — the one no other of them calls."""
    import ast

    from .index import FunctionInfo

    def words(fi):
        return {n.attr for n in ast.walk(fi.node) if isinstance(n, ast.Attribute)} | {n.value for n in ast.walk(fi.node) if isinstance(n, ast.Constant) and isinstance(n.value, str)}

    def callees(fi):
        out = []
        for n in ast.walk(fi.node):
            if isinstance(n, ast.Call) and isinstance(n.func, ast.Name):
                c = index.resolve_name(fi.module, n.func.id)
                if isinstance(c, FunctionInfo) and c.cls is None and c.parent is None:
                    out.append(c)
        return out

    fns = [fi for fi in index.all_functions("torchjd.autojac") if fi.parent is None and fi.cls is None]
    closure = {}
    for fi in fns:
        seen, work, acc = {fi.qualname}, [fi], set()
        while work:
            f = work.pop()
            acc |= words(f)
            for c in callees(f):
                if c.qualname not in seen and len(seen) < 12:
                    seen.add(c.qualname)
                    work.append(c)
        closure[fi.qualname] = (acc, seen - {fi.qualname})
    need = {"next_functions", "grad_fn", "variable"}
    walkers = {fi.qualname: fi for fi in fns if need <= closure[fi.qualname][0]}
    # the innermost function that does all of it: none of the functions it calls does
    minimal = [fi for q, fi in walkers.items() if not (closure[q][1] & set(walkers)) and fi.name not in ("backward", "mtl_backward")]
    if len(minimal) > 1:
        # several functions walk the graph on their own: the discovery function is the one both entry points call (the defaulting of their parameter lists)
        entries = [f for f in fns if f.name in ("backward", "mtl_backward")]
        score = {fi.qualname: sum(1 for e_ in entries if fi in callees(e_)) for fi in minimal}
        best = max(score.values())
        top = [fi for fi in minimal if score[fi.qualname] == best]
        if best > 0 and len(top) == 1:
            return top[0].qualname
    return minimal[0].qualname if len(minimal) == 1 else None


def flag(name):
    return TV(kind="pybool", dtype="Bool", origin=frozenset([name]), note="flag")


class PipeAnalysis:
    def __init__(self, index):
        self.index = index
        self.ops = PipeOps()
        self.interp = Interp(index, self.ops)
        self.interp.hooks["call"] = self.hook
        self.agg_cls = index.get_class("torchjd.aggregation.bases.Aggregator")
        self.validators = find_grad_validators(index)  # qualname -> "full" | "weak"
        self.leaf_discovery = find_leaf_discovery(index)
        if self.leaf_discovery is None:
            raise AnalysisError("anchor vanished: the leaf-discovery function (reads .grad_fn of its arguments, returns the .variable of graph nodes)")

    # ---- hooks: summarised callees
    def hook(self, info, bound, node):
        I = self.interp
        if info.qualname == self.leaf_discovery:
            ps_ = [a.arg for a in info.node.args.args]
            t, ex = bound.get(ps_[0]), (bound.get(ps_[1]) if len(ps_) > 1 else None)
            inner0 = (list(t.items) if t.items is not None else [t.elem]) if isinstance(t, ListV) else []
            nested0 = bool(inner0) and all(isinstance(x, (ListV, SetV)) for x in inner0)
            t_atoms = sorted({a for x in inner0 for a in self.ops.atoms_of(x)}) if nested0 else sorted(self.ops.atoms_of(t))
            self.ops.pev("leaf_discovery", node, tensors=t_atoms or repr(t)[:60], excluded=sorted(self.ops.atoms_of(ex)) if ex is not None else None,
                         excluded_empty=self._empty(ex), in_loop=bool(self.ops.loop_orders) or (nested0 and t.items is None),
                         loop_order=repr(t.order) if (nested0 and t.items is None) else repr(self.ops.current_loop_order(None)))
            if I.join_depth == 0:
                c = I.oracle.decide(f"{info.qualname}: grad_fn is None", 2)
                if c == 1:
                    I.trace.decisions.append("T[some tensor has no grad_fn]")
                    self.ops.pev("raise_site", node, exc="ValueError", what="grad_fn is None", function=info.qualname)
                    raise AbsRaise("ValueError", node, info.loc())
            def leaves_of(tt):
                at = "leaves(" + "+".join(sorted(self.ops.atoms_of(tt))) + (("\\" + "+".join(sorted(self.ops.atoms_of(ex)))) if not self._empty(ex) else "") + ")"
                return SetV(items=None, elem=key_tv(at), atoms=frozenset([at]))

            inner = (list(t.items) if t.items is not None else [t.elem]) if isinstance(t, ListV) else []
            if inner and all(isinstance(x, (ListV, SetV)) for x in inner):
                # discovery per GROUP of tensors (`groups: Iterable[Iterable[Tensor]]`): one set of leaves per group, in the order of the groups
                if t.items is not None:
                    return ListV(items=tuple(leaves_of(x) for x in t.items), kind="list")
                return ListV(items=None, elem=leaves_of(t.elem), kind="list", order=t.order, over=t.over)
            return leaves_of(t)
        if info.qualname in self.validators:
            params = [a.arg for a in info.node.args.args if a.arg not in ("self", "cls")]
            t = bound.get(params[0]) if params else None
            tgt = sorted(t.origin) if isinstance(t, TV) else sorted(self.ops.atoms_of(t)) if t is not None else None
            self.ops.pev("expects_grad_check", node, target=tgt, strength=self.validators[info.qualname], validator=info.qualname)
            return None
        if info.cls is not None and info.name == "__init__" and info.cls.module.name.endswith("_transform.stack") and I.join_depth == 0:
            # the members of the stack: their order is the order of the rows
            params = [a.arg for a in info.node.args.args if a.arg not in ("self", "cls")]
            mem = bound.get(params[0]) if params else None
            if isinstance(mem, ListV):
                self.ops.pev("stack_members", node, order=repr(mem.order) if mem.items is None else "concrete", mode=(mem.order[1] if mem.items is None and mem.order is not None else ("concrete" if mem.items is not None else None)))
        if info.cls is not None and self.agg_cls in info.cls.mro and info.name in ("__call__", "forward"):
            m = bound.get("matrix")
            if m is None:
                params = [a.arg for a in info.node.args.args if a.arg not in ("self", "cls")]
                m = bound.get(params[0]) if params else None
            if info.name == "forward":
                # nn.Module semantics: only __call__ runs the registered hooks; a direct forward() is not `aggregator(J)`
                self.ops.pev("aggregator_bypass", node, what="forward() called directly")
            lay = [l for l in (m.layout if isinstance(m, TV) else ()) if l[0] == 1]
            self.ops.pev("aggregator_call", node, matrix=repr(m), column_layout=repr(lay[0][1]) if lay else None,
                         rowspan=(m.rowspan if isinstance(m, TV) else None) if self.ops.inst is not None else None)
            if I.join_depth == 0:
                c = I.oracle.decide(f"{info.qualname}: aggregator rejects", 2)
                if c == 1:
                    I.trace.decisions.append("T[aggregator raises ValueError]")
                    raise AbsRaise("ValueError", node, "aggregator")
            return opaque(frozenset(["aggregated"]), axes=(Q,), layout=((0, lay[0][1], "aggregated"),) if lay else (), dtype=m.dtype if isinstance(m, TV) else "M")
        return None

    @staticmethod
    def _empty(v):
        if isinstance(v, SetV):
            return v.items is not None and len(v.items) == 0
        if isinstance(v, ListV):
            return v.items is not None and len(v.items) == 0
        return False

    # ---- entry points
    def aggregator(self):
        return ObjV(self.agg_cls)

    def chunk_arg(self, chunk_given, inst):
        if not chunk_given:
            return NONE
        if inst is not None and inst.get("k") is not None:
            return TV(kind="pyint", poly=Poly.const(inst["k"]), origin=frozenset(["parallel_chunk_size"]))
        return TV(kind="pyint", poly=Poly.sym("k"), origin=frozenset(["parallel_chunk_size"]))

    def run_instance(self, entry: str, m: int, k):
        """The same abstract run with concrete sizes: m rows in the stack of cotangents, parallel_chunk_size = k (None: not given).
        Tensors stay abstract; loops over row blocks run iteration by iteration and every value remembers which rows it carries."""
        self.ops.inst = {"m": m, "k": k, "entry": entry}
        try:
            if entry == "backward":
                return self.run_backward(True, k is not None, inst=self.ops.inst)
            return self.run_mtl(True, True, k is not None, inst=self.ops.inst)
        finally:
            self.ops.inst = None

    def run_backward(self, inputs_given: bool, chunk_given: bool, single: bool = False, inst=None, oneshot=()):
        f = self.index.get_function("torchjd.autojac.backward.backward")
        args = {
            "tensors": key_tv("tensors") if single else keys_list("tensors"),
            "aggregator": self.aggregator(),
            "inputs": keys_list("inputs") if inputs_given else NONE,
            "retain_graph": flag("retain_graph"),
            "parallel_chunk_size": self.chunk_arg(chunk_given, inst),
        }
        return self._run(f, args, oneshot)

    def run_mtl(self, tasks_given: bool, shared_given: bool, chunk_given: bool, single: bool = False, inst=None, oneshot=()):
        f = self.index.get_function("torchjd.autojac.mtl_backward.mtl_backward")
        tp = ListV(items=None, elem=keys_list("tasks_params[i]"), kind="list", order=(("tasks",), "same"))
        args = {
            "losses": ListV(items=None, elem=key_tv("losses[i]"), kind="list", order=(("tasks",), "same")),
            "features": key_tv("features") if single else keys_list("features"),
            "aggregator": self.aggregator(),
            "tasks_params": tp if tasks_given else NONE,
            "shared_params": keys_list("shared_params") if shared_given else NONE,
            "retain_graph": flag("retain_graph"),
            "parallel_chunk_size": self.chunk_arg(chunk_given, inst),
        }
        return self._run(f, args, oneshot)

    def _run(self, f, args, oneshot=()):
        params = [a.arg for a in f.node.args.args]
        missing = [p for p in params if p not in args]
        if missing:
            raise AnalysisError(f"entry point {f.short} has parameters the analysis does not know: {missing}")
        args = {k: v for k, v in args.items() if k in params}

        def thunk():
            self.ops.seq = 0
            self.ops.loop_orders = []
            self.ops.loop_ids = []
            a = dict(args)
            for name in oneshot:  # the argument is handed over as a one-shot iterable (iterator, generator): always true, no len()
                a[name] = self.ops.fresh_iter(a[name])
            return self.interp.exec_function(f, a, None)

        return self.interp.run_paths(thunk)
