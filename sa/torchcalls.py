"""torch / numpy / cvxpy / qpsolvers / builtins call semantics (part 2 of the operator table)."""

from __future__ import annotations

import ast
from dataclasses import replace
from fractions import Fraction

from .ops import F0, HALF, deg_add, deg_scale, deg_sub, deg_sum, tv_of
from .poly import Poly
from .torchops import ARG_REDUCTIONS, SYM_REDUCTIONS, UNARY_FUNCS, VIEW_METHODS, TorchOps
from .values import (
    FALSE, NONE, TRUE, Z, AVal, BoundV, ClassV, Const, DictV, Env, ExtMethodV, ExtV, FuncV, LambdaV, ListV, MetaV, ModV,
    ObjV, PartialV, SetV, SuperV, TV, Unk, VmapV, const_to_tv, join, join_deg,
)

LIBS = ("torch.linalg.", "torch.nn.functional.", "torch.autograd.", "torch.func.", "torch.", "numpy.linalg.", "numpy.random.", "numpy.")


def strip_lib(name: str) -> tuple[str, str]:
    for pre in LIBS:
        if name.startswith(pre):
            return pre, name[len(pre):]
    return "", name


class TorchCalls(TorchOps):
    # =========================================================================== dispatch
    def call_ext(self, name, args, kwargs, node, env):
        if name.startswith("builtins."):
            return self.call_builtin(name[9:], args, kwargs, node, env)
        lib, fn = strip_lib(name)
        if lib.startswith("torch") or lib.startswith("numpy"):
            return self.call_lib(lib, fn, args, kwargs, node, env)
        if name == "functools.partial":
            return PartialV(args[0], tuple(args[1:]), tuple(kwargs.items()))
        if name in ("dataclasses.replace", "copy.replace") and len(args) == 1 and isinstance(args[0], ObjV) and set(kwargs) <= set(args[0].fields):
            # a new instance with the same fields, the named ones changed
            o = ObjV(args[0].cls, dict(args[0].fields))
            o.fields.update(kwargs)
            if getattr(args[0], "tuple_fields", None):
                o.tuple_fields = list(args[0].tuple_fields)
            return o
        if name == "itertools.accumulate":
            extra = set(kwargs) - {"initial"}
            init = kwargs.get("initial")
            if extra or len(args) > 1 or (init is not None and self.const_int(init) != 0 and not (isinstance(init, Const) and init.v is None)):
                return self.unk("accumulate with a custom function / initial value", node)
            return self.accumulate(args[0], node, initial=init is not None and not (isinstance(init, Const) and init.v is None))
        if name in ("operator.attrgetter", "operator.itemgetter", "operator.methodcaller") and args and not kwargs and all(isinstance(a, Const) for a in args[:1]):
            # attrgetter("a") is `lambda x: x.a` (itemgetter / methodcaller likewise): a callable made of source the interpreter can read
            from .values import LambdaV

            key = args[0].v
            if name.endswith("attrgetter") and len(args) == 1 and isinstance(key, str) and key.isidentifier():
                src_ = f"lambda x__: x__.{key}"
            elif name.endswith("itemgetter") and len(args) == 1 and isinstance(key, (int, str)):
                src_ = f"lambda x__: x__[{key!r}]"
            elif name.endswith("methodcaller") and len(args) == 1 and isinstance(key, str) and key.isidentifier():
                src_ = f"lambda x__: x__.{key}()"
            else:
                return self.unk(f"{name} with these arguments", node)
            lam = ast.parse(src_, mode="eval").body
            for n_ in ast.walk(lam):
                ast.copy_location(n_, node)
            return LambdaV(lam, env, env.module if env is not None else None)
        if name.startswith("operator.") and not kwargs:
            opn = name.split(".", 1)[1].rstrip("_")
            binops = {"lshift": ast.LShift, "rshift": ast.RShift, "or": ast.BitOr, "and": ast.BitAnd, "xor": ast.BitXor, "add": ast.Add, "sub": ast.Sub, "mul": ast.Mult,
                      "truediv": ast.Div, "floordiv": ast.FloorDiv, "mod": ast.Mod, "matmul": ast.MatMult, "pow": ast.Pow,
                      "iadd": ast.Add, "ior": ast.BitOr, "iand": ast.BitAnd, "isub": ast.Sub, "imul": ast.Mult}
            cmps = {"eq": ast.Eq, "ne": ast.NotEq, "lt": ast.Lt, "le": ast.LtE, "gt": ast.Gt, "ge": ast.GtE, "is": ast.Is, "is_not": ast.IsNot}
            full = name.split(".", 1)[1]
            if opn in binops and len(args) == 2 and not full.startswith("i"):
                return self.interp.binop(args[0], binops[opn](), args[1], node, env)
            if full in cmps and len(args) == 2:
                return self.compare(args[0], cmps[full](), args[1], node, env)
            if full == "not_" and len(args) == 1:
                return self.unary(ast.Not(), args[0], node, env)
            if full == "neg" and len(args) == 1:
                return self.unary(ast.USub(), args[0], node, env)
            if full == "getitem" and len(args) == 2:
                return self.subscript(args[0], ("index", args[1]), node, env)
            if full == "contains" and len(args) == 2:
                return self.contains(args[0], args[1], False, node)
            return self.unk(f"operator function {full}", node)
        if name == "functools.reduce" and 2 <= len(args) <= 3 and not kwargs:
            lst = self.to_list(args[1], "list", node)
            I = self.interp
            if isinstance(lst, ListV) and lst.items is not None:
                items = list(lst.items)
                if len(args) == 3:
                    acc = args[2]
                elif items:
                    acc = items.pop(0)
                else:
                    return self.unk("reduce of an empty sequence without initial value", node)
                for x in items:
                    acc = I.call_value(args[0], [acc, x], {}, node, env)
                return acc
            if isinstance(lst, ListV) and lst.elem is not None and len(args) == 3:
                # least fixpoint of acc = acc ⊔ f(acc, elem)
                acc = args[2]
                I.join_depth += 1
                try:
                    for _ in range(8):
                        nxt = I.join_vals(acc, I.call_value(args[0], [acc, lst.elem], {}, node, env), set())
                        if nxt == acc or repr(nxt) == repr(acc):
                            break
                        acc = nxt
                finally:
                    I.join_depth -= 1
                return acc
            return self.unk("functools.reduce over this sequence", node)
        if name in ("itertools.chain", "itertools.chain.from_iterable"):
            if kwargs:
                return self.unk("chain with keywords", node)
            if name.endswith("from_iterable"):
                if len(args) != 1:
                    return self.unk("chain.from_iterable arity", node)
                outer = self.to_list(args[0], "list", node)
                if not isinstance(outer, ListV):
                    return self.unk("chain.from_iterable of a non-sequence", node)
                pieces = list(outer.items) if outer.items is not None else [("*", outer)]
            else:
                pieces = list(args)
            out = None
            for p_ in pieces:
                if isinstance(p_, tuple) and len(p_) == 2 and p_[0] == "*":
                    part = self.flatten_once(p_[1], node)
                else:
                    part = self.to_list(p_, "list", node)
                if not isinstance(part, ListV):
                    return self.unk("chain over a non-sequence", node)
                out = part if out is None else self.concat_lists(out, part, node)
            return out if out is not None else ListV(items=())
        if name == "itertools.starmap" and len(args) == 2 and not kwargs:
            lst = self.to_list(args[1], "list", node)
            I = self.interp
            if isinstance(lst, ListV) and lst.items is not None:
                out = []
                for t in lst.items:
                    tt = self.to_list(t, "tuple", node)
                    if not (isinstance(tt, ListV) and tt.items is not None):
                        return self.unk("starmap over non-tuples", node)
                    out.append(I.call_value(args[0], list(tt.items), {}, node, env))
                return ListV(items=tuple(out))
            if isinstance(lst, ListV) and isinstance(lst.elem, ListV) and lst.elem.items is not None:
                return ListV(items=None, elem=I.call_value(args[0], list(lst.elem.items), {}, node, env), kind="list", over=lst.over, order=lst.order)
            return self.unk("starmap over this sequence", node)
        if name == "itertools.repeat" and args and not kwargs:
            # the same object again and again; under zip() it adopts the length of its partners
            n = args[1] if len(args) > 1 else None
            return ListV(items=None, elem=args[0], kind="list", order=(("repeat",), "const"), length=n)
        if name == "itertools.pairwise":
            lst = self.to_list(args[0], "list", node)
            if isinstance(lst, ListV) and lst.items is not None:
                return ListV(items=tuple(ListV(items=(a, b), kind="tuple") for a, b in zip(lst.items, lst.items[1:])))
            r = self.pairwise_abstract(lst, node) if isinstance(lst, ListV) else None
            if r is None and isinstance(lst, ListV) and lst.elem is not None:
                # summary: two DIFFERENT members of the sequence — the second loses every closed form it shared with the first
                e = lst.elem
                other = e.but(poly=None) if isinstance(e, TV) else e
                r = ListV(items=None, elem=ListV(items=(e, other), kind="tuple"), kind="list", order=lst.order)
            return r if r is not None else self.unk("pairwise of abstract sequence", node)
        if name == "itertools.combinations":
            lst = self.to_list(args[0], "list", node)
            r = self.const_int(args[1]) if len(args) > 1 else None
            if isinstance(lst, ListV) and lst.items is not None and r == 2:
                import itertools as _it
                return ListV(items=tuple(ListV(items=c, kind="tuple") for c in _it.combinations(lst.items, 2)))
            return self.unk("combinations", node)
        if name == "math.prod" and len(args) == 1 and not kwargs:
            lst = self.to_list(args[0], "list", node)
            if isinstance(lst, ListV) and lst.items is not None:
                out = Const(1)
                for x in lst.items:
                    out = self.binary(out, ast.Mult(), x, node, env)
                return out
            return self.unk("math.prod of an abstract sequence", node)
        if name in ("math.ceil", "math.floor"):
            t = tv_of(args[0])
            if t is None:
                return self.unk(name, node)
            kind = name.split(".")[-1]
            poly = None
            if t.poly is not None:
                c = t.poly.const_value()
                if c is not None:
                    import math as _m
                    poly = Poly.const(_m.ceil(c) if kind == "ceil" else _m.floor(c))
                else:
                    poly = self.derived_sym(kind, t.poly)
            self.ev("ceil", node, what=name, arg_poly=t.poly)
            return TV(kind="pyint", note=kind, origin=t.origin, poly=poly)
        if name == "math.sqrt":
            t = tv_of(args[0])
            return t.but(deg=deg_scale(t.deg, HALF), poly=None) if t is not None else self.unk(name, node)
        if name == "collections.OrderedDict":
            return self.make_dict(args, kwargs, node, ordered=True)
        if name == "collections.OrderedDict.fromkeys":
            return self.dict_fromkeys(args, node)
        if name == "collections.Counter" and len(args) == 1 and not kwargs:
            # Counter(iterable): the multiset of the elements — kept as the list it was built from; len() counts the distinct elements, total() all of them
            lst = self.to_list(args[0], "list", node)
            return replace(lst, kind="counter") if isinstance(lst, ListV) else self.unk("Counter of a non-sequence", node)
        if name == "collections.deque":
            return args[0] if args else ListV(items=())
        if name == "qpsolvers.solve_qp":
            return self.solve_qp(args, kwargs, node)
        if name.startswith("cvxpy."):
            return self.call_cvx(name[6:], args, kwargs, node, env)
        if name.startswith("exception.") or name.split(".")[-1].endswith("Error"):
            return ExtV(name)
        if name in ("typing.TypeVar", "typing.cast"):
            return args[-1] if name == "typing.cast" else ExtV("typing.TypeVar")
        return self.unk(f"external function {name}", node)

    # =========================================================================== builtins
    def call_builtin(self, fn, args, kwargs, node, env):
        I = self.interp
        if fn == "len":
            return self.length(args[0], node)
        if fn == "range":
            return self.make_range(args, node)
        if fn in ("list", "tuple"):
            if not args:
                return ListV(items=(), kind=fn)
            return self.to_list(args[0], fn, node)
        if fn in ("set", "frozenset"):
            if not args:
                return SetV(items=())
            return self.to_set(args[0], node)
        if fn == "dict":
            return self.make_dict(args, kwargs, node, ordered=False)
        if fn == "dict.fromkeys":
            return self.dict_fromkeys(args, node)
        if fn == "zip":
            strict = isinstance(kwargs.get("strict"), Const) and kwargs["strict"].v is True
            return self.zip([a if isinstance(a, tuple) else self.consume(a, node, full=strict) for a in args], node)  # stops with the shortest: longer iterators keep a rest
        if fn == "enumerate":
            lst = self.to_list(args[0], "list", node)
            if isinstance(lst, ListV) and lst.items is not None:
                return ListV(items=tuple(ListV(items=(Const(i), x), kind="tuple") for i, x in enumerate(lst.items)))
            if isinstance(lst, ListV):
                idx = TV(kind="pyint", idx_of=lst.over, note="enumerate-index" if len(args) == 1 and not kwargs else "enumerate-index+start", origin=frozenset(["loop-index"]),
                         layout=(("enum", lst.order),) if lst.order is not None else ())
                out = replace(lst, elem=ListV(items=(idx, lst.elem), kind="tuple"), head=None, tail=(), tail_elem=None)
                pt = lst.parts()
                ln = tv_of(lst.length) if lst.length is not None else None
                if pt and ln is not None and ln.poly is not None and len(args) == 1 and not kwargs:
                    # summarised prefix of known length L, then known items: indices j in [0, L) and L, L+1, ...
                    head_len = ln.poly - Poly.const(len(pt[1]))
                    self._enum_n = getattr(self, "_enum_n", 0) + 1
                    sym = f"e#{self._enum_n}"
                    self.bound_symbol(sym, Poly.const(0), head_len)
                    hidx = TV(kind="pyint", note="enumerate-index", origin=frozenset(["loop-index"]), poly=Poly.sym(sym))
                    tail = tuple(ListV(items=(TV(kind="pyint", note="enumerate-index", origin=frozenset(["loop-index"]), poly=head_len + Poly.const(t)), x), kind="tuple")
                                 for t, x in enumerate(pt[1]))
                    out = replace(out, head=ListV(items=(hidx, pt[0]), kind="tuple"), tail=tail, tail_elem=out.elem)
                return out
            return self.unk("enumerate", node)
        if fn == "sorted" and not kwargs and isinstance(args[0], (SetV, ListV)) and args[0].items is not None and \
                all(isinstance(x, (Const, TV)) and not (isinstance(x, Const) and isinstance(x.v, bool)) and self.const_int(x) is not None for x in args[0].items):
            vs_ = [self.const_int(y) for y in args[0].items]
            return ListV(items=tuple(Const(x) for x in sorted(set(vs_) if isinstance(args[0], SetV) else vs_)), kind="list")
        if fn in ("reversed", "sorted"):
            lst = self.to_list(args[0], "list", node)
            if isinstance(lst, ListV):
                if lst.items is not None and fn == "reversed":
                    return replace(lst, items=tuple(reversed(lst.items)))
                order = lst.order
                e = lst.elem if lst.items is None else self.set_elem(SetV(items=lst.items))
                if order is not None:
                    order = (order[0], fn if order[1] == "same" else "mixed")
                if lst.over == "R":
                    self.clear("p", f"{fn}() over the rows", node)
                    if isinstance(e, TV):
                        e = e.but(p=False)
                return ListV(items=None, elem=e, kind="list", over=None, order=order)
            return self.unk(fn, node)
        if fn == "sum":
            return self.py_sum(args, node)
        if fn in ("max", "min") and len(args) == 2 and all(tv_of(a) is not None and tv_of(a).is_py and tv_of(a).poly is not None for a in args):
            ta, tb = tv_of(args[0]), tv_of(args[1])
            ca, cb = ta.poly.const_value(), tb.poly.const_value()
            if ca is not None and cb is not None:
                return Const(int(max(ca, cb) if fn == "max" else min(ca, cb)))
            return TV(kind="pyint", poly=self.derived_sym(fn, ta.poly, tb.poly), origin=ta.origin | tb.origin, size_of=None, z=ta.z and tb.z)
        if fn == "round" and len(args) == 1 and tv_of(args[0]) is not None and tv_of(args[0]).poly is not None and tv_of(args[0]).poly.const_value() is None:
            t = tv_of(args[0])
            return TV(kind="pyint", poly=self.derived_sym("round", t.poly), origin=t.origin)
        if fn in ("max", "min"):
            vals = args if len(args) > 1 else None
            if vals is None:
                lst = self.to_list(args[0], "list", node)
                if isinstance(lst, ListV):
                    vals = list(lst.items) if lst.items is not None else [lst.elem]
            tvs = [tv_of(v) for v in (vals or [])]
            if tvs and all(t is not None for t in tvs):
                out = tvs[0]
                for t in tvs[1:]:
                    out = self.elementwise(out, t, "max", node)
                if any(t.size_of == "C" for t in tvs):
                    out = out.but(z=False, size_of=None)
                return out.but(poly=None)
            return self.unk(fn, node)
        if fn == "abs":
            t = tv_of(args[0])
            return t.but(poly=None) if t is not None else self.unk("abs", node)
        if fn == "float" and args and isinstance(args[0], Const) and isinstance(args[0].v, str):
            return TV(kind="pyfloat", dtype="Py", note="float-literal:" + args[0].v)
        if fn in ("float", "int", "bool", "round"):
            t = tv_of(args[0]) if args else None
            if t is None:
                return TV(kind="py" + ("float" if fn == "float" else "int"), poly=Poly.const(0), deg=Z) if not args else self.unk(fn, node)
            kind = {"float": "pyfloat", "int": "pyint", "bool": "pybool", "round": "pyint"}[fn]
            return t.but(kind=kind, axes=(), alias=False, poly=t.poly if fn == "float" else (t.poly if t.kind == "pyint" else None))
        if fn == "isinstance":
            return self.isinstance_(args[0], args[1], node)
        if fn == "issubclass":
            a, b = args
            if isinstance(a, ClassV) and isinstance(b, ClassV):
                return Const(b.cls in a.cls.mro)
            if isinstance(a, ClassV) and isinstance(b, ExtV):
                return Const(b.name in a.cls.external_bases or b.name == "builtins.object")
            return TV(kind="pybool", dtype="Bool")
        if fn == "type":
            v = args[0]
            if isinstance(v, ObjV):
                return ClassV(v.cls)
            return ExtV("type-of-" + type(v).__name__)
        if fn == "hasattr":
            v, a = args
            if isinstance(v, ObjV) and isinstance(a, Const):
                return Const(a.v in v.fields or v.cls.lookup(a.v) is not None)
            return TV(kind="pybool", dtype="Bool", note="hasattr")
        if fn == "getattr":
            if isinstance(args[1], Const):
                return I.getattr(args[0], args[1].v, node, env)
            return self.unk("getattr with dynamic name", node)
        if fn == "setattr":
            self.ev("setattr", node, attr=args[1].v if isinstance(args[1], Const) else "?")
            return NONE
        if fn in ("any", "all"):
            lst = self.to_list(self.consume(args[0], node, full=False), "list", node)  # short-circuits: the rest of an iterator stays
            if isinstance(lst, ListV) and lst.items is not None:
                ts = [I.truth(x) for x in lst.items]
                if all(t is not None for t in ts):
                    return Const(any(ts) if fn == "any" else all(ts))
            e_ = lst.elem if isinstance(lst, ListV) and lst.items is None else None
            t_ = I.truth(e_) if e_ is not None else None
            if t_ is not None and ((fn == "all" and t_ is False) or (fn == "any" and t_ is True)):
                # every element has the same known truth value (a function returning None called for its effect): all() stops at the first falsy
                # element, any() at the first truthy one — only the FIRST element is ever evaluated
                self.ev("short_circuit", node, fn=fn, what=f"{fn}() over values that are always {'falsy' if fn == 'all' else 'truthy'}: evaluation stops after the first element")
                return Const(fn == "any")
            if isinstance(e_, TV) and e_.note.startswith("nonempty?") and "(&:" in e_.note:
                # element-wise overlap tests folded by all()/any(): all(S.isdisjoint(t) for t in ts) asks whether S meets NO t — the emptiness of the
                # intersection with the whole family; any(not S.isdisjoint(t) ...) asks the opposite
                neg_ = e_.note.endswith("|neg")
                if (fn == "all" and neg_) or (fn == "any" and not neg_):
                    return TV(kind="pybool", dtype="Bool", note=e_.note)
            return TV(kind="pybool", dtype="Bool", note=fn)
        if fn in ("str", "repr", "print", "id", "hash"):
            return Const("<str>") if fn in ("str", "repr") else (NONE if fn == "print" else TV(kind="pyint"))
        if fn == "slice" and 1 <= len(args) <= 3 and not kwargs:
            a = list(args)
            lo, hi, st_ = (NONE, a[0], NONE) if len(a) == 1 else (a[0], a[1], a[2] if len(a) == 3 else NONE)
            return ListV(items=(lo, hi, st_), kind="slice")
        if fn in ("iter",):
            if isinstance(args[0], ListV) and args[0].it is not None:
                return args[0]  # iter(iterator) is the iterator itself
            lst = self.to_list(args[0], "list", node)
            return self.fresh_iter(lst) if isinstance(lst, ListV) else lst
        if fn == "next" and 1 <= len(args) <= 2 and isinstance(args[0], ListV) and args[0].it is not None:
            return self.iter_next(args[0], args[1] if len(args) == 2 else None, node)
        if fn == "next" and 1 <= len(args) <= 2:
            lst = self.to_list(args[0], "list", node)
            if isinstance(lst, ListV) and lst.items is not None:
                if lst.items:
                    return lst.items[0]
                if len(args) == 2:
                    return args[1]
                I.may_raise(["StopIteration"], node, "next")
                return self.unk("next of an empty iterator", node)
            return self.unk("next of an abstract iterator", node)
        if fn.endswith("Error") or fn == "Exception":
            return ExtV("exception." + fn)
        if fn == "map" and len(args) >= 2 and not kwargs:
            if len(args) > 2:
                z = self.zip(list(args[1:]), node)
                if isinstance(z, ListV) and z.items is not None:
                    return ListV(items=tuple(I.call_value(args[0], list(t.items), {}, node, env) for t in z.items))
                if isinstance(z, ListV) and isinstance(z.elem, ListV) and z.elem.items is not None:
                    return ListV(items=None, elem=I.call_value(args[0], list(z.elem.items), {}, node, env), kind="list", over=z.over, order=z.order)
                return self.unk("map over these sequences", node)
            lst = self.to_list(args[1], "list", node)
            if isinstance(lst, ListV):
                if lst.items is not None:
                    return ListV(items=tuple(I.call_value(args[0], [x], {}, node, env) for x in lst.items))
                if lst.elem is None:
                    return ListV(items=())
                return replace(lst, elem=I.call_value(args[0], [lst.elem], {}, node, env), head=None, tail=(), tail_elem=None)
        if fn == "divmod":
            return ListV(items=(self.binary(args[0], ast.FloorDiv(), args[1], node, env), self.binary(args[0], ast.Mod(), args[1], node, env)), kind="tuple")
        return self.unk(f"builtin {fn}", node)

    def isinstance_(self, v, cls, node):
        if isinstance(cls, ListV) and cls.items is not None:
            rs = [self.isinstance_(v, c, node) for c in cls.items]
            if any(isinstance(r, Const) and r.v for r in rs):
                return TRUE
            if all(isinstance(r, Const) for r in rs):
                return FALSE
            return TV(kind="pybool", dtype="Bool")
        if isinstance(v, ObjV) and isinstance(cls, ClassV):
            return Const(cls.cls in v.cls.mro)
        if isinstance(v, (DictV, ListV, SetV, TV, Const)) and isinstance(cls, ClassV):
            return FALSE
        if isinstance(v, ObjV) and isinstance(cls, ExtV):
            return Const(cls.name in v.cls.external_bases or any(b.split(".")[-1] == cls.name.split(".")[-1] for b in v.cls.external_bases))
        if isinstance(cls, ExtV) and cls.name.endswith("Tensor"):
            if isinstance(v, TV):
                return Const(v.kind == "tensor")
            if isinstance(v, (ListV, SetV, DictV)):
                return FALSE
        if isinstance(cls, ExtV) and cls.name.split(".")[-1] in ("Sequence", "list", "tuple", "Sized", "Collection", "Iterable") and isinstance(v, ListV) and v.kind in ("list", "tuple") and v.it is None:
            nm = cls.name.split(".")[-1]
            return Const(nm in ("Sequence", "Sized", "Collection", "Iterable") or nm == v.kind)
        return TV(kind="pybool", dtype="Bool", note="isinstance")

    def length(self, v, node):
        if isinstance(v, ListV):
            if v.items is not None:
                return Const(len(v.items))
            if v.length is not None:
                return v.length
            if v.over in ("R", "C"):
                return TV(kind="pyint", poly=Poly.sym("m" if v.over == "R" else "n"), size_of=v.over)
            return TV(kind="pyint", note="len", origin=frozenset(["len"]))
        if isinstance(v, SetV):
            if v.items is not None and len(v.items) == 0:
                return Const(0)
            return TV(kind="pyint", note="len(set)", origin=frozenset(self.atoms_of(v)))
        if isinstance(v, DictV):
            if v.items is not None:
                return Const(len(v.items))
            return TV(kind="pyint", note="len(dict)")
        if isinstance(v, ObjV) and v.payload is not None:
            return self.length(v.payload, node)
        t = tv_of(v)
        if t is not None and t.axes:
            return self.size_tv(t, 0)
        if isinstance(v, Unk):
            return v
        return self.unk(f"len of {type(v).__name__}", node)

    def make_range(self, args, node):
        ts = [tv_of(a) for a in args]
        cs = [self.const_int(a) for a in args]
        if all(c is not None for c in cs) and len(cs) <= 3:
            r = range(*cs)
            if len(r) <= 12:
                return ListV(items=tuple(Const(i) for i in r))
        stop = ts[0] if len(ts) == 1 else (ts[1] if len(ts) >= 2 else None)
        start = ts[0] if len(ts) >= 2 else None
        step = ts[2] if len(ts) >= 3 else None
        if len(args) >= 3 and (step is None or step.poly is None):
            return self.unk("range with a step that is not a closed-form integer", node)
        full_rows = stop is not None and stop.size_of == "R" and (start is None or self.const_int(args[0]) == 0) and len(args) < 3
        self._range_n = getattr(self, "_range_n", 0) + 1
        ivar = f"i#{self._range_n}"
        self.ev("range", node, stack=[f.qualname for f in self.interp.call_stack], var=ivar, stop_poly=stop.poly if stop is not None else None, start_poly=start.poly if start is not None else None, nargs=len(args),
                step_poly=step.poly if step is not None else None)
        elem = TV(kind="pyint", idx_of="R" if full_rows else None, note="range-index", poly=Poly.sym(ivar) if not full_rows else None,
                  p=True, origin=(stop.origin if stop is not None else frozenset()) | {"loop-index"})
        return ListV(items=None, elem=elem, kind="list", over="R" if full_rows else None,
                     order=(("range", repr(stop.poly) if stop is not None and stop.poly is not None else "?"), "same"),
                     length=stop if len(args) == 1 else (stop if len(args) == 2 and self.const_int(args[0]) == 0 else None))

    def to_list(self, v, kind, node):
        if isinstance(v, ListV) and v.it is not None:
            v = self.consume(v, node)
        if isinstance(v, ListV) and v.kind == "counter":
            return self.unk("iteration over a Counter", node)
        if isinstance(v, ListV):
            return replace(v, kind=kind)
        if isinstance(v, SetV):
            ints = [self.const_int(x) if not (isinstance(x, Const) and isinstance(x.v, bool)) and isinstance(x, (Const, TV)) else None for x in (v.items or ())]
            if v.items is not None and all(i is not None for i in ints) and len(set(ints)) > 1:
                # a set of several integers walked in iteration order: hash-table order, not numeric order (list({0, 5, 10, 12}) == [0, 10, 12, 5])
                self.ev("int_set_order", node, items=sorted(set(ints)))
                return ListV(items=None, elem=TV(kind="pyint", origin=frozenset(["set-order"]), note="set-order"), kind=kind, order=(("set-order",), "unordered"))
            if v.items is not None:
                return ListV(items=v.items, kind=kind, order=(tuple(sorted(v.atoms)), "unordered") if v.atoms else None)
            return ListV(items=None, elem=v.elem, kind=kind, order=(tuple(sorted(v.atoms)), "unordered"))
        if isinstance(v, DictV):
            k = self.dict_keys(v)
            return self.to_list(k, kind, node) if k is not None else ListV(items=None, elem=Unk("keys"), kind=kind)
        if isinstance(v, ObjV) and v.payload is not None:
            return self.to_list(v.payload, kind, node)
        t = tv_of(v)
        if t is not None and t.axes:
            seq = self.iterate(t, node, None)
            return ListV(items=None, elem=seq[1], kind=kind, over=t.axes[0])
        if isinstance(v, Unk):
            return v
        return self.unk(f"{kind}() of {type(v).__name__}", node)

    def zip(self, args, node):
        if len(args) == 1 and isinstance(args[0], tuple) and args[0] and args[0][0] == "*":
            # zip(*rows): the transposition of a sequence of equally long sequences
            outer = self.to_list(args[0][1], "list", node)
            inner = outer.elem if isinstance(outer, ListV) and outer.items is None else None
            if isinstance(inner, ListV):
                self.ev("zip_transpose", node, outer=repr(outer.order), inner=repr(inner.order))
                if inner.items is not None:
                    return ListV(items=tuple(ListV(items=None, elem=x, kind="tuple", order=outer.order, over=outer.over) for x in inner.items))
                return ListV(items=None, elem=ListV(items=None, elem=inner.elem, kind="tuple", order=outer.order, over=outer.over), kind="list", order=inner.order, over=inner.over)
            return self.unk("zip(*sequence) of this sequence", node)
        lists = [self.to_list(a, "list", node) for a in args]
        if any(not isinstance(l, ListV) for l in lists):
            return self.unk("zip of non-sequences", node)
        consts = [l.items is None and l.order is not None and l.order[1] == "const" for l in lists]  # itertools.repeat(x): as long as needed
        if any(consts) and not all(consts):
            real = [l for l, c in zip(lists, consts) if not c]
            if all(l.items is not None for l in real):
                n = min(len(l.items) for l in real)
                return ListV(items=tuple(ListV(items=tuple((l.elem if c else l.items[i]) for l, c in zip(lists, consts)), kind="tuple") for i in range(n)))
            if all(l.items is None for l in real) and len({l.order for l in real}) == 1:
                return ListV(items=None, elem=ListV(items=tuple(l.elem for l in lists), kind="tuple"), kind="list", over=real[0].over, order=real[0].order)
        if all(l.items is not None for l in lists):
            n = min(len(l.items) for l in lists)
            return ListV(items=tuple(ListV(items=tuple(l.items[i] for l in lists), kind="tuple") for i in range(n)))
        elems = []
        for l in lists:
            elems.append(l.elem if l.items is None else self.set_elem(SetV(items=l.items)))
        orders = [l.order for l in lists]
        self.ev("zip", node, orders=[repr(o) for o in orders])
        same = all(o is not None and o == orders[0] for o in orders)
        over = lists[0].over if all(l.over == lists[0].over for l in lists) else None
        order = orders[0] if same else (("zip",) + tuple(repr(o) for o in orders), "paired")
        return ListV(items=None, elem=ListV(items=tuple(elems), kind="tuple"), kind="list", over=over, order=order)

    def py_sum(self, args, node):
        lst = self.to_list(args[0], "list", node)
        if not isinstance(lst, ListV):
            return self.unk("sum()", node)
        if lst.items is not None:
            out = tv_of(args[1]) if len(args) > 1 else None
            for x in lst.items:
                t = tv_of(x)
                if t is None:
                    return self.unk("sum of non-numeric", node)
                out = t if out is None else self.elementwise(out, t, "add", node)
            return out if out is not None else Const(0)
        e = tv_of(lst.elem) if lst.elem is not None else None
        if e is None:
            return self.unk("sum of unknown elements", node)
        # symmetric reduction over the enumerated axis
        return e.but(poly=None, size_of=None, idx_of=None, kind="pyint" if e.kind == "pybool" else e.kind, note="numel-total" if e.note in ("numel", "nelement") else e.note)

    def make_dict(self, args, kwargs, node, ordered):
        if not args:
            return DictV(items=tuple((Const(k), v) for k, v in kwargs.items()), ordered=ordered, born=self.interp.join_depth)
        src = args[0]
        if isinstance(src, DictV):
            return replace(src, ordered=ordered or src.ordered)
        if isinstance(src, ObjV) and src.payload is not None:
            return src.payload
        lst = self.to_list(src, "list", node)
        if isinstance(lst, ListV):
            if lst.items is not None:
                items = []
                for it in lst.items:
                    if isinstance(it, ListV) and it.items is not None and len(it.items) == 2:
                        items.append((it.items[0], it.items[1]))
                    else:
                        return self.unk("dict() of non-pairs", node)
                return DictV(items=tuple(items), ordered=ordered)
            e = lst.elem
            if isinstance(e, ListV) and e.items is not None and len(e.items) == 2:
                return DictV(items=None, keys=ListV(items=None, elem=e.items[0], order=lst.order, over=lst.over), val=e.items[1], ordered=ordered)
        return self.unk("dict() of unknown", node)

    def dict_fromkeys(self, args, node):
        lst = self.to_list(args[0], "list", node)
        val = args[1] if len(args) > 1 else NONE
        if isinstance(lst, ListV):
            if lst.items is not None:
                return DictV(items=tuple((k, val) for k in lst.items), ordered=True)
            return DictV(items=None, keys=lst, val=val, ordered=True)
        return self.unk("fromkeys", node)

    def pairwise_abstract(self, lst, node):
        return None

    def flatten_once(self, v, node):
        """Concatenation of the members of a sequence of sequences."""
        outer = self.to_list(v, "list", node)
        if not isinstance(outer, ListV):
            return self.unk("flatten of a non-sequence", node)
        if outer.items is not None:
            out = ListV(items=())
            for it in outer.items:
                part = self.to_list(it, "list", node)
                if not isinstance(part, ListV):
                    return self.unk("flatten of a non-sequence member", node)
                out = self.concat_lists(out, part, node)
            return out
        inner = outer.elem
        if inner is None:
            return ListV(items=())
        part = self.to_list(inner, "list", node)
        if not isinstance(part, ListV):
            return self.unk("flatten of a non-sequence member", node)
        if part.items is not None:
            part = ListV(items=None, elem=self.set_elem(SetV(items=part.items)), kind="list", order=part.order)
        return replace(part, kind="list", head=None, tail=())

    def accumulate_concrete(self, lst, node, initial):
        out, acc = ([Const(0)] if initial else []), (Const(0) if initial else None)
        for x in lst.items:
            acc = x if acc is None else self.binary(acc, ast.Add(), x, node, None)
            out.append(acc)
        return ListV(items=tuple(out), kind="list", order=lst.order)

    def accumulate(self, v, node, initial=False):
        lst = self.to_list(v, "list", node)
        if isinstance(lst, ListV) and lst.items is not None and len(lst.items) <= 8:
            return self.accumulate_concrete(lst, node, initial)
        if isinstance(lst, ListV):
            e = lst.elem if lst.items is None else self.set_elem(SetV(items=lst.items))
            t = tv_of(e) if e is not None else None
            ne = t.but(note="prefix-sum", poly=None) if t is not None else e
            return ListV(items=None, elem=ne, kind="list", over=lst.over, order=lst.order)
        return self.unk("accumulate", node)

    # =========================================================================== methods
    def call_method(self, recv, name, args, kwargs, node, env):
        I = self.interp
        if isinstance(recv, SuperV):
            return self.super_call(recv, name, args, kwargs, node, env)
        if isinstance(recv, ClassV) and name == "mro":
            ext = [ExtV(b) for b in recv.cls.external_bases if not b.startswith("typing.") and not b.endswith("Generic")]
            return ListV(items=tuple(ClassV(c) for c in recv.cls.mro) + tuple(ext) + (ExtV("builtins.object"),), kind="list")
        if isinstance(recv, ObjV) and getattr(recv, "tuple_fields", None) and name in ("_replace", "_asdict"):
            # typing.NamedTuple instances: a copy with some fields replaced / the fields as a dictionary, in declaration order
            if name == "_asdict" and not args and not kwargs:
                return DictV(items=tuple((Const(f_), recv.fields.get(f_, Unk(f"field {f_}"))) for f_ in recv.tuple_fields), ordered=True)
            if name == "_replace" and not args and set(kwargs) <= set(recv.tuple_fields):
                o = ObjV(recv.cls)
                o.fields.update(recv.fields)
                o.fields.update(kwargs)
                o.tuple_fields = list(recv.tuple_fields)
                return o
        if isinstance(recv, ObjV):
            if recv.payload is not None:
                return self.dict_method(recv.payload, name, args, kwargs, node, env, owner=recv)
            return self.module_method(recv, name, args, kwargs, node, env)
        if isinstance(recv, ListV):
            return self.list_method(recv, name, args, kwargs, node, env)
        if isinstance(recv, DictV):
            return self.dict_method(recv, name, args, kwargs, node, env)
        if isinstance(recv, SetV):
            return self.set_method(recv, name, args, kwargs, node, env)
        if isinstance(recv, Const) and isinstance(recv.v, str):
            return Const("<str>")
        if isinstance(recv, MetaV):
            return recv
        t = tv_of(recv)
        if t is not None and name in ("add_", "sub_") and args and env is not None and isinstance(node, ast.Call) and isinstance(node.func, ast.Attribute):
            # X.diagonal().add_(v): in-place update of X through its diagonal view == X + v·I
            rv = node.func.value
            if isinstance(rv, ast.Call) and isinstance(rv.func, ast.Attribute) and rv.func.attr == "diagonal" and not rv.args and not rv.keywords \
                    and isinstance(rv.func.value, ast.Name):
                base = self.interp.eval(rv.func.value, env)
                bt = tv_of(base)
                if bt is not None and len(bt.axes) == 2:
                    eye = self.call_lib("numpy." if bt.kind == "ndarray" else "torch.", "eye", [self.size_tv(bt, 0)], {}, rv, env)
                    scaled = self.binary(args[0], ast.Mult(), eye, node, env)
                    new = self.binary(base, ast.Add() if name == "add_" else ast.Sub(), scaled, node, env)
                    if isinstance(new, TV):
                        new = new.but(dtype=bt.dtype, alias=bt.alias)
                    self.interp.rebind(rv.func.value, new, env, node)
                    return t
        if t is not None:
            r = self.tensor_method(t, name, args, kwargs, node, env)
            if name.endswith("_") and not name.startswith("_") and isinstance(r, TV) and isinstance(node, ast.Call) and isinstance(node.func, ast.Attribute) \
                    and isinstance(node.func.value, ast.Name) and env is not None:
                self.interp.rebind(node.func.value, r, env, node)  # in-place method: the receiver now holds the updated value
            return r
        if isinstance(recv, Unk):
            return recv
        return self.unk(f"method {name} of {type(recv).__name__}", node)

    def super_call(self, recv: SuperV, name, args, kwargs, node, env):
        obj = recv.obj
        cls = obj.cls if isinstance(obj, ObjV) else None
        ext = cls.external_bases if cls is not None else []
        if name == "__init__":
            if any(b.startswith("builtins.dict") or b == "builtins.dict" for b in ext) and isinstance(obj, ObjV):
                src = args[0] if args else DictV(items=())
                if isinstance(src, ObjV) and src.payload is not None:
                    src = src.payload
                obj.payload = src if isinstance(src, DictV) else DictV(items=None, keys=None, val=None)
            return NONE
        if name == "__call__" and isinstance(obj, ObjV):
            r = obj.cls.lookup("forward")
            if r is not None:
                return self.interp.call_value(BoundV(FuncV(r[1], None), obj), args, kwargs, node, env)
        return self.unk(f"super().{name}", node)

    def module_method(self, obj, name, args, kwargs, node, env):
        if name in ("register_buffer", "train", "eval", "to", "requires_grad_"):
            return obj
        return self.unk(f"method {name} of {obj.cls.name}", node)

    def ext_init(self, obj, cls, args, kwargs, node, env):
        if any(b.split(".")[-1] == "NamedTuple" for b in cls.external_bases) or any("dataclass" in ast.unparse(d) for d in cls.node.decorator_list):
            # typing.NamedTuple / @dataclass: fields are the annotated class attributes, in order; defaults are class-level values
            fields = [(st.target.id, st.value) for st in cls.node.body if isinstance(st, ast.AnnAssign) and isinstance(st.target, ast.Name)]
            vals = {}
            for (fname, default), a in zip(fields, args):
                vals[fname] = a
            for k_, v_ in kwargs.items():
                if k_ in dict(fields):
                    vals[k_] = v_
            for fname, default in fields:
                if fname not in vals:
                    if default is None:
                        self.unk(f"missing field {fname} of {cls.name}", node)
                        continue
                    vals[fname] = self.interp.eval(default, Env(cls.module, None, None))
            obj.fields.update(vals)
            obj.tuple_fields = [f for f, _ in fields]
            return None
        if any(b.endswith("dict") for b in cls.external_bases):
            src = args[0] if args else DictV(items=())
            obj.payload = src.payload if isinstance(src, ObjV) else (src if isinstance(src, DictV) else DictV())
        return None

    def call_object(self, f, args, kwargs, node, env):
        # nn.Module instance without a repository __call__: forward
        r = f.cls.lookup("forward")
        if r is not None:
            return self.interp.call_value(BoundV(FuncV(r[1], None), f), args, kwargs, node, env)
        return self.unk(f"call of {f.cls.name} instance", node)

    def call_other(self, f, args, kwargs, node, env):
        t = tv_of(f)
        if isinstance(f, TV) and f.note == "user-callable":
            # user supplied callable (GradDrop.f): assumed deterministic and element-wise
            a = tv_of(args[0]) if args else None
            if a is not None:
                self.ev("user_callable", node)
                return a.but(alias=False, poly=None)
        return self.unk(f"call of {type(f).__name__}", node)

    def list_method(self, lst: ListV, name, args, kwargs, node, env):
        I = self.interp
        if name == "append":
            if lst.items is not None and (I.join_depth == 0 or (lst.born is not None and lst.born == tuple(I.open_lids))):
                # (a list created by a display in this very iteration of the enclosing summarised loops grows element by element)
                new = replace(lst, items=lst.items + (args[0],))
            else:
                e = lst.elem if lst.items is None else self.set_elem(SetV(items=lst.items))
                order = lst.order if lst.items is None else None
                if lst.items is not None and len(lst.items) == 0 or lst.items is None and lst.elem is None:
                    order = self.current_loop_order(env)
                elif lst.order is not None:
                    order = lst.order
                new = ListV(items=None, elem=args[0] if e is None else join(e, args[0]), kind=lst.kind, order=order, over=lst.over)
                if lst.items is None and lst.elem is not None and I.join_depth == 0:
                    # appended after the summarised part, outside any abstract loop: remember the exact tail
                    pt = lst.parts()
                    ln = tv_of(lst.length) if lst.length is not None else None
                    new = replace(new, head=pt[0] if pt else lst.elem, tail=(pt[1] if pt else ()) + (args[0],), tail_elem=new.elem,
                                  length=ln.but(poly=ln.poly + Poly.const(1), size_of=None) if ln is not None and ln.poly is not None else None)
            I.rebind(node.func.value, new, env, node)
            return NONE
        if name in ("extend",):
            new = self.concat_lists(lst, self.to_list(args[0], "list", node), node)
            I.rebind(node.func.value, new, env, node)
            return NONE
        if name in ("popleft", "pop"):
            e = lst.elem if lst.items is None else self.set_elem(SetV(items=lst.items))
            return e if e is not None else self.unk("pop from empty", node)
        if name == "remove" and len(args) == 1:
            # removes one (the first) occurrence: the remaining elements keep their relative order
            if lst.items is not None and I.join_depth == 0:
                for i_, x in enumerate(lst.items):
                    if x == args[0] or (isinstance(x, Const) and isinstance(args[0], Const) and x.v == args[0].v):
                        I.rebind(node.func.value, replace(lst, items=lst.items[:i_] + lst.items[i_ + 1:]), env, node)
                        return NONE
            e = lst.elem if lst.items is None else self.set_elem(SetV(items=lst.items))
            order = lst.order
            if order is not None:
                order = (order[0], order[1] + "-1")
            self.ev("list_remove", node, removed=repr(args[0])[:60])
            I.rebind(node.func.value, ListV(items=None, elem=e, kind=lst.kind, order=order, over=None), env, node)
            return NONE
        if name in ("index", "count"):
            return TV(kind="pyint")
        if name in ("copy",):
            return lst
        if name == "numel" and lst.kind == "tuple":
            # torch.Size.numel()
            out = None
            for x in (lst.items or ()):
                t = tv_of(x)
                out = t if out is None else self.elementwise(out, t, "mul", node)
            return out if out is not None else Const(1)
        if name in ("sort", "reverse"):
            self.ev("list_reorder", node, how=name)
            order = lst.order
            if order is not None:
                order = (order[0], "sorted" if name == "sort" else ("reversed" if order[1] == "same" else "mixed"))
            e = lst.elem if lst.items is None else self.set_elem(SetV(items=lst.items))
            I.rebind(node.func.value, ListV(items=None, elem=e, kind=lst.kind, order=order), env, node)
            return NONE
        return self.unk(f"list.{name}", node)

    def dict_method(self, d: DictV, name, args, kwargs, node, env, owner=None):
        I = self.interp
        if name == "__getitem__" and len(args) == 1:
            return self.subscript(owner if owner is not None else d, ("index", args[0]), node, env)
        if name == "__contains__" and len(args) == 1:
            return self.contains(owner if owner is not None else d, args[0], False, node)
        if name == "keys":
            k = self.dict_keys(d)
            if isinstance(k, ListV):
                return replace(k, kind="keys")  # a keys view: compares with sets as a set
            return k if k is not None else ListV(items=None, elem=Unk("keys"), kind="keys")
        if name == "values":
            if d.items is not None:
                return ListV(items=tuple(v for _, v in d.items))
            k = d.keys
            return ListV(items=None, elem=d.val, order=k.order if isinstance(k, ListV) else (
                (tuple(sorted(k.atoms)), "unordered") if isinstance(k, SetV) else None), over=getattr(k, "over", None))
        if name == "items":
            if d.items is not None:
                return ListV(items=tuple(ListV(items=(k, v), kind="tuple") for k, v in d.items))
            k = d.keys
            ke = k.elem if isinstance(k, (ListV, SetV)) and k.items is None else (self.set_elem(SetV(items=k.items)) if isinstance(k, (ListV, SetV)) else k)
            return ListV(items=None, elem=ListV(items=(ke, d.val), kind="tuple"),
                         order=k.order if isinstance(k, ListV) else ((tuple(sorted(k.atoms)), "unordered") if isinstance(k, SetV) else None))
        if name == "get":
            v = self.dict_get(d, args[0], node)
            dflt = args[1] if len(args) > 1 else kwargs.get("default", NONE)
            if d.items is not None and any(k == args[0] for k, _ in d.items):
                return v
            if isinstance(v, Unk):
                return dflt
            self.ev("dict_get_optional", node)
            return ("optional", v, dflt) if False else self.optional(v, dflt)
        if name == "check_keys_are" and owner is not None:
            r = owner.cls.lookup(name)
        if name in ("copy",):
            return d
        if name == "update" and len(args) == 1 and not kwargs and not (isinstance(args[0], tuple)):
            # d.update(other) is d |= other
            self.ev("dict_mutation", node, how=name)
            r = self.dict_union(owner if owner is not None else d, args[0], node)
            if owner is not None:
                if isinstance(r, DictV):
                    owner.payload = r
                    self.ev("dict_ior", node)
                    return NONE
                return self.unk("dict.update on this object", node)
            if isinstance(r, DictV):
                I.rebind(node.func.value, r, env, node)
                return NONE
            return self.unk("dict.update with this argument", node)
        if name == "clear" and owner is None:
            self.ev("dict_mutation", node, how=name)
            I.rebind(node.func.value, DictV(items=()), env, node)
            return NONE
        if name == "setdefault" and owner is None and 1 <= len(args) <= 2 and not kwargs:
            # d.setdefault(k, v): d[k] if k is there, else v after d[k] = v
            self.ev("dict_mutation", node, how=name)
            dflt = args[1] if len(args) == 2 else NONE
            if d.items is not None and any(k_ is args[0] or k_ == args[0] for k_, _ in d.items) and I.join_depth == 0:
                return next(v_ for k_, v_ in d.items if k_ is args[0] or k_ == args[0])
            cur = self.dict_val(d) if d.items is None or d.items else None
            new_d = self.store_subscript(d, ("index", args[0]), dflt if cur is None else join(cur, dflt), node, env, False)
            if isinstance(new_d, DictV):
                I.rebind(node.func.value, new_d, env, node)
                return dflt if cur is None else join(cur, dflt)
            return self.unk("dict.setdefault on this dictionary", node)
        if name in ("update", "pop", "clear", "setdefault", "popitem"):
            self.ev("dict_mutation", node, how=name)
            return self.unk(f"dict.{name} (mutation not modelled)", node)
        return self.unk(f"dict.{name}", node)

    def optional(self, v, dflt):
        if isinstance(dflt, Const) and dflt.v is None and isinstance(v, TV):
            return v.but(note="optional")
        return join(v, dflt)

    def set_method(self, s: SetV, name, args, kwargs, node, env):
        I = self.interp
        if name == "add":
            if s.items is not None and I.join_depth == 0:
                new = SetV(items=s.items + (args[0],))
            else:
                e = self.set_elem(s)
                new = SetV(items=None, elem=args[0] if e is None else join(e, args[0]), atoms=s.atoms)
            I.rebind(node.func.value, new, env, node)
            return NONE
        if name in ("issubset", "issuperset", "isdisjoint"):
            o = self.to_set(args[0], node)
            if isinstance(o, SetV) and s.atoms and o.atoms:
                if name == "issubset" and s.atoms <= o.atoms:
                    return TRUE
                if name == "issuperset" and s.atoms >= o.atoms:
                    return TRUE
            if isinstance(o, SetV) and s.items is not None and len(s.items) == 0 and name == "issubset":
                return TRUE
            return TV(kind="pybool", dtype="Bool", note=name)
        if name in ("union", "update"):
            # s.union(a, b, *cs): the union with every argument; a starred sequence of collections contributes its concatenation
            acc = s
            for a in args:
                o = self.to_set(self.flatten_once(a[1], node), node) if isinstance(a, tuple) and a and a[0] == "*" else self.to_set(a, node)
                if not isinstance(o, SetV):
                    return self.unk(f"set.{name} of this argument", node)
                acc = self.set_binop(acc, ast.BitOr(), o, node) if not (isinstance(acc, SetV) and acc.items is not None and not acc.items) else o
            if name == "update":
                I.rebind(node.func.value, acc, env, node)
                return NONE
            return acc
        if name in ("intersection", "difference"):
            o = self.to_set(args[0], node) if args else SetV(items=())
            op = {"union": ast.BitOr(), "intersection": ast.BitAnd(), "difference": ast.Sub()}[name]
            return self.set_binop(s, op, o, node)
        if name == "copy":
            return s
        return self.unk(f"set.{name}", node)
