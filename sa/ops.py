"""Operator table: transfer functions for builtins, torch, numpy, qpsolvers and cvxpy (DESIGN.md 3.6).

This is the trusted base of the type-system checks.  An operator that is not in the table yields an
``Unk`` value and an ``unknown`` event naming it; only if that reaches an obligation is the run an
ANALYSIS-ERROR.
"""

from __future__ import annotations

import ast
from dataclasses import replace
from fractions import Fraction

from .poly import Poly
from .report import norm_text
from .values import (
    FALSE, NONE, TRUE, Z, AVal, BoundV, ClassV, Const, DictV, Env, ExtMethodV, ExtV, FuncV, LambdaV, ListV, MetaV, ModV,
    ObjV, OptV, PartialV, SetV, SuperV, TV, Unk, VmapV, const_to_tv, join, join_all, join_deg,
)

F0 = Fraction(0)
HALF = Fraction(1, 2)


def tv_of(v: AVal):
    """Coerces constants to TV; returns None for non-numeric values."""
    if isinstance(v, TV):
        return v
    if isinstance(v, Const):
        t = const_to_tv(v)
        return t if isinstance(t, TV) else None
    return None


def deg_add(a, b):  # degree of a product
    if a == Z or b == Z:
        return Z
    if a is None or b is None:
        return None
    return a + b


def deg_sub(a, b):  # degree of a quotient a / b
    if a == Z:
        return Z
    if a is None or b is None or b == Z:
        return None
    return a - b


def deg_sum(a, b):  # degree of a sum
    return join_deg(a, b)


def deg_scale(a, k):
    if a == Z:
        return Z
    if a is None:
        return None
    return a * k


DTYPE_RANK = {"Bool": 0, "Int": 1, "Py": 2, "Default": 3, "Cfg": 4, "M": 5, "F64": 6, "Mixed": 7}


class Ops:
    """Generic Python semantics + torch/numpy/cvxpy axioms."""

    def __init__(self):
        self.interp = None
        self.cvx_flags: list[TV] = []  # flags of all cvxpy expressions handed to Problems (per run)
        self.sym_defs: dict = {}  # derived integer symbols: name -> ("ceil", poly) | ("floordiv", a, b) | ("mod", a, b)
        self._sym_n = 0

    def derived_sym(self, kind, *polys):
        for k, v in self.sym_defs.items():
            if v == (kind,) + polys:
                return Poly.sym(k)
        self._sym_n += 1
        name = f"{kind}#{self._sym_n}"
        self.sym_defs[name] = (kind,) + polys
        return Poly.sym(name)

    # convenience -------------------------------------------------------------------------------
    def ev(self, kind, node, **kw):
        self.interp.event(kind, node, **kw)

    def unk(self, why, node):
        return self.interp.unknown(why, node)

    def bound_symbol(self, sym: str, lo, hi_exclusive) -> None:
        """Registers lo <= sym < hi for an integer index symbol (polynomial bounds)."""
        if not hasattr(self, "sym_bounds"):
            self.sym_bounds = {}
        self.sym_bounds[sym] = (lo, hi_exclusive)

    def sign_of(self, d):
        """'neg' / 'pos' / 'zero' / None for an integer polynomial, using the registered bounds of index symbols: decides
        differences of the form  ±(s − hi) + c  and  ±(s − lo) + c."""
        c = d.const_value()
        if c is not None:
            return "zero" if c == 0 else ("pos" if c > 0 else "neg")
        for sym, (lo, hi) in getattr(self, "sym_bounds", {}).items():
            if sym not in d.symbols():
                continue
            S = Poly.sym(sym)
            for sign in (1, -1):
                dd = d if sign == 1 else -d
                r = (dd - S + hi).const_value()  # dd = s - hi + r  with  s - hi <= -1
                if r is not None and r <= 0:
                    return "neg" if sign == 1 else "pos"
                r = (dd - S + lo).const_value()  # dd = s - lo + r  with  s - lo >= 0
                if r is not None and r > 0:
                    return "pos" if sign == 1 else "neg"
        return None

    def tag(self, tv, kind: str, node, **data):
        """Emits a structural-op event with a fresh id and threads the id through the result's origin."""
        # one id per (operator site, call path): the fixpoint rounds of an abstract loop re-execute a site without minting new ids
        if not hasattr(self, "_tag_ids"):
            self._tag_ids = {}
        key = (kind, getattr(node, "lineno", 0), getattr(node, "col_offset", 0), getattr(node, "end_col_offset", 0),
               tuple(getattr(self.interp, "site_stack", ())), tuple(f.qualname for f in getattr(self.interp, "call_stack", ())), getattr(self, "_tag_variant", None))
        if key not in self._tag_ids:
            self._tag_n = getattr(self, "_tag_n", 0) + 1
            self._tag_ids[key] = self._tag_n
        tid = f"{kind}#{self._tag_ids[key]}"
        self.ev("sop", node, sop=kind, id=tid, **data)
        if isinstance(tv, TV):
            return tv.but(origin=tv.origin | {tid})
        return tv

    @staticmethod
    def poly_of(v):
        t = tv_of(v) if v is not None else None
        return t.poly if t is not None else None

    def clear(self, flag: str, why: str, node):
        self.ev("clear", node, flag=flag, why=why)

    # ============================================================================== dtype helpers
    @staticmethod
    def promote(a: str, b: str) -> str:
        if a == b:
            return a
        if a == "Py" or a in ("Bool", "Int"):
            return b if DTYPE_RANK.get(b, 7) >= DTYPE_RANK.get(a, 7) else a
        if b == "Py" or b in ("Bool", "Int"):
            return a if DTYPE_RANK.get(a, 7) >= DTYPE_RANK.get(b, 7) else b
        if {a, b} == {"M", "Cfg"}:
            return "M"
        return "Mixed"

    def dtype_from_kwargs(self, kwargs, default: str, node=None) -> str:
        d = kwargs.get("dtype")
        if d is None or d == NONE:
            return default
        if isinstance(d, MetaV) and d.what == "dtype":
            return d.tag
        if isinstance(d, ExtV):
            return self.ext_dtype(d.name)
        return "Mixed"

    @staticmethod
    def ext_dtype(name: str) -> str:
        last = name.split(".")[-1]
        if name.startswith("numpy.") and last == "float64":
            return "F64"
        if last in ("int64", "int32", "long", "int"):
            return "Int"
        if last == "bool":
            return "Bool"
        return "Fixed:" + last

    # ============================================================================== broadcasting
    def broadcast(self, a: TV, b: TV, node):
        """Returns (axes, mismatch flags {p,q}) for an element-wise combination."""
        la, lb = list(a.axes), list(b.axes)
        n = max(len(la), len(lb))
        la = ["-"] * (n - len(la)) + la
        lb = ["-"] * (n - len(lb)) + lb
        axes = []
        bad_p = bad_c = err = False
        for x, y in zip(la, lb):
            if x == y:
                axes.append(x)
            elif x in ("-", "1"):
                axes.append(y)
            elif y in ("-", "1"):
                axes.append(x)
            else:
                pair = {x, y}
                if pair == {"K", "U"}:
                    axes.append("U")
                elif pair in ({"R", "K"}, {"R", "U"}):
                    bad_p = True
                    axes.append("K")
                elif pair in ({"C", "K"}, {"C", "U"}):
                    bad_c = True
                    axes.append("K")
                else:
                    err = True
                    axes.append("K")
        axes = [x for x in axes if x != "-"]
        return tuple(axes), bad_p, bad_c, err

    def note_value_use(self, t, node):
        """First use of the *values* of the input matrix on a path (for the validation-order rule)."""
        if isinstance(t, TV) and "matrix" in t.origin and not t.is_py:
            tr = self.interp.trace
            if not getattr(tr, "value_used", False):
                tr.value_used = True
                self.ev("first_value_use", node)

    def elementwise(self, a: TV, b: TV, opname: str, node) -> TV:
        """Binary element-wise arithmetic/comparison with broadcasting."""
        if opname != "cmp":
            self.note_value_use(a, node)
            self.note_value_use(b, node)
            if not (a.is_py and b.is_py):
                self.ev("op", node, op=opname, left=a.short(), right=b.short(), left_origin=sorted(a.origin), right_origin=sorted(b.origin),
                        left_poly=a.poly, right_poly=b.poly)
        axes, bad_p, bad_c, err = self.broadcast(a, b, node)
        if err:
            self.ev("type_error", node, why=f"element-wise {opname} of axes {a.axes} and {b.axes}")
        p = a.p and b.p and not bad_p and not err
        q = a.q and b.q and not bad_c and not err
        s = a.s and b.s and not bad_c and not err
        z = a.z and b.z and not bad_c and not err
        if opname != "cmp" and p and not (a.is_py and b.is_py):
            for x_ in (a, b):
                if x_.is_py and x_.gen and "loop-index" in x_.origin:
                    # `(i + 1) * f(row_i)`: the position of a row enters the value
                    p = False
                    self.clear("p", f"the position a loop over the rows is at is used as a number ({opname})", node)
                    break
        if bad_p:
            self.clear("p", f"row-indexed axis combined element-wise with a position-indexed axis ({opname})", node)
        if bad_c:
            self.clear("q", f"column axis combined element-wise with a position-indexed axis ({opname})", node)
        a_c, b_c = "C" in a.axes, "C" in b.axes
        span = False
        deg = None
        poly = None
        if opname in ("add", "sub"):
            deg = deg_sum(a.deg, b.deg)
            if deg is None and a.deg is not None and b.deg is not None:
                self.ev("deg_mismatch", node, left=str(a.deg), right=str(b.deg), op=opname)
            if a_c != b_c:
                other = b if a_c else a
                if other.deg != Z:
                    if q:
                        self.clear("q", "a value without column axis is added across the column axis", node)
                    q = False
                    z = False
            if a_c and b_c:
                span = a.span and b.span
            elif a_c:
                span = a.span and b.deg == Z
            elif b_c:
                span = b.span and a.deg == Z
        elif opname == "mul":
            deg = deg_add(a.deg, b.deg)
            self.note_degree(deg, a, b, node)
            if a_c and b_c:
                if q:
                    self.clear("q", "element-wise product of two column-indexed values", node)
                q = False
            span = (a.span and not b_c) or (b.span and not a_c)
        elif opname in ("div", "floordiv", "mod"):
            deg = deg_sub(a.deg, b.deg) if opname == "div" else (a.deg if a.deg == b.deg else None)
            if b_c:
                if q:
                    self.clear("q", "division by a column-indexed value", node)
                q = False
                z = False
            span = a.span and not b_c
        elif opname == "pow":
            k = b.poly.const_value() if b.poly is not None else None
            deg = deg_scale(a.deg, k) if k is not None else (a.deg if a.deg in (F0,) and b.deg in (F0, Z) else None)
            self.note_degree(deg, a, b, node)
            if a_c:
                if q:
                    self.clear("q", "element-wise power of a column-indexed value", node)
                q = False
                if k is not None and k <= 0:
                    z = False
        elif opname in ("max", "min"):
            deg = deg_sum(a.deg, b.deg)
            if a_c or b_c:
                q = False
        else:
            deg = None
        if a.poly is not None and b.poly is not None:
            try:
                if opname == "add":
                    poly = a.poly + b.poly
                elif opname == "sub":
                    poly = a.poly - b.poly
                elif opname == "mul":
                    poly = a.poly * b.poly
                elif opname == "div":
                    inv = b.poly.inverse()
                    poly = a.poly * inv if inv is not None else None
                elif opname == "pow":
                    k = b.poly.const_value()
                    if k is not None and k.denominator == 1 and 0 <= k <= 6:
                        poly = Poly.const(1)
                        for _ in range(int(k)):
                            poly = poly * a.poly
                elif opname in ("floordiv", "mod"):
                    ca, cb = a.poly.const_value(), b.poly.const_value()
                    if ca is not None and cb not in (None, 0):
                        poly = Poly.const(ca // cb if opname == "floordiv" else ca % cb)
                    elif a.is_py and b.is_py:
                        poly = self.derived_sym(opname, a.poly, b.poly)
            except Exception:
                poly = None
        kind = self.result_kind(a, b, opname)
        dtype = self.promote(a.dtype, b.dtype)
        if {a.dtype, b.dtype} == {"M", "Cfg"} and kind == "tensor" and len(a.axes) >= 1 and len(b.axes) >= 1 and not a.is_py and not b.is_py:
            # two tensors with dimensions: torch promotes to the wider of the two dtypes, so the configuration tensor's dtype can win
            # (a 0-d tensor — `leak[i]`, a norm — does not take part in the promotion and leaves the matrix dtype alone)
            dtype = "Mixed"
        if dtype == "Py" and kind in ("tensor", "ndarray"):
            dtype = a.dtype if not a.is_py else b.dtype  # a tensor combined with a python number keeps the tensor's dtype class
        if opname == "div" and kind in ("pyint",):
            kind = "pyfloat"
        if opname == "div" and dtype in ("Int", "Bool"):
            dtype = "Default"
        if dtype == "Mixed" and a.dtype != "Mixed" and b.dtype != "Mixed":
            self.ev("dtype_mix", node, left=a.dtype, right=b.dtype)
        size_of = None
        if deg == Z and "C" in axes:
            span = True
        note = ""
        if opname == "sub" and kind == "tensor":
            for x_, y_ in ((a, b), (b, a)):
                if x_.alias and x_.axes == ("R", "C") and x_.origin == frozenset(["matrix"]) and not x_.gen and not x_.note \
                        and y_.note == "generic-row" and y_.alias and y_.axes == ("C",) and len(y_.gen) == 1:
                    note = "rowdiff"  # matrix - row (or row - matrix): the differences between every row and the row the loop is at
        return TV(kind=kind, axes=axes, p=p, q=q, s=s, z=z, span=span, deg=deg, dtype=dtype, alias=False,
                  origin=a.origin | b.origin, poly=poly, gen=a.gen | b.gen, rng=a.rng or b.rng, size_of=size_of, note=note)

    @staticmethod
    def result_kind(a: TV, b: TV, opname="") -> str:
        order = ["pybool", "pyint", "pyfloat", "ndarray", "tensor", "cvx"]
        ka, kb = a.kind, b.kind
        if {ka, kb} == {"ndarray", "tensor"}:
            return "MIXED_LIB"
        k = ka if order.index(ka) >= order.index(kb) else kb
        if k == "pybool" and opname:
            k = "pyint"
        return k

    # ============================================================================== unary / binary
    BINOPS = {ast.Add: "add", ast.Sub: "sub", ast.Mult: "mul", ast.Div: "div", ast.FloorDiv: "floordiv",
              ast.Mod: "mod", ast.Pow: "pow"}

    def binary(self, a, op, b, node, env):
        if isinstance(op, ast.MatMult):
            ta, tb = tv_of(a), tv_of(b)
            if ta is None or tb is None:
                return self.unk(f"matmul of {type(a).__name__}/{type(b).__name__}", node)
            return self.matmul(ta, tb, node)
        # list / tuple concatenation and repetition
        if isinstance(a, ListV) and isinstance(b, ListV) and isinstance(op, ast.Add):
            if {a.kind, b.kind} == {"list", "tuple"} and getattr(self, "strict_sequence_kinds", False):
                # list + tuple: TypeError (only in the runs that pass arguments in their other admissible sequence type)
                from .interp import AbsRaise

                self.ev("raise_site", node, exc="TypeError", what=f"{a.kind} + {b.kind}")
                raise AbsRaise("TypeError", node, self.interp.where(node)[1])
            return self.concat_lists(a, b, node)
        if isinstance(op, ast.Mult) and (isinstance(a, ListV) or isinstance(b, ListV)):
            lst, n = (a, b) if isinstance(a, ListV) else (b, a)
            return self.repeat_list(lst, n, node)
        if isinstance(a, Const) and isinstance(b, Const) and isinstance(a.v, str) and isinstance(b.v, str):
            return Const("<str>")
        if isinstance(a, Const) and isinstance(a.v, str):
            return Const("<str>")
        if isinstance(op, (ast.BitOr, ast.BitAnd, ast.BitXor)):
            return self.bitop(a, op, b, node, env)
        if isinstance(a, SetV) and isinstance(b, SetV) and isinstance(op, ast.Sub):
            return self.set_binop(a, op, b, node)
        name = self.BINOPS.get(type(op))
        ta, tb = tv_of(a), tv_of(b)
        if name is None or ta is None or tb is None:
            return self.unk(f"binary {type(op).__name__} of {type(a).__name__}/{type(b).__name__}", node)
        r = self.elementwise(ta, tb, name, node)
        if r.kind == "MIXED_LIB":
            self.ev("kind_mix", node, left=ta.kind, right=tb.kind)
            r = r.but(kind="tensor")
        # python ints that are sizes stay sizes under arithmetic only via their polynomial
        return r

    def bitop(self, a, op, b, node, env):
        if isinstance(a, (SetV,)) or isinstance(b, (SetV,)):
            return self.set_binop(a, op, b, node)
        if isinstance(a, (DictV, ObjV)) and isinstance(op, ast.BitOr):
            return self.dict_union(a, b, node)
        ta, tb = tv_of(a), tv_of(b)
        if ta is not None and tb is not None and ta.note.startswith("finite-test") and tb.note.startswith("finite-test") and ta.origin == tb.origin and ta.axes == tb.axes:
            # element-wise predicates about the finiteness of one tensor: isnan | isinf is "not finite"; everything else is some other predicate
            parts = {ta.note, tb.note}
            if isinstance(op, ast.BitOr) and parts == {"finite-test:nan", "finite-test:inf"}:
                return ta.but(note="finite-test:non")
            if parts == {ta.note} and isinstance(op, (ast.BitOr, ast.BitAnd)):
                return ta
            return ta.but(note="finite-test:other")
        if ta is not None and tb is not None:
            r = self.elementwise(ta, tb, "mul", node)
            return r.but(deg=F0, dtype=self.promote(ta.dtype, tb.dtype), poly=None)
        return self.unk("bit operation", node)

    def unary(self, op, v, node, env):
        if isinstance(op, ast.Not):
            t = self.interp.truth(v)
            if t is not None:
                return Const(not t)
            if isinstance(v, (SetV, ListV)) and v.items is None and self.atoms_of(v):
                return TV(kind="pybool", dtype="Bool", note="nonempty?" + "+".join(sorted(self.atoms_of(v))) + "|neg")
            d = v.payload if isinstance(v, ObjV) and v.payload is not None else v
            if isinstance(d, DictV) and d.items is None and isinstance(d.keys, (SetV, ListV)) and self.atoms_of(d.keys):
                return TV(kind="pybool", dtype="Bool", note="nonempty?" + "+".join(sorted(self.atoms_of(d.keys))) + "|neg")
            tv = tv_of(v)
            if tv is not None:
                note = tv.note
                if note.startswith(("nonempty?", "allfinite?")):
                    note = note[:-4] if note.endswith("|neg") else note + "|neg"  # the opposite answer to the same question
                return tv.but(kind="pybool" if tv.is_py else tv.kind, dtype="Bool", poly=None, note=note)
            return TV(kind="pybool", dtype="Bool")
        tv = tv_of(v)
        if tv is None:
            return self.unk("unary op on non-numeric", node)
        if isinstance(op, ast.USub):
            return tv.but(poly=-tv.poly if tv.poly is not None else None, alias=False, size_of=None, idx_of=None)
        if isinstance(op, ast.UAdd):
            return tv
        if isinstance(op, ast.Invert):
            if tv.note.startswith("finite-test"):
                return tv.but(note={"finite-test": "finite-test:non", "finite-test:non": "finite-test"}.get(tv.note, "finite-test:other"))
            return tv.but(poly=None, alias=False)
        return self.unk("unary op", node)

    def boolop(self, op, vals, node):
        tvs = [tv_of(v) for v in vals]
        if any(t is None for t in tvs):
            return TV(kind="pybool", dtype="Bool")
        notes = {t.note for t in tvs}
        if isinstance(op, ast.Or) and len(tvs) == 2 and {n_.split("?")[0] for n_ in notes} == {"anynan", "anyinf"} and len({n_.split("?", 1)[1] for n_ in notes}) == 1:
            # any(isnan(x)) or any(isinf(x)): "some entry of x is not finite" — the whole question, asked negatively
            org = next(iter(notes)).split("?", 1)[1]
            if org == "matrix":
                self.ev("finite_check", node)
            return TV(kind="pybool", dtype="Bool", note="allfinite?" + org + "|neg", origin=frozenset().union(*(t.origin for t in tvs)))
        out = tvs[0]
        for t in tvs[1:]:
            out = self.elementwise(out, t, "mul", node).but(deg=F0)
        return out.but(kind="pybool" if all(t.is_py for t in tvs) else out.kind, dtype="Bool", poly=None)

    # ============================================================================== comparisons
    def compare(self, a, op, b, node, env):
        if isinstance(op, (ast.Is, ast.IsNot)):
            r = self.identity(a, b)
            if r is None:
                return TV(kind="pybool", dtype="Bool")
            return Const(r if isinstance(op, ast.Is) else not r)
        if isinstance(op, (ast.In, ast.NotIn)):
            return self.contains(b, a, isinstance(op, ast.NotIn), node)
        # len(<set>) compared with 0: the emptiness question, named after the set so that rules (and repeated tests) can recognise it
        for x, y, flip in ((a, b, False), (b, a, True)):
            if isinstance(x, TV) and x.note == "len(set)" and x.origin and isinstance(y, Const) and y.v == 0 and not isinstance(y.v, bool):
                tp = type(op)
                if flip:
                    tp = {ast.Lt: ast.Gt, ast.Gt: ast.Lt, ast.LtE: ast.GtE, ast.GtE: ast.LtE}.get(tp, tp)
                pol = {ast.NotEq: True, ast.Gt: True, ast.Eq: False, ast.LtE: False}.get(tp)
                if pol is not None:
                    return TV(kind="pybool", dtype="Bool", note="nonempty?" + "+".join(sorted(x.origin)) + ("" if pol else "|neg"))
        if isinstance(a, ClassV) and isinstance(b, (ClassV, ExtV)) and isinstance(op, (ast.Eq, ast.NotEq)):
            r = self.identity(a, b)  # classes compare by identity
            if r is not None:
                return Const(r if isinstance(op, ast.Eq) else not r)
        # structural comparisons of python data
        if not isinstance(a, (TV, Const)) or not isinstance(b, (TV, Const)):
            return self.compare_data(a, op, b, node, env)
        if isinstance(a, Const) and isinstance(b, Const):
            try:
                return Const({ast.Eq: a.v == b.v, ast.NotEq: a.v != b.v}.get(type(op), None)
                             if type(op) in (ast.Eq, ast.NotEq) else
                             {ast.Lt: a.v < b.v, ast.LtE: a.v <= b.v, ast.Gt: a.v > b.v, ast.GtE: a.v >= b.v}[type(op)])
            except Exception:
                return TV(kind="pybool", dtype="Bool")
        ta, tb = tv_of(a), tv_of(b)
        if ta is None or tb is None:
            return TV(kind="pybool", dtype="Bool")
        # decidable on closed forms
        if ta.poly is not None and tb.poly is not None and ta.is_py and tb.is_py:
            d = (ta.poly - tb.poly).const_value()
            if d is not None:
                res = {ast.Eq: d == 0, ast.NotEq: d != 0, ast.Lt: d < 0, ast.LtE: d <= 0, ast.Gt: d > 0, ast.GtE: d >= 0}[type(op)]
                return Const(res)
            sg = self.sign_of(ta.poly - tb.poly) if ta.kind == "pyint" and tb.kind == "pyint" else None
            if sg in ("neg", "pos"):
                res = {ast.Eq: False, ast.NotEq: True, ast.Lt: sg == "neg", ast.LtE: sg == "neg", ast.Gt: sg == "pos", ast.GtE: sg == "pos"}[type(op)]
                return Const(res)
        if ta.is_py and tb.is_py and ta.poly is not None and tb.poly is not None:
            self.ev("size_compare", node, op=type(op).__name__, diff=repr(ta.poly - tb.poly), diff_poly=ta.poly - tb.poly, left=repr(ta.poly), right=repr(tb.poly),
                    origins=sorted(ta.origin | tb.origin))
        self.note_value_use(ta, node)
        self.note_value_use(tb, node)
        # scale (in)dependence of the comparison
        da, db = ta.deg, tb.deg
        scale_free = (da == db) or da == Z or db == Z
        if da is None or db is None:
            scale_free = False
        if not scale_free:
            self.ev("scale_branch", node, left=str(da), right=str(db), op=type(op).__name__,
                    left_origin=sorted(ta.origin), right_origin=sorted(tb.origin), left_note=ta.note, right_note=tb.note,
                    why=f"comparison between a degree-{da} and a degree-{db} quantity depends on the scale of the matrix")
        else:
            self.ev("cmp", node, op=type(op).__name__, left=str(da), right=str(db), left_origin=sorted(ta.origin), right_origin=sorted(tb.origin))
        r = self.elementwise(ta, tb, "cmp", node)
        zero_ok = isinstance(op, (ast.Lt, ast.Gt, ast.NotEq))
        for x, y in ((ta, tb), (tb, ta)):
            if x.size_of == "C" and y.poly is not None and y.poly.const_value() == 0 and y.is_py:
                # emptiness test of the column axis: not regarded as zero-column dependent (assumption)
                r = r.but(z=True)
                zero_ok = True
            elif x.is_py and x.poly is not None and y.is_py and y.poly is not None and y.poly.const_value() == 0 and x.poly.terms and len(x.poly.terms) == 1 \
                    and all(str(sy) in ("m", "n") for sy, _ in next(iter(x.poly.terms)) ) and next(iter(x.poly.terms.values())) > 0:
                # numel() (= m·n, a product of sizes) against 0: "some axis is empty" — the same emptiness tests, asked at once
                r = r.but(z=True)
                zero_ok = True
        return r.but(kind="pybool" if (ta.is_py and tb.is_py) else r.kind, dtype="Bool", deg=F0 if scale_free else None,
                     z=r.z and (zero_ok or "C" not in r.axes), q=r.q and "C" not in r.axes, poly=None,
                     note="cmp")

    def identity(self, a, b):
        if isinstance(a, Const) and isinstance(b, Const):
            return a.v is b.v or (a.v == b.v and type(a.v) is type(b.v))
        if isinstance(a, Const) and a.v is None:
            return False if isinstance(b, (TV, ListV, DictV, SetV, ObjV, FuncV, ClassV, MetaV)) else None
        if isinstance(b, Const) and b.v is None:
            return False if isinstance(a, (TV, ListV, DictV, SetV, ObjV, FuncV, ClassV, MetaV)) else None
        if isinstance(a, ObjV) and isinstance(b, ObjV):
            return a is b or a.oid == b.oid
        if isinstance(a, ClassV) and isinstance(b, ClassV):
            return a.cls is b.cls  # `type(x) is C`
        if (isinstance(a, ClassV) and isinstance(b, ExtV)) or (isinstance(a, ExtV) and isinstance(b, ClassV)):
            return False
        return None  # (an OptV against None: open)

    def contains(self, container, item, negate, node):
        return TV(kind="pybool", dtype="Bool")

    def compare_data(self, a, op, b, node, env):
        """==/!= between sets, lists, shapes..."""
        # a dict keys view is set-like: keys() == {...} compares as sets
        if isinstance(a, ListV) and a.kind == "keys" and isinstance(b, (SetV, ListV)) and (isinstance(b, SetV) or b.kind == "keys"):
            a = self.to_set(a, node)
            b = self.to_set(b, node) if isinstance(b, ListV) else b
        elif isinstance(b, ListV) and b.kind == "keys" and isinstance(a, SetV):
            b = self.to_set(b, node)
        if isinstance(a, SetV) and isinstance(b, SetV) and isinstance(op, (ast.Eq, ast.NotEq)):
            eq = self.sets_equal(a, b)
            self.ev("set_compare", node, left=repr(a)[:120], right=repr(b)[:120], left_atoms=sorted(a.atoms), right_atoms=sorted(b.atoms), equal=eq)
            if eq is None:
                return TV(kind="pybool", dtype="Bool", note="set-compare")
            return Const(eq if isinstance(op, ast.Eq) else not eq)
        if isinstance(a, ListV) and isinstance(b, ListV) and a.items is not None and b.items is not None and isinstance(op, (ast.Eq, ast.NotEq)):
            if len(a.items) != len(b.items):
                return Const(isinstance(op, ast.NotEq))
        return TV(kind="pybool", dtype="Bool")

    def sets_equal(self, a: SetV, b: SetV):
        if a.items is not None and b.items is not None:
            if len(a.items) == 0 and len(b.items) == 0:
                return True
            if (len(a.items) == 0) != (len(b.items) == 0):
                return None
        if a.atoms and b.atoms:
            if a.atoms == b.atoms:
                return True
            return None
        if a.items is not None and len(a.items) == 0 and b.atoms:
            return None
        return None

    def decide_test(self, test_expr, val, env):
        return None

    def test_key(self, val, cmps, test_expr):
        """(key, negated) identifying the symbolic question asked by a test, or None."""
        sc = [c for c in cmps if c["kind"] == "size_compare"]
        others = [c for c in cmps if c["kind"] != "size_compare"]
        if len(sc) == 1 and all(c["kind"] == "cmp" for c in others) and len(others) <= 1 and not isinstance(test_expr, (ast.BoolOp,)):
            neg = isinstance(test_expr, ast.UnaryOp) and isinstance(test_expr.op, ast.Not)
            op = sc[0]["op"]
            # `len(X) == 0` / `!= 0` / `> 0`: the emptiness question about X, asked like `if X:` / `if not X:`
            dp = sc[0].get("diff_poly")
            if dp is not None and len(dp.terms) == 1:
                (mono, coef), = dp.terms.items()
                if len(mono) == 1 and mono[0][1] == 1 and coef in (1, -1) and str(mono[0][0]).startswith(("len[", "len*[", "len~[")):
                    sym = str(mono[0][0])
                    atoms_txt = sym[sym.index("[") + 1:-1]
                    if atoms_txt in ("?", ""):
                        atoms_txt = None  # the length of a list nobody can name: not a question about a key collection
                    if atoms_txt is None:
                        pass
                    elif sym.startswith("len~["):
                        atoms_txt = "~" + atoms_txt  # a FILTERED selection of the collection: it may be empty although the collection is not
                    if atoms_txt is not None and coef == 1 and op in ("Eq", "NotEq", "Gt", "LtE"):
                        nonempty = op in ("NotEq", "Gt")
                        return ("nonempty?" + atoms_txt, (not nonempty) ^ neg)
                    if atoms_txt is not None and coef == -1 and op in ("Eq", "NotEq", "Lt", "GtE"):
                        nonempty = op in ("NotEq", "Lt")
                        return ("nonempty?" + atoms_txt, (not nonempty) ^ neg)
            canon = {"NotEq": ("Eq", True), "GtE": ("Lt", True), "LtE": ("Gt", True)}.get(op, (op, False))
            return (f"{canon[0]}:{sc[0]['diff']}", canon[1] ^ neg)
        if isinstance(val, TV) and val.note.startswith(("nonempty?", "allfinite?")):
            return (val.note.split("|")[0], val.note.endswith("|neg"))
        if isinstance(val, (SetV, ListV)) and val.items is None:
            at = sorted(self.atoms_of(val))
            if at:
                return ("nonempty?" + "+".join(at), False)
        d = val.payload if isinstance(val, ObjV) and val.payload is not None else val
        if isinstance(d, DictV) and d.items is None and isinstance(d.keys, (SetV, ListV)):
            at = sorted(self.atoms_of(d.keys))
            if at:
                return ("nonempty?" + "+".join(at), False)
        return None

    def assume(self, test_expr, truth, env):
        """Refines the environment with the outcome of a test: `x is None` / `x is not None` / `(x := e) is not None` /
        `not (...)` narrow a possibly-None object bound to the name x."""
        t = test_expr
        while isinstance(t, ast.UnaryOp) and isinstance(t.op, ast.Not):
            t, truth = t.operand, not truth
        if isinstance(t, ast.BoolOp):
            # all conjuncts hold when an `and` is true; all disjuncts fail when an `or` is false
            if (isinstance(t.op, ast.And) and truth) or (isinstance(t.op, ast.Or) and not truth):
                undo = []
                for v in t.values:
                    undo += self.assume(v, truth, env) or []
                return undo
            # `a and b` is false although every conjunct but one is known to hold: that one fails (dually for `or`)
            want = isinstance(t.op, ast.And)
            open_ = []
            for v in t.values:
                known = self.interp.truth(env.lookup(v.id)) if isinstance(v, ast.Name) and env.lookup(v.id) is not None else None
                if known is None or known != want:
                    open_.append(v)
            if len(open_) == 1:
                return self.assume(open_[0], truth, env)
            return None
        if isinstance(t, ast.Name):
            # `if xs:` on a collection of unknown size: on the False side it is empty
            e = env
            while e is not None:
                if t.id in e.vars:
                    v = e.vars[t.id]
                    if not truth and isinstance(v, ListV) and v.items is None:
                        e.vars[t.id] = ListV(items=(), kind=v.kind)
                        return [(e.vars, t.id, v)]
                    if not truth and isinstance(v, SetV) and v.items is None:
                        e.vars[t.id] = SetV(items=())
                        return [(e.vars, t.id, v)]
                    break
                e = e.parent
            return None
        if isinstance(t, ast.Compare) and len(t.ops) == 1 and isinstance(t.ops[0], (ast.Is, ast.IsNot)):
            l, r = t.left, t.comparators[0]
            if isinstance(l, ast.Constant) and l.value is None:
                l, r = r, l
            if isinstance(r, ast.Constant) and r.value is None:
                if isinstance(l, ast.NamedExpr):
                    l = l.target
                if isinstance(l, ast.Name):
                    is_none = truth == isinstance(t.ops[0], ast.Is)
                    e = env
                    while e is not None:
                        if l.id in e.vars:
                            v = e.vars[l.id]
                            if isinstance(v, OptV):
                                e.vars[l.id] = NONE if is_none else v.val
                                return [(e.vars, l.id, v)]  # undo entry
                            break
                        e = e.parent
        return None

    # ============================================================================== containers
    def make_set(self, items, node):
        return SetV(items=tuple(items))

    def to_set(self, v, node):
        if isinstance(v, SetV):
            return v
        if isinstance(v, ListV) and v.it is not None:
            v = self.consume(v, node)
        if isinstance(v, ListV):
            if v.items is not None:
                return SetV(items=tuple(v.items))
            return SetV(items=None, elem=v.elem, atoms=self.atoms_of(v), order=None)
        if isinstance(v, DictV):
            if v.items is not None:
                return SetV(items=tuple(k for k, _ in v.items))
            return self.to_set(v.keys, node) if v.keys is not None else SetV(elem=Unk("keys"))
        if isinstance(v, ObjV) and v.payload is not None:
            return self.to_set(v.payload, node)
        if isinstance(v, Unk):
            return v
        return self.unk(f"set() of {type(v).__name__}", node)

    def atoms_of(self, v) -> frozenset:
        if isinstance(v, SetV):
            return v.atoms
        if isinstance(v, ListV) and v.order is not None:
            return frozenset(v.order[0]) if isinstance(v.order[0], (tuple, frozenset)) else frozenset([v.order[0]])
        return frozenset()

    def set_binop(self, a, op, b, node):
        if isinstance(a, SetV) and isinstance(b, SetV):
            if isinstance(op, ast.BitOr):
                if a.items is not None and b.items is not None:
                    return SetV(items=a.items + tuple(x for x in b.items if x not in a.items))
                return SetV(elem=join(self.set_elem(a), self.set_elem(b)), atoms=a.atoms | b.atoms)
            if isinstance(op, ast.Sub):
                return SetV(elem=self.set_elem(a), atoms=frozenset(), items=None)
            if isinstance(op, ast.BitAnd):
                return SetV(elem=self.set_elem(a), atoms=frozenset(), items=None)
        return self.unk("set operation", node)

    @staticmethod
    def set_elem(s: SetV):
        if s.items is not None:
            out = None
            for x in s.items:
                out = x if out is None else join(out, x)
            return out
        return s.elem

    def concat_lists(self, a: ListV, b: ListV, node):
        if a.items is not None and b.items is not None:
            return ListV(items=a.items + b.items, kind=a.kind)
        ea = a.elem if a.items is None else self.set_elem(SetV(items=a.items))
        eb = b.elem if b.items is None else self.set_elem(SetV(items=b.items))
        order = None
        if a.order is not None and b.order is not None and a.order[1] == "same" and b.order[1] == "same":
            order = (("concat", a.order[0], b.order[0]), "same")
        elif a.items is not None and len(a.items) == 0:
            order = b.order
        elif b.items is not None and len(b.items) == 0:
            order = a.order
        if order is None and a.order is not None and b.order is not None and a.order[0] == b.order[0] and "filtered" in a.order[1] and "filtered" in b.order[1]:
            order = (a.order[0], "regrouped")  # two selections of one collection laid end to end: its elements grouped by the selecting conditions
        e = ea if eb is None else (eb if ea is None else join(ea, eb))
        return ListV(items=None, elem=e, kind=a.kind, order=order, over=None)

    def repeat_list(self, lst: ListV, n, node):
        tn = tv_of(n)
        if lst.items is not None and tn is not None and tn.poly is not None and tn.poly.const_value() is not None:
            k = int(tn.poly.const_value())
            return ListV(items=lst.items * k, kind=lst.kind)
        e = lst.elem if lst.items is None else self.set_elem(SetV(items=lst.items))
        return ListV(items=None, elem=e, kind=lst.kind, order=(("repeat",), "const"), length=n)

    def dict_union(self, a, b, node):
        pa = a.payload if isinstance(a, ObjV) else a
        pb = b.payload if isinstance(b, ObjV) else b
        if isinstance(pa, DictV) and isinstance(pb, DictV):
            if pa.items is not None and pb.items is not None:
                return DictV(items=pa.items + pb.items)
            ka = self.dict_keys(pa)
            kb = self.dict_keys(pb)
            va = self.dict_val(pa)
            vb = self.dict_val(pb)
            keys = self.union_keys(ka, kb, node)
            if pa.items is not None and len(pa.items) == 0:
                keys, val = kb, vb
            elif pb.items is not None and len(pb.items) == 0:
                keys, val = ka, va
            else:
                val = va if vb is None else (vb if va is None else join(va, vb))
            return DictV(items=None, keys=keys, val=val)
        return self.unk("dict union", node)

    def union_keys(self, ka, kb, node):
        """Key collection of ``a | b`` (insertion order: keys of a, then the new keys of b)."""
        if ka is None or kb is None:
            return ka or kb
        la = ka if isinstance(ka, ListV) else None
        lb = kb if isinstance(kb, ListV) else None
        if la is not None and lb is not None and la.items is None and lb.items is None:
            aa, ab = self.atoms_of(la), self.atoms_of(lb)
            if aa and aa == ab:
                return la
            e = join(la.elem, lb.elem) if la.elem is not None and lb.elem is not None else (la.elem or lb.elem)
            oa = tuple(la.order[0]) if la.order else ()
            ob = tuple(lb.order[0]) if lb.order else ()
            mode = "same" if la.order and lb.order and la.order[1] == "same" and lb.order[1] == "same" else "mixed"
            return ListV(items=None, elem=e, order=(oa + tuple(x for x in ob if x not in oa), mode))
        return self.set_binop(self.to_set(ka, node), ast.BitOr(), self.to_set(kb, node), node)

    @staticmethod
    def dict_keys(d: DictV):
        if d.items is not None:
            return ListV(items=tuple(k for k, _ in d.items))
        return d.keys

    @staticmethod
    def dict_val(d: DictV):
        if d.items is not None:
            out = None
            for _, v in d.items:
                out = v if out is None else join(out, v)
            return out
        return d.val

    def spread(self, v, node):
        if isinstance(v, ListV) and v.it is not None:
            v = self.consume(v, node)  # `f(*iterator)` / `[*iterator]` exhausts a one-shot iterator: nothing is left for a later traversal
        if isinstance(v, ListV) and v.items is not None:
            return ("concrete", list(v.items))
        if isinstance(v, SetV) and v.items is not None:
            return ("concrete", list(v.items))
        if isinstance(v, ObjV) and getattr(v, "tuple_fields", None) and all(f in v.fields for f in v.tuple_fields):
            return ("concrete", [v.fields[f] for f in v.tuple_fields])  # NamedTuple instance: its fields, in declaration order
        return ("abstract", v)

    def symbols_in(self, v, depth=0) -> set:
        """Size symbols occurring in the closed forms of a value (recursively through containers)."""
        out = set()
        if depth > 6:
            return out
        if isinstance(v, TV):
            if v.poly is not None:
                todo = [str(x) for x in v.poly.symbols()]
                while todo:
                    sy = todo.pop()
                    if sy in out:
                        continue
                    out.add(sy)
                    for pl in self.sym_defs.get(sy, ())[1:]:  # derived symbols (min#3 = min(k, m)) stand for what they are derived from
                        if isinstance(pl, Poly):
                            todo += [str(x) for x in pl.symbols()]
        elif isinstance(v, (ListV, SetV)):
            for x in (v.items if v.items is not None else [v.elem]):
                if x is not None:
                    out |= self.symbols_in(x, depth + 1)
        elif isinstance(v, DictV):
            for k_, x in (v.items or ()):
                out |= self.symbols_in(k_, depth + 1) | self.symbols_in(x, depth + 1)
            if v.items is None:
                for x in (v.keys, v.val):
                    if x is not None:
                        out |= self.symbols_in(x, depth + 1)
        return out

    def atoms_in(self, v, depth=0) -> set:
        out = set()
        if depth > 6:
            return out
        if isinstance(v, TV):
            out |= set(v.origin)
        elif isinstance(v, (ListV, SetV)):
            for x in (v.items if v.items is not None else [v.elem]):
                if x is not None:
                    out |= self.atoms_in(x, depth + 1)
        elif isinstance(v, DictV):
            for k_, x in (v.items or ()):
                out |= self.atoms_in(k_, depth + 1) | self.atoms_in(x, depth + 1)
            if v.items is None:
                for x in (v.keys, v.val):
                    if x is not None:
                        out |= self.atoms_in(x, depth + 1)
        return out

    def note_degree(self, deg, a, b, node):
        """Records products / powers whose result scales like the input to a power > 1 (or < -1... not recorded): with an input of
        magnitude M the intermediate has magnitude M^deg, whatever is done to it afterwards."""
        if isinstance(deg, Fraction) and deg > 1 and not ((a.is_py and a.kind != "tensor") and (b.is_py and b.kind != "tensor")):
            self.ev("deg_high", node, deg=str(deg), left=a.short(), right=b.short(), origin=sorted(a.origin | b.origin))

    def unpack_list(self, v, n, node):
        """Positions of an abstract sequence unpacked into n names, when positions mean something (a tensor's shape); else None."""
        return None

    def unpack(self, v, n, node):
        tv = tv_of(v)
        if tv is not None and tv.axes:
            # unpacking along the first axis
            return [self.index_axis(tv, 0, None, node, generic=False)] * n
        return None

    # ---- iteration
    # ---- one-shot iterators -------------------------------------------------------------------------------------------------
    def fresh_iter(self, lst):
        """Marks a sequence value as a one-shot iterator (its elements are handed out once along a path)."""
        if not isinstance(lst, ListV):
            return lst
        tr = self.interp.trace
        tr.iter_n += 1
        tr.iters[("born", tr.iter_n)] = self.interp.join_depth
        return replace(lst, it=tr.iter_n)

    def iter_in_loop(self, lst) -> bool:
        """An abstract loop was entered after the iterator was created: how often it was advanced since is not known."""
        return self.interp.join_depth > self.interp.trace.iters.get(("born", lst.it), 0)

    def consume(self, lst, node, full=True):
        """What a consumer of the one-shot iterator `lst` sees now; `full` = the consumer exhausts it."""
        if not isinstance(lst, ListV) or lst.it is None:
            return lst
        tr = self.interp.trace
        who = (id(node), tr.call_serial)
        st = tr.iters.get(lst.it)
        pos, partial = 0, False
        if isinstance(st, tuple) and st[0] == "cond":
            # exhausted on the paths where the recorded question received the recorded answer
            st = (("all" if tr.decided.get(st[4]) is st[5] else "some"),) + st[1:4]
        if isinstance(st, tuple):
            if st[1] == who:
                pos = st[2]  # the same consumer looking again at its own argument
                partial = st[3]
            elif st[0] == "all":
                self.ev("iterator_reuse", node, state="exhausted")
                return ListV(items=(), kind=lst.kind)
            else:
                self.ev("iterator_reuse", node, state="partly consumed")
                pos, partial = st[2], True
        elif st is not None:
            pos = st
        if self.iter_in_loop(lst) and not isinstance(st, tuple):
            full = False  # consumed somewhere inside an abstract loop: how often is not known
        tr.iters[lst.it] = ("all" if full else "some", who, pos, partial)
        if lst.items is not None:
            rest = lst.items[pos:]
            if partial:
                return ListV(items=None, elem=join_all(rest) if rest else None, kind=lst.kind, order=lst.order) if rest else ListV(items=(), kind=lst.kind)
            return replace(lst, items=rest, it=None)
        return replace(lst, it=None)

    def exhausted_if(self, lst, key, outcome):
        """A short-circuiting consumer read `lst` to its end on the paths where question `key` is answered `outcome` (key None: always)."""
        if not isinstance(lst, ListV) or lst.it is None:
            return
        tr = self.interp.trace
        st = tr.iters.get(lst.it)
        if isinstance(st, tuple) and st[0] == "some":
            tr.iters[lst.it] = ("all", None, st[2], st[3]) if key is None else ("cond", None, st[2], st[3], key, outcome)

    def iter_next(self, lst, default, node):
        """next(it[, default])."""
        I = self.interp
        tr = I.trace
        st = tr.iters.get(lst.it)
        if isinstance(st, tuple) and st[0] == "cond":
            st = (("all" if tr.decided.get(st[4]) is st[5] else "some"),) + st[1:4]
        if isinstance(st, tuple):
            if st[0] == "all":
                if default is not None:
                    return default
                I.may_raise(["StopIteration"], node, "next")
                return self.unk("next of an exhausted iterator", node)
            rest = self.consume(lst, node, full=False)
            e = rest.elem if rest.items is None else (join_all(rest.items) if rest.items else None)
            if e is None:
                return default if default is not None else self.unk("next of an exhausted iterator", node)
            if default is None:
                I.may_raise(["StopIteration"], node, "next")
                return e
            return self.optional(e, default) if hasattr(self, "optional") else join(e, default)
        pos = st or 0
        if lst.items is not None and not self.iter_in_loop(lst):
            if pos < len(lst.items):
                tr.iters[lst.it] = pos + 1
                return lst.items[pos]
            if default is not None:
                return default
            I.may_raise(["StopIteration"], node, "next")
            return self.unk("next of an exhausted iterator", node)
        if lst.items is None and st is None and I.join_depth == 0 and lst.elem is not None:
            # first element of a collection of unknown size: "is there one?" is the emptiness question about the collection
            at = sorted(self.atoms_of(lst))
            key = ("nonempty?" + "+".join(at)) if at else None
            if key is not None and key in tr.decided:
                has = tr.decided[key]
            else:
                has = I.oracle.decide(f"{I.where(node)[0]}: next() finds an element", 2) == 0
                tr.decisions.append(f"{'T' if has else 'F'}[{norm_text(node)} finds an element]")
                if key is not None:
                    tr.decided[key] = has
            if has:
                tr.iters[lst.it] = ("some", None, 0, True)
                return lst.elem
            tr.iters[lst.it] = ("all", None, 0, False)
            if default is not None:
                return default
            from .interp import AbsRaise

            raise AbsRaise("StopIteration", node, I.where(node)[1])  # this path: the iterator has nothing to give
        # summary (or inside an abstract loop): some element, or the default when nothing is left
        tr.iters[lst.it] = ("some", None, pos, True)
        e = lst.elem if lst.items is None else (join_all(lst.items[pos:]) if lst.items[pos:] else None)
        if e is None:
            return default if default is not None else self.unk("next of an empty iterator", node)
        if default is None:
            I.may_raise(["StopIteration"], node, "next")
            return e
        return self.optional(e, default) if hasattr(self, "optional") else join(e, default)

    def iterate(self, v, node, env, parts=False):
        if isinstance(v, ListV) and v.it is not None:
            v = self.consume(v, node)
        if isinstance(v, ListV) and v.kind == "counter":
            return ("abstract", self.unk("iteration over a Counter", node), {})
        if isinstance(v, ListV):
            if v.items is not None:
                return ("concrete", list(v.items))
            pt = v.parts() if parts else None
            if pt:
                return ("parts", pt[0], {"over": v.over, "order": v.order, "symmetric": False, "src": v}, list(pt[1]))
            return ("abstract", v.elem, {"over": v.over, "order": v.order, "symmetric": v.over in ("R", "Rblocks"), "src": v})
        if isinstance(v, SetV):
            if v.items is not None:
                return ("concrete", list(v.items))
            return ("abstract", v.elem, {"order": (tuple(sorted(v.atoms)), "unordered"), "src": v})
        if isinstance(v, DictV):
            if v.items is not None:
                return ("concrete", [k for k, _ in v.items])
            k = v.keys
            if isinstance(k, (ListV, SetV)):
                return self.iterate(k, node, env)
            return ("abstract", k, {"src": v})
        if isinstance(v, ObjV) and v.payload is not None:
            return self.iterate(v.payload, node, env)
        tv = tv_of(v)
        if tv is not None and tv.axes:
            tag = tv.axes[0]
            elem = self.index_axis(tv, 0, None, node, generic=True)
            if tv.idx_of and tv.kind == "tensor" and len(tv.axes) == 1:
                # iterating a tensor of indices (randperm): elements are indices
                elem = elem.but(idx_of=tv.idx_of)
            if tv.alias and tv.axes == ("R", "C") and tv.origin == frozenset(["matrix"]) and tv.p and not tv.gen and not tv.note:
                elem = elem.but(note="generic-row")  # `for row in matrix`: the row of the input the loop is at
            return ("abstract", elem, {"over": tag, "symmetric": tag == "R" and tv.p and not tv.rng, "tensor": tv})
        if isinstance(v, Unk):
            return ("abstract", v, {})
        return ("abstract", self.unk(f"iteration over {type(v).__name__}", node), {})

    def loop_enter(self, lid, st, info, env):
        if not hasattr(self, "loop_stmts"):
            self.loop_stmts = {}
        self.loop_stmts[lid] = st
        if not hasattr(self, "open_loops"):
            self.open_loops = []
        self.open_loops.append((lid, info))

    def loop_trip(self):
        """Closed form of the number of iterations of the innermost open loop (`for _ in range(B)`: B), or None."""
        if not getattr(self, "open_loops", None):
            return None
        src = self.open_loops[-1][1].get("src")
        ln = getattr(src, "length", None)
        return ln.poly if isinstance(ln, TV) and ln.poly is not None else None

    def comp_enter(self, info):
        pass

    def comp_exit(self, info):
        pass

    def loop_elem(self, elem, lid, info):
        if isinstance(elem, TV) and info.get("symmetric"):
            return elem.but(gen=elem.gen | {lid})
        if isinstance(elem, ListV) and elem.items is not None and info.get("symmetric"):
            return replace(elem, items=tuple(x.but(gen=x.gen | {lid}) if isinstance(x, TV) else x for x in elem.items))
        return elem

    def induction(self, head, nxt, lid, info) -> bool:
        return False

    def loop_back(self, env, lid, info):
        pass

    def loop_exit(self, env: Env, lid, info, st):
        """Values still depending on the generic index of a finished loop are order-dependent."""
        if getattr(self, "open_loops", None) and self.open_loops[-1][0] == lid:
            self.open_loops.pop()
        e = env
        while e is not None:
            for k, v in list(e.vars.items()):
                if isinstance(v, TV) and lid in v.gen:
                    if v.p:
                        self.clear("p", f"value of `{k}` after the loop depends on the last row visited", st)
                    e.vars[k] = v.but(p=False, gen=v.gen - {lid})
            e = e.parent

    def comp_concrete(self, leaves, kind, n, env):
        flat = []
        for lf in leaves:
            if isinstance(lf, tuple) and lf and lf[0] == "leaf":
                flat.append(lf[1])
            elif isinstance(lf, ListV) and lf.items is not None:
                flat.extend(lf.items)
            elif isinstance(lf, DictV) and lf.items is not None:
                flat.extend(lf.items)
            else:
                # nested abstract generator inside a concrete one
                if kind == "dict":
                    if len(leaves) == 1:
                        return lf
                    # {k: v for d in (d1, d2, ...) for k, v in d.items()}: the union of the dictionaries the inner generators yield, later ones winning
                    parts = [DictV(items=(x[1],)) if isinstance(x, tuple) and x and x[0] == "leaf" else x for x in leaves]
                    if all(isinstance(x, DictV) for x in parts):
                        out = parts[0]
                        for x in parts[1:]:
                            out = self.dict_union(out, x, n)
                        return out
                    return DictV(items=None, keys=None, val=None)
                if len(leaves) == 1:
                    return lf
                out = leaves[0]
                for x in leaves[1:]:
                    out = self.concat_lists(out, x, n) if isinstance(out, ListV) and isinstance(x, ListV) else Unk("mixed comprehension")
                return out
        if kind == "dict":
            # a key met again replaces the value stored under it (the position of the first occurrence is kept): keys that are one object,
            # or equal constants
            ident = lambda k: ("obj", k.oid) if isinstance(k, ObjV) else (("const", type(k.v).__name__, k.v) if isinstance(k, Const) and isinstance(k.v, (int, str, bool, float, type(None))) else ("id", id(k)))
            out_, pos_ = [], {}
            for kv in flat:
                if isinstance(kv, tuple) and len(kv) == 2:
                    i_ = ident(kv[0])
                    if i_ in pos_:
                        out_[pos_[i_]] = (out_[pos_[i_]][0], kv[1])
                        continue
                    pos_[i_] = len(out_)
                out_.append(kv)
            return DictV(items=tuple(out_))
        return ListV(items=tuple(flat), kind="list")

    def comp_abstract(self, r, kind, info, lid, filtered, n, env):
        over = info.get("over")
        order = info.get("order")
        if filtered:
            order = None if order is None else (order[0], order[1] + "+filtered")
        if kind == "dict":
            if isinstance(r, tuple) and r and r[0] == "leaf":
                k, v = r[1]
                return DictV(items=None, keys=ListV(items=None, elem=self.strip_gen(k, lid), order=order, over=over),
                             val=self.strip_gen(v, lid))
            return r if isinstance(r, DictV) else DictV()
        if isinstance(r, tuple) and r and r[0] == "leaf":
            e = self.strip_gen(r[1], lid)
            src = info.get("src")
            ln = src.length if isinstance(src, ListV) and not filtered and src.parts() is None else None  # one element per element of the source
            return ListV(items=None, elem=e, kind="list", over=over, order=order, length=ln)
        if isinstance(r, ListV):
            # nested generators: flatten
            e = r.elem if r.items is None else self.set_elem(SetV(items=r.items))
            inner = r.order
            o2 = None
            if order is not None and inner is not None:
                o2 = (("flat", order[0], inner[0]), "same" if order[1] == "same" and inner[1] == "same" else "mixed")
            return ListV(items=None, elem=self.strip_gen(e, lid) if e is not None else None, kind="list", over=None, order=o2)
        return Unk("comprehension")

    @staticmethod
    def strip_gen(v, lid):
        if isinstance(v, TV) and lid in v.gen:
            return v.but(gen=v.gen - {lid})
        if isinstance(v, ListV) and v.items is not None:
            return replace(v, items=tuple(Ops.strip_gen(x, lid) for x in v.items))
        return v

    # ============================================================================== attribute stores
    def store_attr(self, obj, attr, v, st, env, aug):
        if isinstance(obj, ObjV):
            in_init = any(f.name == "__init__" for f in self.interp.call_stack)
            if not in_init:
                self.ev("self_write", st, attr=attr, cls=obj.cls.qualname, value_syms=sorted(self.symbols_in(v)), value_atoms=sorted(self.atoms_in(v)),
                        fresh=getattr(obj, "born_trace", None) is self.interp.trace)
            if getattr(obj, "summary", False):
                # a store on the summary of several instances is a weak update
                self.ev("lost_mutation", st, attr=attr)
                old = obj.fields.get(attr)
                obj.fields[attr] = v if old is None else join(old, v)
                return
            obj.fields[attr] = v
            return
        tv = tv_of(obj)
        if tv is not None and attr == "grad":
            self.ev("grad_write", st, aug=aug)
            return
        if tv is not None and attr == "value":
            self.ev("cvx_param_write", st)
            return
        self.ev("attr_store_unknown", st, attr=attr)

    def store_subscript(self, obj, idx, v, st, env, aug):
        if isinstance(obj, DictV):
            if idx[0] == "index":
                if obj.items is not None and (self.interp.join_depth == 0 or obj.born == self.interp.join_depth) and not self.in_abstract_body_since(obj):
                    if any(k_ is idx[1] or k_ == idx[1] for k_, _ in obj.items):
                        return DictV(items=tuple((k_, v if (k_ is idx[1] or k_ == idx[1]) else v_) for k_, v_ in obj.items), ordered=obj.ordered, born=obj.born)
                    return DictV(items=obj.items + ((idx[1], v),), ordered=obj.ordered, born=obj.born)
                keys = self.dict_keys(obj)
                k = idx[1]
                kelem = None
                if isinstance(keys, ListV):
                    kelem = keys.elem if keys.items is None else self.set_elem(SetV(items=keys.items))
                nk = k if kelem is None else join(kelem, k)
                val = self.dict_val(obj)
                order = self.current_loop_order(env)
                return DictV(items=None, keys=ListV(items=None, elem=nk, order=order), val=v if val is None else join(val, v))
            return None
        if isinstance(obj, ListV):
            self.ev("list_item_store", st)
            if idx[0] != "index":
                return Unk("slice assignment on a list")
            i = self.const_int(idx[1])
            if obj.items is not None and i is not None and -len(obj.items) <= i < len(obj.items) and self.interp.join_depth == 0:
                items = list(obj.items)
                items[i] = v
                return replace(obj, items=tuple(items))
            old = obj.elem if obj.items is None else join_all(obj.items)
            if isinstance(old, Const) and old.v is None and isinstance(v, TV) and hasattr(self, "optional"):
                new_elem = self.optional(v, old)  # a list of None being filled: every entry is a value or still None
            elif isinstance(v, Const) and v.v is None and isinstance(old, TV) and hasattr(self, "optional"):
                new_elem = self.optional(old, v)
            else:
                new_elem = v if old is None else join(old, v)
            order = obj.order
            it = tv_of(idx[1])
            scatter = next((l[1] for l in (it.layout if isinstance(it, TV) else ()) if l[0] == "enum"), None)
            if scatter is not None and (order is None or order[1] == "const" or order == scatter):
                order = scatter  # xs[i] = f(ys[i]) for i, y in enumerate(ys): xs is laid out like ys
            elif order is not None and order[1] != "const":
                order = (order[0], "mixed") if scatter is None and i is None else order
            return ListV(items=None, elem=new_elem, kind=obj.kind, order=order, length=obj.length if obj.items is None else None, over=obj.over)
        if isinstance(obj, ObjV):
            r = obj.cls.lookup("__setitem__")
            if r is not None:
                self.interp.call_value(BoundV(FuncV(r[1], None), obj), [idx[1] if idx[0] == "index" else Unk("slice"), v], {}, st, env)
                return None
        tv = tv_of(obj)
        if tv is not None:
            return self.tensor_store(tv, idx, v, st, aug)
        self.ev("subscript_store_unknown", st)
        return None

    def current_loop_order(self, env):
        return None

    def loops_run_to_the_end(self, lids) -> bool:
        """None of the loops `lids` can be left before its last element (no break of that loop, no return inside it): only then is a sum accumulated
        over its iterations a sum over ALL the rows."""
        for lid in lids:
            st = getattr(self, "loop_stmts", {}).get(lid)
            if st is None or not isinstance(st, (ast.For, ast.While)):
                continue
            todo = [(x, 0) for x in st.body]
            while todo:
                x, depth = todo.pop()
                if isinstance(x, (ast.FunctionDef, ast.AsyncFunctionDef, ast.Lambda, ast.ClassDef)):
                    continue
                if isinstance(x, ast.Return) or (isinstance(x, ast.Break) and depth == 0):
                    return False
                inner = depth + 1 if isinstance(x, (ast.For, ast.While)) else depth
                for f_, v_ in ast.iter_fields(x):
                    kids = v_ if isinstance(v_, list) else [v_]
                    for k_ in kids:
                        if isinstance(k_, ast.AST):
                            # the `else` block of an inner loop belongs to the enclosing level
                            todo.append((k_, depth if f_ == "orelse" and isinstance(x, (ast.For, ast.While)) else inner))
        return True

    def in_abstract_body_since(self, d) -> bool:
        """True when an abstract loop was entered after the dictionary was created (then a store may execute any number of times)."""
        return d.born >= 0 and self.interp.join_depth > d.born

    def augassign(self, cur, op, rhs, st, env):
        tcur = tv_of(cur)
        if isinstance(cur, (DictV,)) or (isinstance(cur, ObjV) and cur.payload is not None):
            if isinstance(op, ast.BitOr):
                r = self.dict_union(cur, rhs, st)
                if isinstance(cur, ObjV):
                    self.ev("dict_ior", st)
                    cur.payload = r if isinstance(r, DictV) else cur.payload
                    return cur
                return r
        if isinstance(cur, SetV):
            return self.set_binop(cur, op, rhs, st)
        if isinstance(cur, ListV) and isinstance(op, ast.Add) and isinstance(rhs, ListV):
            return self.concat_lists(cur, rhs, st)
        new = self.interp.binop(cur, op, rhs, st, env)
        if tcur is not None and not tcur.is_py and isinstance(new, TV):
            # in-place on a tensor / array: the target keeps its identity
            trhs = tv_of(rhs)
            self.ev("inplace", st, alias=tcur.alias, target=norm_text(st.target), op=type(op).__name__, rhs_origin=sorted(trhs.origin) if trhs is not None else None,
                    over_loop_index=bool(trhs is not None and trhs.gen - tcur.gen), target_poly=repr(tcur.poly) if tcur.poly is not None else None, target_axes=list(tcur.axes))
            gen = new.gen
            p = new.p
            if isinstance(op, ast.Add) and trhs is not None and trhs.gen - tcur.gen and self.loops_run_to_the_end(trhs.gen - tcur.gen):
                # symmetric accumulation over a generic row index
                gen = tcur.gen
            new = new.but(alias=tcur.alias, gen=gen, p=p, dtype=tcur.dtype if tcur.kind == "tensor" and new.dtype in ("Mixed", "Cfg", "M") and tcur.dtype in ("M", "Cfg") else new.dtype)  # an in-place operation never changes the dtype of its target
        elif tcur is not None and isinstance(new, TV) and isinstance(op, ast.Add):
            trhs = tv_of(rhs)
            if trhs is not None and trhs.gen - tcur.gen and self.loops_run_to_the_end(trhs.gen - tcur.gen):
                new = new.but(gen=tcur.gen)
        return new

    # placeholders overridden by TorchOps ---------------------------------------------------------
    def matmul(self, a, b, node):
        return self.unk("matmul", node)

    def tensor_store(self, tv, idx, v, st, aug):
        return None

    def index_axis(self, tv, axis, idx, node, generic):
        return tv

    def subscript(self, base, idx, node, env):
        return self.unk("subscript", node)

    def obj_attr(self, obj, attr, node, env):
        return ExtMethodV(obj, attr)

    def class_attr(self, cv, attr, node, env):
        if attr == "mro":
            return ExtMethodV(cv, attr)
        return self.unk(f"class attribute {attr}", node)

    def ext_attr(self, base: ExtV, attr, node, env):
        return ExtV(base.name + "." + attr)

    def value_attr(self, base, attr, node, env):
        return ExtMethodV(base, attr)

    def call_object(self, f, args, kwargs, node, env):
        return self.unk("call of object", node)

    def call_other(self, f, args, kwargs, node, env):
        return self.unk(f"call of {type(f).__name__}", node)

    def ext_init(self, obj, cls, args, kwargs, node, env):
        return None
