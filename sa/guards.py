"""Propositional reading of branch guards: which truth assignments of the atomic conditions are compatible with taking
a given edge of a (possibly negated / and-or combined) test. Used wherever a rule asks "on which side of the test does
this statement sit", so that `if c: A else: B` and `if not c: B else: A` (and De Morgan forms) are read alike."""

from __future__ import annotations

import ast
import itertools

from .report import norm_text


def _eval(t, assign, classify):
    if isinstance(t, ast.BoolOp):
        vals = [_eval(v, assign, classify) for v in t.values]
        return all(vals) if isinstance(t.op, ast.And) else any(vals)
    if isinstance(t, ast.UnaryOp) and isinstance(t.op, ast.Not):
        return not _eval(t.operand, assign, classify)
    if isinstance(t, ast.Constant) and isinstance(t.value, bool):
        return t.value
    if isinstance(t, ast.Compare) and len(t.ops) > 1:
        # a < b < c  ==  a < b and b < c
        parts, left = [], t.left
        for op, right in zip(t.ops, t.comparators):
            parts.append(ast.Compare(left=left, ops=[op], comparators=[right]))
            left = right
        return all(_eval(p, assign, classify) for p in parts)
    var, pos = _atom(t, classify)
    return assign[var] if pos else not assign[var]


def _atom(t, classify):
    c = classify(t)
    if c is not None:
        return c
    return ("free:" + norm_text(t), True)


def atoms(t, classify, out=None):
    out = set() if out is None else out
    if isinstance(t, ast.BoolOp):
        for v in t.values:
            atoms(v, classify, out)
    elif isinstance(t, ast.UnaryOp) and isinstance(t.op, ast.Not):
        atoms(t.operand, classify, out)
    elif isinstance(t, ast.Constant) and isinstance(t.value, bool):
        pass
    elif isinstance(t, ast.Compare) and len(t.ops) > 1:
        left = t.left
        for op, right in zip(t.ops, t.comparators):
            atoms(ast.Compare(left=left, ops=[op], comparators=[right]), classify, out)
            left = right
    else:
        out.add(_atom(t, classify)[0])
    return out


def feasible(guards, classify, domain=None, extra_vars=()):
    """guards: [(test expression, outcome bool)]. Returns the list of assignments (dict var -> bool) of the atoms that
    satisfy every guard and the domain constraint."""
    vs = set(extra_vars)
    for t, _ in guards:
        atoms(t, classify, vs)
    vs = sorted(vs)
    if len(vs) > 12:
        return None
    out = []
    for bits in itertools.product((False, True), repeat=len(vs)):
        a = dict(zip(vs, bits))
        if domain is not None and not domain(a):
            continue
        if all(_eval(t, a, classify) == lbl for t, lbl in guards):
            out.append(a)
    return out


def implies(guards, classify, var, value, domain=None):
    """True iff the edge conditions are satisfiable and force `var` == value."""
    f = feasible(guards, classify, domain, extra_vars=(var,))
    if not f:
        return False
    return all(a[var] == value for a in f)


def cfg_guards(cfg, node):
    """[(test expr, outcome)] of the If/While/IfExp tests guarding a CFG node."""
    out = []
    for t, lbl in cfg.guards_of(node):
        if t.kind == "test" and hasattr(t.ast, "test") and lbl in ("True", "False"):
            out.append((t.ast.test, lbl == "True"))
    return out


# ---- comparison normalisation ------------------------------------------------------------------------------------
FLIP = {ast.Lt: ast.Gt, ast.Gt: ast.Lt, ast.LtE: ast.GtE, ast.GtE: ast.LtE, ast.Eq: ast.Eq, ast.NotEq: ast.NotEq, ast.Is: ast.Is, ast.IsNot: ast.IsNot}


def oriented(cmp: ast.Compare, is_subject):
    """(subject expr, op type, other expr) with the subject on the left, or None. `is_subject(expr) -> bool`."""
    if not (isinstance(cmp, ast.Compare) and len(cmp.ops) == 1):
        return None
    l, op, r = cmp.left, type(cmp.ops[0]), cmp.comparators[0]
    if is_subject(l):
        return l, op, r
    if is_subject(r) and op in FLIP:
        return r, FLIP[op], l
    return None


def path_guards(cfg, path, rewrite=None):
    """[(test expr, outcome)] of the tests taken along one CFG path (list of nodes); `rewrite` may normalise each test."""
    out = []
    for a, b in zip(path, path[1:]):
        if a.kind == "test" and hasattr(a.ast, "test"):
            lbl = next((l for m_, l in cfg.succ[a] if m_ is b), None)
            if lbl in ("True", "False"):
                out.append((rewrite(a.ast.test) if rewrite else a.ast.test, lbl == "True"))
    return out
