"""Shared driver of the aggregator type-system checks (C03, C05, C08, C10, C11, C16, C18)."""

from __future__ import annotations

from fractions import Fraction

from .. import AnalysisError
from ..aggtyping import AggAnalysis, ForwardRun, matrix_value, registry
from ..values import TV, Unk, Z

_CACHE: dict = {}

# property-level names -> class names in the registry
NAMES = {"IMTL-G": "IMTLG", "Aligned-MTL": "AlignedMTL", "Trimmed Mean": "TrimmedMean", "Nash-MTL": "NashMTL"}

TRUSTED = [
    "operator table /verif/sa/{ops,torchops,torchcalls,torchlib}.py: axis tags, equivariance flags, scaling degrees, dtypes of ~120 torch/numpy/cvxpy/qpsolvers operators",
    "contraction of two equal-tag axes is invariant under the group acting on that tag; L2 norm/cdist(p=2) over the column axis are orthogonally invariant",
    "svd/eigh return (U,S,V)/(lambda,V) with position-indexed spectral axes; pinv transposes tags and negates the scaling degree",
    "solve_qp / cvxpy return the unique optimum, equivariant when all problem data are",
    "nan_to_num is the identity on finite values",
]
ASSUMPTIONS = [
    "no exact ties at argmin/argsort/topk along the row axis (the property's own proviso)",
    "unique optimum of the QP / conic programs; numerically unambiguous rank for pinv/eigh based aggregators",
    "a user-supplied GradDrop.f is a deterministic element-wise function",
    "configured per-objective vectors (pref_vector, Constant.weights, GradDrop.leak) are permuted together with the rows and have the dtype of the matrices they are used with",
]


def analysis(index):
    """AggAnalysis with all registry classes (except the stateful NashMTL) interpreted, cached per index."""
    key = id(index)
    if key not in _CACHE:
        _CACHE.clear()
        A = AggAnalysis(index)
        by_class = {}
        for cls in registry(index):
            if cls.name == "NashMTL":
                continue
            by_class[cls.name] = A.analyse_class(cls)
        _CACHE[key] = (A, by_class)
    return _CACHE[key]


def classes_named(index, names, ctx, rule):
    A, by_class = analysis(index)
    out = []
    for n in names:
        cn = NAMES.get(n, n)
        if cn not in by_class:
            raise AnalysisError(f"anchor vanished: aggregator {cn} named by the property is not in the registry")
        out.append(cn)
    return out


def weighting_of(index, agg_name: str):
    """The weighting class an aggregator is built on, found by construction: the subclass of the weighting base that the
    aggregator's module defines and its __init__ instantiates (whatever it is called)."""
    import ast

    cls = next((c for c in index.classes.values() if c.name == agg_name and c.module.name.startswith("torchjd.aggregation")), None)
    if cls is None:
        return None
    wbase = index.find_class("torchjd.aggregation.bases._Weighting")
    ini = cls.methods.get("__init__")
    made = []
    if ini is not None:
        for n in ast.walk(ini.node):
            if isinstance(n, ast.Call) and isinstance(n.func, ast.Name):
                c = index.resolve_name(cls.module, n.func.id)
                if hasattr(c, "mro") and (wbase is None or wbase in c.mro) and c.module is cls.module:
                    made.append(c)
            elif isinstance(n, ast.Call) and isinstance(n.func, ast.Attribute) and isinstance(n.func.value, ast.Name):
                # an alternative constructor: `_Wrapper.from_pref_vector(...)`
                c = index.resolve_name(cls.module, n.func.value.id)
                if hasattr(c, "mro") and (wbase is None or wbase in c.mro) and c.module is cls.module and n.func.attr in getattr(c, "methods", {}):
                    made.append(c)
    return made[0] if len({id(c) for c in made}) == 1 else None


def weighted_base(index):
    """The common base of the weighting-based aggregators (`_WeightedAggregator` today): the class of the bases module that the
    public aggregator Mean derives from directly."""
    mean = next((c for c in index.classes.values() if c.name == "Mean" and c.module.name.startswith("torchjd.aggregation")), None)
    if mean is None:
        raise AnalysisError("anchor vanished: aggregator Mean")
    for c in mean.mro[1:]:
        if c.module.name.endswith("aggregation.bases") and c.name != "Aggregator":
            return c
    raise AnalysisError("anchor vanished: the base class of the weighting-based aggregators")


def in_weighting(e, wcls, method="forward") -> bool:
    """The event belongs to the weighting's computation: emitted in a method of the weighting class (forward or a helper method
    it calls) or in a module-level function of the module that defines it (an extracted helper)."""
    if wcls is None:
        return False
    f = e["function"]
    if f.startswith(wcls.qualname + "."):
        return True
    mod = wcls.module.name
    return f.startswith(mod + ".") and "." not in f[len(mod) + 1:]


def returning(run: ForwardRun):
    return [r for r in run.results if r.kind == "return"]


def path_key(cls_name, run, res) -> str:
    return f"{cls_name}({run.label}).forward path[{res.describe_path()}]"


def clears(res, flag):
    return [e for e in res.events if e["kind"] == "clear" and e.get("flag") == flag]


def first_clear_text(res, flag) -> tuple[str, str]:
    cs = clears(res, flag)
    if not cs:
        return "", ""
    e = cs[0]
    return f"{e['function'].split('.')[-2] if '.' in e['function'] else ''}.{e['function'].split('.')[-1]}: {e['text']}", f"{e['loc']}: {e['why']} in `{e['text']}`"


def blocking_unknowns(res):
    return [e for e in res.events if e["kind"] in ("unknown", "unknown_call", "no_fixpoint", "lost_mutation")]


def check_flag(ctx, rule, cls_name, run, res, flag_names, want_axes=("C",), extra=""):
    """One obligation: the value returned on this path has the required axes and flags."""
    v = res.value
    key = f"{cls_name}({run.label}) returns on [{res.describe_path()}]"
    loc = run.cls.loc()
    unk = blocking_unknowns(res)
    if not isinstance(v, TV):
        ctx.undecided(rule, key, f"returned value not typed: {v!r}; unknowns: " + "; ".join(f"{e['loc']} {e.get('why','')}" for e in unk[:3]), loc)
        return
    if unk:
        ctx.undecided(rule, key, "operator(s) outside the table on this path: " + "; ".join(f"{e['loc']} {e.get('why','')} `{e['text']}`" for e in unk[:3]), loc)
        return
    bad = []
    if tuple(v.axes) != tuple(want_axes):
        bad.append(f"axes {v.axes} instead of {want_axes}")
    for f in flag_names:
        if not getattr(v, f) or not res.trace.taint.get(f, True):
            t, why = first_clear_text(res, f)
            bad.append(f"not {FLAG_TEXT[f]}" + (f" — {why}" if why else ""))
            if t:
                key = f"{cls_name}: {t}"
                loc = why.split(":")[0] + ":" + why.split(":")[1] if why.count(":") >= 2 else loc
    if bad:
        ctx.violated(rule, key, "; ".join(bad) + extra, loc, derivation={"returned": v.short(), "path": res.describe_path()})
    else:
        ctx.ok(rule, key, f"returned {v.short()}", loc, derivation={"returned": v.short(), "path": res.describe_path(),
                                                                    "ops": [e.get("op") for e in res.events if e["kind"] == "op"][:40]})


FLAG_TEXT = {
    "p": "equivariant under row permutations",
    "q": "equivariant under orthogonal column maps (not a function of J·Jᵀ and linear carry only)",
    "s": "equivariant under column permutations",
    "z": "equivariant under appending all-zero columns",
    "span": "a linear combination of the rows of the matrix",
}


def common_evidence(ctx, index):
    A, by_class = analysis(index)
    ctx.analysed(*sorted(A.interp.functions_entered))
    ctx.call_sites += len(A.interp.calls_made)
    ctx.paths += sum(len(r.results) for runs in by_class.values() for r in runs)
    ctx.trusted_base = list(TRUSTED)
    ctx.assumptions = list(ASSUMPTIONS)
    ctx.extra["classes_variants"] = {k: [r.label for r in v] for k, v in by_class.items()}
