"""C06 — gradients accumulate; nothing but the requested .grad fields is touched (DESIGN.md 5/C06).
Ownership / effect property, decided modulo torch internals and the documented retain_grad() exclusion."""

from __future__ import annotations

import ast

from ..cfg import cfg_of, own_exprs
from ..report import norm_text
from . import _layout, _pipe

FORBIDDEN_METHODS = {"backward", "retain_grad", "requires_grad_", "register_hook", "register_post_accumulate_grad_hook", "detach_", "zero_", "set_", "copy_", "fill_"}


def grad_writer_sites(index):
    """Syntactic .grad writers in the whole package: (FunctionInfo|None, node, how)."""
    out = []
    for m in index.modules.values():
        for fn in [f for f in index.functions.values() if f.module is m]:
            for n in ast.walk(fn.node):
                if index.function_of_node(n) not in (None, fn) and isinstance(n, ast.FunctionDef):
                    continue
                tg = []
                if isinstance(n, ast.Assign):
                    tg = [(t, "store") for t in n.targets]
                elif isinstance(n, ast.AugAssign):
                    tg = [(n.target, "augmented")]
                elif isinstance(n, ast.Delete):
                    tg = [(t, "delete") for t in n.targets]
                for t, how in tg:
                    for e in (t.elts if isinstance(t, (ast.Tuple, ast.List)) else [t]):
                        if isinstance(e, ast.Attribute) and e.attr == "grad":
                            out.append((fn, n, how))
                if isinstance(n, ast.Call) and isinstance(n.func, ast.Name) and n.func.id in ("setattr", "delattr") and len(n.args) >= 2 \
                        and isinstance(n.args[1], ast.Constant) and n.args[1].value == "grad":
                    out.append((fn, n, "setattr"))
    # de-duplicate (nested functions are walked by their parents too)
    seen, res = set(), []
    for fn, n, how in out:
        if id(n) not in seen:
            seen.add(id(n))
            res.append((fn, n, how))
    return res


def check(index, ctx):
    ctx.rule("R0", "every non-empty returning path of backward/mtl_backward writes the .grad of each requested collection (created when absent, added to otherwise); "
             "requested collections given as one-shot iterables are materialised before any other traversal")
    ctx.rule("R1", "who may write .grad: every syntactic writer of an attribute named grad in the package is reached by the abstract runs of backward/mtl_backward only with targets "
             "in the requested collections (inputs / task parameters / shared parameters)")
    ctx.rule("R2", "no other autograd side effect: Tensor.backward / torch.autograd.backward / retain_grad / requires_grad_ / register_hook are never called in autojac")
    ctx.rule("R3", "accumulate, do not replace: in the writer, every iteration executes exactly one .grad write; where a .grad exists the write is an in-place add, otherwise a plain store")
    ctx.rule("R4", "fresh memory: the value of every plain store to .grad is freshly allocated (clone), never a view of the aggregated vector or a tensor returned by autograd")
    ctx.rule("R5", "no mutation of user tensors: every in-place operation executed by the pipeline targets a locally created value; the .grad += of R3 is the single exception")
    P, rs = _pipe.runs(index)
    sites = grad_writer_sites(index)
    ctx.floor(".grad writer sites in the package", len(sites), 1)
    reached: dict = {}
    n_w = 0
    for run in rs:
        want = {"inputs" if run.variant.get("inputs") else "leaves(tensors)"} if run.entry == "backward" else \
            {"tasks_params[i]" if run.variant["tasks"] else "leaves(losses[i]\\features)", "shared_params" if run.variant["shared"] else "leaves(features)"}
        for res in run.results:
            gw = _pipe.evs(res, "grad_write")
            for e in gw:
                n_w += 1
                reached.setdefault((e["loc"]), set()).update(e["target"])
                ok = set(e["target"]) <= want
                ctx.require(ok, "R1", f"{run.label}: .grad write at {_layout.short_fn(e)} targets {e['target']}" if ok else f"{run.entry}: {_layout.key(e)} writes .grad of {e['target']}",
                            "target within the requested collections", f".grad of {e['target']} is written although only {sorted(want)} were requested", e["loc"], nontrivial=False)
                vd, td_ = e.get("value_dtype"), e.get("target_dtype")
                if vd and td_ and not e["aug"] and not _pipe.is_empty_path(res) and vd not in (td_, "dt:=key") and _pipe.blocking(res):
                    b_ = _pipe.blocking(res)[0]
                    ctx.undecided("R4", f"{run.entry}: dtype of the value stored in .grad of {e['target']}", f"the value's provenance passes through a construct outside the analysed subset: {b_['loc']} `{b_['text']}`", e["loc"])
                elif vd and td_ and not e["aug"] and not _pipe.is_empty_path(res):
                    ctx.require(vd in (td_, "dt:=key"), "R4", f"{_layout.short_fn(e)}: dtype of the value stored in .grad" if vd in (td_, "dt:=key") else f"{run.entry}: .grad of {e['target']} receives a tensor of another dtype",
                                f"value dtype {vd} = parameter dtype", f"the stored tensor's dtype follows {vd} while the parameter's dtype is {td_}: when outputs and parameters have different dtypes "
                                "the assignment fails or silently changes precision (and the result depends on which code path produced the tensor)", e["loc"], nontrivial=False)
                if e["value_is_none"]:
                    ctx.violated("R3", f"{_layout.key(e)} resets .grad", ".grad is set to None", e["loc"])
                if e.get("maybe_copy"):
                    ctx.violated("R3", f"{_layout.key(e)} accumulates into a possible copy of .grad",
                                 f"`{e['text'][:80]}` adds in place to the result of flatten()/reshape()/contiguous() of the existing .grad: that is the field's own storage only when it is contiguous — "
                                 "for a non-contiguous .grad (e.g. one created as a transposed view) the sum lands in a temporary copy and the update of that parameter is lost", e["loc"])
                if not e["aug"]:
                    ctx.require(bool(e["fresh"]), "R4", _layout.key(e), "value is freshly allocated",
                                f"`{e['text']}` stores a tensor that is not freshly allocated (origin {e['value_origin']}): the new .grad shares memory with the aggregated vector / "
                                "with another parameter's .grad, so a later in-place edit of one changes the other", e["loc"])
            if res.kind == "return" and not _pipe.blocking(res):
                # every requested collection that this path did not find empty receives its update (an early exit taken because ANOTHER collection is
                # empty must not skip it)
                written = {a for e in gw for a in e["target"]}
                empties = _pipe.empty_atoms(res)
                miss = sorted(a for a in want - written if a not in empties and (a != "tasks_params[i]" or "tasks_params" not in empties))
                ctx.require(not miss, "R0", f"{run.label}: every requested collection receives its update on path[{res.describe_path()[-60:]}]" if not miss else
                            f"{run.entry}: a returning call leaves the .grad of {miss} untouched", "all requested collections written",
                            f"path [{res.describe_path()[-120:]}] returns without creating/adding to the .grad of the requested {miss}", "")
            if res.kind == "return" and gw and not _pipe.blocking(res):
                for tgt in sorted({tuple(e["target"]) for e in gw}):
                    es = [e for e in gw if tuple(e["target"]) == tgt]
                    has_aug = any(e["aug"] for e in es)
                    ctx.require(has_aug, "R3", f"{run.label}: existing .grad of {list(tgt)} is added to in place" if has_aug else f"{run.entry}: .grad of {list(tgt)} is replaced instead of accumulated in place",
                                "an in-place `+=` on the branch where .grad exists", "no in-place accumulation into an existing .grad: the field is re-bound to a new tensor "
                                "(storage pointer changes on every call; aliasing with tensors held elsewhere)", es[0]["loc"])
            # R2 / R5 effects
            for e in res.events:
                if e["kind"] == "autograd" and e["fn"] == "backward":
                    ctx.violated("R2", _layout.key(e), "torch.autograd.backward populates .grad of every leaf of the graph", e["loc"])
                if e["kind"] == "autograd_state":
                    ctx.violated("R2", _layout.key(e), f"`{e.get('what')}` changes autograd state / .grad of a user tensor", e["loc"])
                if e["kind"] in ("tensor_attr_write", "setattr"):
                    ctx.violated("R5", _layout.key(e), "attribute of a user tensor is written", e["loc"])
                if e["kind"] == "inplace" and "seq" in e:
                    allowed = e.get("target_note") == "grad-field" or (not e.get("alias") and e.get("target_note") not in ("key", "optional"))
                    ctx.require(allowed, "R5", _layout.key(e), "in-place on the designated .grad accumulator or a local value",
                                f"in-place operation `{e['text']}` on a user tensor / a tensor returned by autograd (note={e.get('target_note')}, origin={e.get('target_origin')})", e["loc"],
                                nontrivial=e.get("target_note") != "grad-field")
    for fn, n, how in sites:
        loc = fn.loc(n)
        k = f"{fn.short}: {norm_text(n)}"
        if how in ("delete",):
            ctx.violated("R1", k, ".grad is deleted", loc)
        elif loc in reached:
            ctx.ok("R1", k, f"reached by the abstract runs with targets {sorted(reached[loc])}", loc)
        else:
            ctx.undecided("R1", k, "a .grad writer that the abstract runs of backward/mtl_backward never reach", loc)
    # R3 on the CFG of each writer function
    for fn in {f.qualname: f for f, _, _ in sites}.values():
        cfg = cfg_of(fn.node)
        wnodes = [n for n in cfg.stmt_nodes() if any(n.ast is s for _, s, _ in sites)]
        paths = cfg.acyclic_paths()
        ctx.paths += len(paths)
        counts = sorted({sum(1 for n in p if n in wnodes) for p in paths})
        ctx.require(set(counts) <= {0, 1} and 1 in counts, "R3", f"{fn.short}: one .grad write per key", f"writes per path through one iteration: {counts}",
                    f"{counts} .grad writes on a single pass through the loop body", fn.loc())
        # ... and no iteration of the loop over the keys goes round without one: `if <something about the value>: continue` before the write leaves
        # the .grad of a requested tensor neither created nor updated
        # in-place updates of an existing .grad count as writes here: `x.grad.add_(v)`, `g = x.grad ... g.add_(v)` / `g += v`, `torch.add(..., out=x.grad)`
        def _is_grad(e_, al_):
            if isinstance(e_, ast.NamedExpr):
                e_ = e_.value
            return (isinstance(e_, ast.Attribute) and e_.attr == "grad") or (isinstance(e_, ast.Name) and e_.id in al_) or \
                (isinstance(e_, ast.Call) and isinstance(e_.func, ast.Name) and e_.func.id == "getattr" and len(e_.args) >= 2
                 and isinstance(e_.args[1], ast.Constant) and e_.args[1].value == "grad")
        al_ = set()
        for a_ in ast.walk(fn.node):
            if isinstance(a_, ast.Assign) and len(a_.targets) == 1 and isinstance(a_.targets[0], ast.Name) and _is_grad(a_.value, ()):
                al_.add(a_.targets[0].id)
            elif isinstance(a_, ast.NamedExpr) and isinstance(a_.target, ast.Name) and _is_grad(a_.value, ()):
                al_.add(a_.target.id)
        def _updates(st_):
            for x_ in ast.walk(st_):
                if isinstance(x_, ast.Call) and isinstance(x_.func, ast.Attribute) and x_.func.attr.endswith("_") and not x_.func.attr.endswith("__") and _is_grad(x_.func.value, al_):
                    return True
                if isinstance(x_, ast.Call) and any(k_.arg == "out" and _is_grad(k_.value, al_) for k_ in x_.keywords):
                    return True
                if isinstance(x_, ast.AugAssign) and isinstance(x_.target, ast.Name) and x_.target.id in al_:
                    return True
            return False
        unodes = wnodes + [n for n in cfg.stmt_nodes() if n not in wnodes and n.kind == "stmt" and n.ast is not None and isinstance(n.ast, (ast.Expr, ast.AugAssign, ast.Assign)) and _updates(n.ast)]
        for ln in [n for n in cfg.nodes if n.kind == "for" and any(any(w.ast is x for x in ast.walk(n.ast)) for w in wnodes)]:
            seen_, todo_ = set(), [m for m, _ in cfg.succ[ln] if m.ast is not None and any(m.ast is x for b_ in ln.ast.body for x in ast.walk(b_))]
            skipping = None
            while todo_:
                c_ = todo_.pop()
                if c_ in seen_ or c_ in unodes:
                    continue
                seen_.add(c_)
                for m, lbl in cfg.succ[c_]:
                    if m is ln:
                        skipping = c_
                    elif m.ast is not None and any(m.ast is x for b_ in ln.ast.body for x in ast.walk(b_)):
                        todo_.append(m)
            ctx.require(skipping is None, "R3", f"{fn.short}: every iteration over the keys writes a .grad", "no path through the loop body avoids the write",
                        f"an iteration can reach the next one without any .grad write (through `{norm_text(skipping.ast)[:60] if skipping is not None and skipping.ast is not None else ''}`): for such a key "
                        "the .grad is neither created nor added to although the tensor was requested", fn.loc(skipping.ast) if skipping is not None and skipping.ast is not None else fn.loc())
        for w in wnodes:
            from ..guards import cfg_guards, implies

            tgt = w.ast.target if isinstance(w.ast, ast.AugAssign) else w.ast.targets[0]
            owner = norm_text(tgt.value) if isinstance(tgt, ast.Attribute) else None

            # locals holding the current .grad (`g = key.grad`, `(g := getattr(key, "grad", None))`), bound once in the function
            grad_aliases = {}
            for a_ in ast.walk(fn.node):
                tn, val = None, None
                if isinstance(a_, ast.Assign) and len(a_.targets) == 1 and isinstance(a_.targets[0], ast.Name):
                    tn, val = a_.targets[0].id, a_.value
                elif isinstance(a_, ast.NamedExpr) and isinstance(a_.target, ast.Name):
                    tn, val = a_.target.id, a_.value
                if isinstance(val, ast.IfExp) and norm_text(val.body) == f"{owner}.grad" and isinstance(val.orelse, ast.Constant) and val.orelse.value is None \
                        and norm_text(val.test).replace('"', "'") == f"hasattr({owner}, 'grad')":
                    val = ast.parse(f"getattr({owner}, 'grad', None)", mode="eval").body  # `x.grad if hasattr(x, "grad") else None`
                if tn is not None and (norm_text(val) == f"{owner}.grad" or norm_text(val).replace('"', "'") == f"getattr({owner}, 'grad', None)"):
                    n_binds = sum(1 for x in ast.walk(fn.node) if isinstance(x, ast.Name) and x.id == tn and isinstance(x.ctx, ast.Store))
                    if n_binds == 1:
                        grad_aliases[tn] = val

            def classify(t, owner=owner):
                """E = '<owner>.grad exists (is a tensor)', H = 'hasattr(<owner>, "grad")'."""
                if isinstance(t, ast.Compare) and len(t.ops) == 1 and isinstance(t.ops[0], (ast.Is, ast.IsNot)):
                    a, b = t.left, t.comparators[0]
                    if isinstance(a, ast.Constant) and a.value is None:
                        a, b = b, a
                    if isinstance(b, ast.Constant) and b.value is None:
                        if isinstance(a, ast.NamedExpr):
                            a = a.value  # `(g := key.grad) is None` asks about key.grad
                        elif isinstance(a, ast.Name) and a.id in grad_aliases:
                            a = grad_aliases[a.id]
                        txt = norm_text(a)
                        if txt == f"{owner}.grad" or txt.replace('"', "'") == f"getattr({owner}, 'grad', None)":
                            return ("E", isinstance(t.ops[0], ast.IsNot))
                if isinstance(t, ast.Call) and isinstance(t.func, ast.Name) and t.func.id == "hasattr" and len(t.args) == 2 and norm_text(t.args[0]) == owner \
                        and isinstance(t.args[1], ast.Constant) and t.args[1].value == "grad":
                    return ("H", True)
                return None

            domain = lambda a: (not a.get("E", False)) or a.get("H", True)  # a .grad that exists is an attribute
            gs = cfg_guards(cfg, w)
            exists_true = implies(gs, classify, "E", True, domain)
            exists_false = implies(gs, classify, "E", False, domain)
            if isinstance(w.ast, ast.AugAssign):
                ctx.require(exists_true and isinstance(w.ast.op, ast.Add), "R3", f"{fn.short}: {norm_text(w.ast)}", "in-place add where a .grad exists",
                            "augmented write is not an add guarded by `.grad is not None`", fn.loc(w.ast))
            else:
                ctx.require(exists_false, "R3", f"{fn.short}: {norm_text(w.ast)}", "plain store only where no .grad exists",
                            f"plain store `{norm_text(w.ast)}` is not confined to the branch where no .grad exists: an existing .grad would be replaced, not accumulated", fn.loc(w.ast))
    # R2 syntactic scan of autojac
    n_calls = 0
    for fi in index.all_functions("torchjd.autojac"):
        for n in ast.walk(fi.node):
            if isinstance(n, ast.Call):
                n_calls += 1
                f = n.func
                name = f.attr if isinstance(f, ast.Attribute) else (f.id if isinstance(f, ast.Name) else "")
                full = norm_text(f)
                if name in ("retain_grad", "requires_grad_", "register_hook") or full.endswith("autograd.backward") or (name == "backward" and isinstance(f, ast.Attribute) and full != "torchjd.backward"):
                    ctx.violated("R2", f"{fi.short}: {norm_text(n)[:80]}", f"call of `{full}` in autojac", fi.loc(n))
    ctx.call_sites += n_calls
    ctx.ok("R2", "autojac: forbidden autograd APIs", f"{n_calls} call sites scanned, none is backward/retain_grad/requires_grad_/register_hook", "", nontrivial=False)
    from .C01 import single_pass_rule, unfiltered_rule

    for q in ("torchjd.autojac.backward.backward", "torchjd.autojac.mtl_backward.mtl_backward"):
        single_pass_rule(ctx, index, "R0", index.get_function(q))
        unfiltered_rule(ctx, index, "R0", index.get_function(q))
    ctx.floor(".grad write events observed", n_w, 10)
    _pipe.common_evidence(ctx, index)
    ctx.assumptions += ["torch.autograd.grad itself has no .grad side effect (graphs without retain_grad() tensors: documented limitation)",
                        "the key check of Transform.__call__ (C14 R1) guarantees that Accumulate only sees its required keys"]
