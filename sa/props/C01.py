"""C01 — backward() deposits the aggregation of the true Jacobian into .grad: pipeline shape, order/layout coherence,
zero materialisation, single-pass iterables (DESIGN.md 5/C01).  Numerical values are NOT decided."""

from __future__ import annotations

import ast

from .. import AnalysisError
from ..report import norm_text
from . import _inst, _layout, _pipe


def atoms_of_desc(d):
    return d.get("atoms") if isinstance(d, dict) else None


def stage_rule(ctx, run, res, rule, rows_atom, cols_atom, entry_fn):
    """The stages executed on one main path, in order: ones -> diag -> autograd* -> aggregator -> .grad writes."""
    key = f"{run.label} path[{res.describe_path()[-120:]}]"
    blk = _pipe.blocking(res)
    if blk:
        ctx.undecided(rule, key, "constructs outside the analysed subset: " + "; ".join(f"{e['loc']} {e.get('why', e.get('name', ''))} `{e['text']}`" for e in blk[:3]), entry_fn.loc())
        return False
    ag = _pipe.evs(res, "autograd")
    agg = _pipe.evs(res, "aggregator_call")
    for _b in _pipe.evs(res, "aggregator_bypass"):
        ctx.violated("R1", f"{_layout.short_fn(_b)}: aggregator applied through forward()", "the aggregator's forward() is called directly instead of aggregator(matrix): hooks registered on the aggregator (nn.Module.__call__) are skipped, so what is deposited is not aggregator(J)", _b["loc"])
    gw = _pipe.evs(res, "grad_write")
    problems = []
    if not ag:
        problems.append("no differentiation happens on this path")
    for e in ag:
        if atoms_of_desc(e["outputs"]) != [rows_atom]:
            problems.append(f"{e['loc']}: autograd.grad differentiates {atoms_of_desc(e['outputs'])}, expected [{rows_atom}]")
        if atoms_of_desc(e["inputs"]) != [cols_atom]:
            problems.append(f"{e['loc']}: autograd.grad differentiates w.r.t. {atoms_of_desc(e['inputs'])}, expected [{cols_atom}]")
        if isinstance(e["outputs"], dict) and isinstance(e["grad_outputs"], dict) and e["outputs"]["order"] != e["grad_outputs"]["order"]:
            problems.append(f"{e['loc']}: outputs are in order {e['outputs']['order']} but their cotangents in order {e['grad_outputs']['order']}")
    for e in _pipe.evs(res, "len_of_key"):
        if e["function"].split(".")[-1] in ("backward", "mtl_backward"):
            problems.append(f"{e['loc']}: `{e['text'][:50]}` takes len() of a tensor the caller passed ({e['origin']}) before it was normalised to a list: a single 0-d tensor (a scalar loss passed "
                            "directly) makes the call raise TypeError")
    for e in _pipe.evs(res, "dtype_cast"):
        if e.get("to") in ("Default",) or str(e.get("to", "")).startswith("Fixed:"):
            problems.append(f"{e['loc']}: `{e['text'][:70]}` converts a gradient / the Jacobian / the aggregated vector from its own dtype to {e['to']}: in a float64 program the deposited update is "
                            "computed from values rounded to that dtype (and the aggregator sees a matrix of another dtype than the parameters)")
    if len(agg) != 1:
        problems.append(f"the aggregator is applied {len(agg)} times on this path (expected exactly once, to the united Jacobian)")
    if not gw:
        problems.append("no .grad is written on this path")
    if agg and ag and gw:
        if not (max(e["seq"] for e in ag) < agg[0]["seq"] < min(e["seq"] for e in gw)):
            problems.append("stages are not ordered differentiate -> aggregate -> accumulate")
        if cols_atom not in (agg[0]["column_layout"] or ""):
            problems.append(f"the aggregated matrix's columns are laid out as {agg[0]['column_layout']}, not over [{cols_atom}]")
    for e in gw:
        if e["target"] != [cols_atom]:
            problems.append(f"{e['loc']}: .grad written on {e['target']}, expected only [{cols_atom}]")
    ctx.require(not problems, rule, key if not problems else f"{run.entry}: pipeline stages ({problems[0][:90]})",
                f"{len(ag)} autograd sweeps -> 1 aggregation -> {len(gw)} .grad write sites", "; ".join(problems[:4]), entry_fn.loc(),
                derivation={"autograd": len(ag), "aggregator": len(agg), "grad_writes": len(gw)})
    return not problems


def cotangent_rule(ctx, res, rule, rows_atom, entry_fn):
    ones = [e for e in _pipe.evs(res, "create") if e["fn"] == "ones_like" and e["like"] == [rows_atom]]
    others = [e for e in _pipe.evs(res, "create") if e["like"] == [rows_atom] and e["fn"] not in ("ones_like", "new_zeros", "zeros")]  # (zero buffers are not cotangents)
    dg = _pipe.evs(res, "diag")
    if dg and all(e.get("block") for e in dg):
        # the diagonal matrix built block of columns by block of columns: every block sits on its own rows, all cut from one packed vector
        lays = {tuple(e["layout"]) for e in dg}
        okd = all(e.get("rows_match") for e in dg) and len(lays) == 1 and bool(dg[0]["layout"]) and (rows_atom in dg[0]["layout"][0] or "literal-sequence" in dg[0]["layout"][0]) and "'same'" in dg[0]["layout"][0]
    else:
        okd = len(dg) == 1 and (rows_atom in dg[0]["layout"][0] or "literal-sequence" in dg[0]["layout"][0]) and "'same'" in dg[0]["layout"][0] if dg and dg[0]["layout"] else False
    ctx.require(bool(ones) and not others, rule, "Init: cotangents are ones of each tensor's shape", "ones_like(value) per requested tensor",
                f"initial cotangents are not ones_like of the differentiated tensors (creations: {[e['fn'] for e in others][:3]})", ones[0]["loc"] if ones else entry_fn.loc())
    ctx.require(okd, rule, "Diagonalize: one row per scalar, in the order `tensors` were given",
                f"diag of the concatenation over {dg[0]['layout'] if dg else '?'}",
                f"the Jacobian's rows are not laid out in the order the tensors were given: {dg[0]['layout'] if dg else 'no diag'} (e.g. the collection was turned into a set)",
                dg[0]["loc"] if dg else entry_fn.loc())


def materialise_rule(ctx, res, rule, entry_fn):
    ag = _pipe.evs(res, "autograd")
    for e in ag:
        k = f"{_layout.short_fn(e)}: autograd.grad(allow_unused=...)"
        later = [c for c in _pipe.evs(res, "create") if c["seq"] > e["seq"] and c["fn"] in ("zeros_like", "new_zeros")]  # (input.new_zeros(n): zeros with the dtype and device of the input)
        inp = atoms_of_desc(e["inputs"]) or []
        ok = (e["allow_unused"] is True and any(set(c["like"] or []) <= set(inp) and c["like"] for c in later)) or e.get("materialize_grads") is True
        ctx.require(ok, rule, k, "allow_unused=True and missing gradients replaced by zeros_like(input)",
                    f"allow_unused={e['allow_unused']}; zeros materialisation after the call: {[c['like'] for c in later][:2]}", e["loc"])
        # where the gradients are flattened and laid end to end (one row of the Jacobian), the zeros standing in for a missing gradient are flattened
        # too: zeros_like(input) created AFTER the flattening keeps the input's own shape and cannot be concatenated with vectors
        nxt_ag = min([a["seq"] for a in ag if a["seq"] > e["seq"]] or [10 ** 9])
        packs = [p_ for p_ in _pipe.evs(res, "pack") if e["seq"] < p_["seq"] < nxt_ag and p_["fn"] in ("concatenate", "cat", "hstack") and (p_.get("dim") or 0) == 0 and _pipe.in_stage(p_)]
        for c in [c for c in later if c["fn"] == "zeros_like" and c["seq"] < nxt_ag]:
            p_ = next((p_ for p_ in packs if p_["seq"] > c["seq"]), None)
            if p_ is None:
                continue
            flat_before = [r_ for r_ in _pipe.evs(res, "reshape") if e["seq"] <= r_.get("seq", -1) <= c["seq"] and r_["shape"] == ["-1"] and "autograd" in (r_.get("origin") or [])]
            flat_after = [r_ for r_ in _pipe.evs(res, "reshape") if c["seq"] <= r_.get("seq", -1) <= p_["seq"] and r_["shape"] == ["-1"]]
            if flat_before and not flat_after:
                ctx.violated(rule, f"{_layout.short_fn(c)}: zeros for a missing gradient are flattened like the gradients", f"`{c['text'][:60]}` is created after the gradients were flattened "
                             f"(`{flat_before[0]['text'][:40]}`) and goes into `{p_['text'][:50]}` with the input's own shape: for an unreachable input that is not 1-d the concatenation raises "
                             "instead of yielding zero columns", c["loc"])


def idiom_rules(ctx, index, rule):
    """Running-offset / prefix-sum idioms behind the slices (enumerated forms)."""
    targets = ["torchjd.autojac._transform.aggregate._AggregateMatrices._disunite", "torchjd.autojac._transform.diagonalize.Diagonalize.__init__"]
    n = 0
    for q in targets:
        fi = index.find_function(q)
        if fi is None:
            continue
        for loop, ok, why, start in _layout.running_offset_idiom(fi.node):
            n += 1
            init0 = _layout.offset_initialised_to_zero(fi.node, loop, start)
            ctx.require(ok and init0, rule, f"{fi.short}: running offsets over `{norm_text(loop.iter)}`", "start = 0; end = start + width(element); start = end",
                        (why or "") + ("" if init0 else f"; `{start}` is not initialised to 0 before the loop"), fi.loc(loop))
    # (no floor: code that cuts the axes with torch.split / narrow over prefix sums has no running-offset loop; those sites are decided by the layout rules)


def single_pass_rule(ctx, index, rule, entry_fn):
    """Parameters annotated Iterable[...] must be materialised (list/set/tuple/ordered_set or a comprehension doing so per element) before any other traversal.
    Followed into repository helpers the parameter is handed to (`inputs = _resolve(tensors, inputs)`)."""
    fn = entry_fn.node
    for a in fn.args.args:
        ann = ast.unparse(a.annotation) if a.annotation is not None else ""
        if "Iterable" not in ann:
            continue
        nested = ann.startswith("Sequence[Iterable") or "Sequence[Iterable" in ann
        state, verdict = _scan_param(index, entry_fn, a.arg, nested, 0)
        if verdict:
            ctx.violated(rule, f"{entry_fn.short}: parameter `{a.arg}` traversed before being materialised", verdict[1], entry_fn.loc(verdict[0]))
        else:
            ctx.ok(rule, f"{entry_fn.short}: parameter `{a.arg}` ({ann})", "materialised before any traversal" if state == "materialised" else "never traversed raw", entry_fn.loc())


def unfiltered_rule(ctx, index, rule, entry_fn):
    """The requested collections reach the pipeline whole: an Iterable parameter of the entry point is never re-bound to a selection of itself
    (a comprehension over it with a condition, a difference / intersection with another collection), directly or through a helper it is handed to."""
    from ..index import FunctionInfo

    fn = entry_fn.node

    def selection(e, name):
        """The expression selects a part of the collection `name`."""
        if isinstance(e, (ast.SetComp, ast.ListComp, ast.GeneratorExp)) and any(isinstance(g.iter, ast.Name) and g.iter.id == name and g.ifs for g in e.generators):
            return f"`{norm_text(e)[:80]}` keeps only the elements for which `{norm_text(next(i for g in e.generators for i in g.ifs))[:50]}` holds"
        if isinstance(e, ast.Call) and norm_text(e.func) in ("set", "list", "tuple", "frozenset") and e.args:
            return selection(e.args[0], name)
        if isinstance(e, ast.BinOp) and isinstance(e.op, (ast.Sub, ast.BitAnd)) and isinstance(e.left, ast.Name) and e.left.id == name:
            return f"`{norm_text(e)[:80]}` removes elements"
        if isinstance(e, ast.Call) and isinstance(e.func, ast.Attribute) and e.func.attr in ("difference", "intersection") and isinstance(e.func.value, ast.Name) and e.func.value.id == name:
            return f"`{norm_text(e)[:80]}` removes elements"
        if isinstance(e, ast.Call) and norm_text(e.func) == "filter" and len(e.args) == 2 and isinstance(e.args[1], ast.Name) and e.args[1].id == name:
            return f"`{norm_text(e)[:80]}` keeps only some elements"
        return None

    for a in fn.args.args:
        ann = ast.unparse(a.annotation) if a.annotation is not None else ""
        if "Iterable" not in ann:
            continue
        name = a.arg
        bad = None
        for st in ast.walk(fn):
            if isinstance(st, ast.Assign) and len(st.targets) == 1 and isinstance(st.targets[0], ast.Name) and st.targets[0].id == name:
                why = selection(st.value, name)
                if why:
                    bad = (st, why)
                v = st.value
                if isinstance(v, ast.Call) and isinstance(v.func, ast.Name):
                    cal = index.resolve_name(entry_fn.module, v.func.id)
                    if isinstance(cal, FunctionInfo):
                        params = [x.arg for x in cal.node.args.args]
                        for i, arg in enumerate(v.args):
                            if isinstance(arg, ast.Name) and arg.id == name and i < len(params):
                                for r_ in ast.walk(cal.node):
                                    if isinstance(r_, ast.Return) and r_.value is not None:
                                        w2 = selection(r_.value, params[i])
                                        if w2:
                                            bad = (st, f"{cal.short} returns a part of it: {w2}")
                                w3 = _keyed_dedupe(cal.node, params[i])
                                if w3:
                                    bad = (st, f"{cal.short} returns a part of it: {w3}")
            if isinstance(st, ast.Expr) and isinstance(st.value, ast.Call) and isinstance(st.value.func, ast.Attribute) and isinstance(st.value.func.value, ast.Name) \
                    and st.value.func.value.id == name and st.value.func.attr in ("difference_update", "intersection_update", "discard", "remove", "pop"):
                bad = (st, f"`{norm_text(st)[:80]}` removes elements")
        ctx.require(bad is None, rule, f"{entry_fn.short}: every requested element of `{name}` reaches the pipeline" if bad is None else f"{entry_fn.short}: requested elements of `{name}` are dropped",
                    "the parameter is never re-bound to a selection of itself",
                    (f"`{norm_text(bad[0])[:90]}`: {bad[1]} — the dropped tensors were requested by the caller and their .grad is neither created nor updated") if bad else "",
                    entry_fn.loc(bad[0]) if bad else entry_fn.loc())


def _keyed_dedupe(fn_node, pname):
    """The function keeps ONE element of `pname` per value of a key computed from the element (`d.setdefault(key(x), x)`, `d[key(x)] = x`,
    `{key(x): x for x in xs}`) and returns the kept ones: elements that are different objects with equal keys are dropped."""
    def derived(k, x):
        return not (isinstance(k, ast.Name) and k.id == x) and any(isinstance(n, ast.Name) and n.id == x for n in ast.walk(k)) \
            and not (isinstance(k, ast.Call) and isinstance(k.func, ast.Name) and k.func.id == "id" and len(k.args) == 1 and isinstance(k.args[0], ast.Name))  # (id(x) is the identity)

    tables = {}
    for l_ in ast.walk(fn_node):
        if isinstance(l_, ast.For) and isinstance(l_.iter, ast.Name) and l_.iter.id == pname and isinstance(l_.target, ast.Name):
            x = l_.target.id
            for c_ in ast.walk(l_):
                if isinstance(c_, ast.Call) and isinstance(c_.func, ast.Attribute) and c_.func.attr == "setdefault" and len(c_.args) == 2 and isinstance(c_.func.value, ast.Name) \
                        and isinstance(c_.args[1], ast.Name) and c_.args[1].id == x and derived(c_.args[0], x):
                    tables[c_.func.value.id] = c_
                if isinstance(c_, ast.Assign) and len(c_.targets) == 1 and isinstance(c_.targets[0], ast.Subscript) and isinstance(c_.targets[0].value, ast.Name) \
                        and isinstance(c_.value, ast.Name) and c_.value.id == x and derived(c_.targets[0].slice, x):
                    tables[c_.targets[0].value.id] = c_
    for a_ in ast.walk(fn_node):
        if isinstance(a_, ast.Assign) and len(a_.targets) == 1 and isinstance(a_.targets[0], ast.Name) and isinstance(a_.value, ast.DictComp) and len(a_.value.generators) == 1:
            g = a_.value.generators[0]
            if isinstance(g.iter, ast.Name) and g.iter.id == pname and isinstance(g.target, ast.Name) and isinstance(a_.value.value, ast.Name) and a_.value.value.id == g.target.id \
                    and derived(a_.value.key, g.target.id):
                tables[a_.targets[0].id] = a_.value
    for r_ in ast.walk(fn_node):
        if isinstance(r_, ast.Return) and r_.value is not None:
            for n in ast.walk(r_.value):
                if isinstance(n, ast.Call) and isinstance(n.func, ast.Attribute) and n.func.attr == "values" and isinstance(n.func.value, ast.Name) and n.func.value.id in tables:
                    w = tables[n.func.value.id]
                    return f"`{norm_text(w)[:80]}` keeps one element per value of a key computed from it: two different tensors with the same key (views of one buffer, parameters sharing their data) collapse into one"
    return None


def _scan_param(index, fi, name, nested, depth):
    """(state after the function, (stmt, message) | None). States: raw (untouched one-shot iterable), materialised, consumed (traversed by a callee
    that kept the result for itself: nothing is left for the caller)."""
    from ..index import FunctionInfo

    fn = fi.node

    def callee_of(call):
        f = call.func
        if isinstance(f, ast.Name):
            r = index.resolve_name(fi.module, f.id)
            if isinstance(r, FunctionInfo):
                return r
            if hasattr(r, "lookup"):  # a class: its constructor receives the arguments
                ini = r.lookup("__init__")
                return ini[1] if ini else None
            return None
        if isinstance(f, ast.Attribute) and f.attr == "__init__" and isinstance(f.value, ast.Call) and norm_text(f.value.func) == "super" and fi.cls is not None:
            for base in fi.cls.mro[1:]:
                if "__init__" in base.methods:
                    return base.methods["__init__"]
        return None

    def handed_to(st):
        """[(call, callee, callee parameter name)] for calls in the statement that receive the raw name itself as an argument."""
        out = []
        for c in ast.walk(st):
            if not isinstance(c, ast.Call):
                continue
            cal = callee_of(c)
            if cal is None or depth >= 2:
                continue
            params = [x.arg for x in cal.node.args.args]
            if cal.cls is not None and params and params[0] in ("self", "cls") and not getattr(cal, "is_static", False):
                params = params[1:]
            for i, arg in enumerate(c.args):
                if isinstance(arg, ast.Name) and arg.id == name and i < len(params):
                    out.append((c, cal, params[i]))
            for kw in c.keywords:
                if isinstance(kw.value, ast.Name) and kw.value.id == name and kw.arg in params:
                    out.append((c, cal, kw.arg))
        return out

    consumed_by = [""]

    def scan(stmts, state):
        for st in stmts:
            if isinstance(st, ast.If):
                test_uses = [n for n in ast.walk(st.test) if isinstance(n, ast.Name) and n.id == name]
                if state in ("raw", "consumed") and test_uses and not all(is_len_or_none_test(fn, u) for u in test_uses):
                    return state, (st, f"`{norm_text(st.test)}` traverses `{name}` before it is materialised")
                s1, v1 = scan(st.body, state)
                if v1:
                    return s1, v1
                s2, v2 = scan(st.orelse, state) if st.orelse else (state, None)
                if v2:
                    return s2, v2
                state = "materialised" if s1 == s2 == "materialised" else ("consumed" if "consumed" in (s1, s2) else state)
                continue
            uses = [n for n in ast.walk(st) if isinstance(n, ast.Name) and n.id == name and isinstance(n.ctx, ast.Load)]
            assigns_name = isinstance(st, ast.Assign) and ((isinstance(st.targets[0], ast.Name) and st.targets[0].id == name) or (
                isinstance(st.targets[0], (ast.Tuple, ast.List)) and any(isinstance(t, ast.Name) and t.id == name for t in st.targets[0].elts)))
            # every use sits inside a materialising sub-expression (`Params(shared=list(shared_params), ...)`, `return [list(t) for t in tasks_params]`)
            if state == "raw" and uses and not isinstance(st, (ast.For, ast.While, ast.With, ast.Try)):
                inside = {id(n) for e in ast.walk(st) if isinstance(e, ast.expr) and materialises(e, name, nested) for n in ast.walk(e)}
                if [u for u in uses if not is_len_or_none_test(fn, u)] and all(id(u) in inside for u in uses if not is_len_or_none_test(fn, u)):
                    if assigns_name and isinstance(st.targets[0], ast.Name):
                        state = "materialised"
                    else:
                        state = "consumed"
                        consumed_by[0] = norm_text(st)[:80]
                    continue
            if state == "consumed" and [u for u in uses if not is_len_or_none_test(fn, u)]:
                return state, (st, f"`{norm_text(st)[:100]}` uses `{name}` after `{consumed_by[0]}` already traversed it: a one-shot iterable is exhausted by then")
            if assigns_name and (not uses or materialises(st.value, name, nested)):
                state = "materialised"
                continue
            if state == "raw" and isinstance(st, (ast.Assign, ast.AnnAssign)) and st.value is not None and uses and materialises(st.value, name, nested):
                # materialised into another variable: the one-shot iterable itself is spent
                state = "consumed"
                consumed_by[0] = norm_text(st)[:80]
                continue
            if not uses:
                continue
            if state == "materialised":
                continue
            real = [u for u in uses if not is_len_or_none_test(fn, u)]
            if not real:
                continue
            hand = handed_to(st)
            if state == "raw" and hand and len(hand) == len(real):
                # every use of the raw iterable in this statement is "passed on to a helper": the helper decides
                after = set()
                for c, cal, pname in hand:
                    s_c, v_c = _scan_param(index, cal, pname, nested, depth + 1)
                    if v_c:
                        return state, (st, f"`{norm_text(st)[:80]}` hands `{name}` to {cal.short}, where {v_c[1]}")
                    after.add(s_c)
                if after <= {"raw"}:
                    continue  # the helper does not look into it
                if assigns_name and isinstance(st.value, ast.Call) and any(c is st.value for c, _, _ in hand):
                    state = "materialised"  # the helper returns what it built from the iterable
                else:
                    state = "consumed"
                    consumed_by[0] = norm_text(st)[:80]
                continue
            if state == "consumed":
                return state, (st, f"`{norm_text(st)[:100]}` uses `{name}` after `{consumed_by[0]}` already traversed it: a one-shot iterable is exhausted by then")
            if len(real) == 1 and _is_single_traversal(st, real[0]):
                # one walk over the raw iterable (a `for`, a comprehension, any()/zip()/a set method taking an iterable): allowed once — from
                # here on the iterable is spent
                state = "consumed"
                consumed_by[0] = norm_text(st)[:80]
                continue
            return state, (st, f"`{norm_text(st)[:100]}` traverses `{name}` before it is materialised: a one-shot iterable is exhausted and the later "
                               "conversion yields an empty collection")
        return state, None

    return scan(fn.body, "raw")


TRAVERSERS = ("any", "all", "sum", "max", "min", "zip", "enumerate", "map", "filter", "chain", "chain.from_iterable", "itertools.chain", "reversed", "iter", "next", "reduce",
              "functools.reduce", "str.join")
TRAVERSING_METHODS = ("isdisjoint", "issubset", "issuperset", "union", "intersection", "difference", "symmetric_difference", "update", "extend", "join", "fromkeys")


def _is_single_traversal(st, use) -> bool:
    """The one use of the iterable in statement `st` walks it once: loop header, comprehension source, argument of a traversing builtin / set method."""
    if isinstance(st, ast.For) and st.iter is use:
        return not any(isinstance(n, ast.Name) and n.id == use.id for b in st.body + st.orelse for n in ast.walk(b))
    for n in ast.walk(st):
        if isinstance(n, ast.comprehension) and n.iter is use:
            return True
        if isinstance(n, ast.Call) and any(a is use or (isinstance(a, ast.Starred) and a.value is use) for a in n.args):
            f = norm_text(n.func)
            if f in TRAVERSERS or (isinstance(n.func, ast.Attribute) and n.func.attr in TRAVERSING_METHODS):
                return True
    return False


MATERIALISERS = ("list", "tuple", "set", "frozenset", "sorted", "ordered_set", "dict.fromkeys", "OrderedDict.fromkeys", "collections.OrderedDict.fromkeys")


def materialises(value, name, nested) -> bool:
    if isinstance(value, ast.IfExp):
        # `<default> if name is None else set(name)`: the test may only look at None-ness / length, each arm either ignores the parameter or materialises it
        uses = [n for n in ast.walk(value.test) if isinstance(n, ast.Name) and n.id == name]
        if not all(isinstance(p, ast.Compare) and len(p.ops) == 1 and isinstance(p.ops[0], (ast.Is, ast.IsNot)) and isinstance(p.comparators[0], ast.Constant) and p.comparators[0].value is None
                   and isinstance(p.left, ast.Name) and p.left.id == name for p in [value.test]) and uses:
            return False
        arms = [value.body, value.orelse]
        ok = True
        any_reads = False
        for a in arms:
            reads = any(isinstance(n, ast.Name) and n.id == name for n in ast.walk(a))
            any_reads = any_reads or reads
            if reads and not materialises(a, name, nested):
                ok = False
        return ok and any_reads  # (an expression that only asks whether the parameter is None materialises nothing)
    def spread_of(e, var):
        # `[*var]`, `(*var,)`, `{*var}`: a display made of the one spread iterable is list(var) / tuple(var) / set(var)
        return isinstance(e, (ast.List, ast.Tuple, ast.Set)) and len(e.elts) == 1 and isinstance(e.elts[0], ast.Starred) and isinstance(e.elts[0].value, ast.Name) and e.elts[0].value.id == var

    if spread_of(value, name):
        return not nested
    if isinstance(value, (ast.List, ast.Tuple, ast.Set)) and len(value.elts) == 1 and isinstance(value.elts[0], ast.Starred) and isinstance(value.elts[0].value, ast.IfExp):
        it = value.elts[0].value  # `[*(default if default is not None else name)]`
        tu = [n for n in ast.walk(it.test) if isinstance(n, ast.Name) and n.id == name]
        none_test = isinstance(it.test, ast.Compare) and len(it.test.ops) == 1 and isinstance(it.test.ops[0], (ast.Is, ast.IsNot)) and isinstance(it.test.left, ast.Name) and it.test.left.id == name
        arms = [a for a in (it.body, it.orelse) if any(isinstance(n, ast.Name) and n.id == name for n in ast.walk(a))]
        if (not tu or none_test) and arms and all(isinstance(a, ast.Name) and a.id == name for a in arms):
            return not nested
    v = value
    depth = 0
    while isinstance(v, ast.Call) and ast.unparse(v.func) in MATERIALISERS and v.args and depth < 4:
        v = v.args[0]
        depth += 1
    if depth and isinstance(v, ast.Name) and v.id == name:
        return not nested
    def selects(it):
        # the iterated expression is the parameter itself, or `<other> if <test not traversing it> else <parameter>` (either arm)
        if isinstance(it, ast.Name):
            return it.id == name
        if isinstance(it, ast.IfExp):
            tu = [n for n in ast.walk(it.test) if isinstance(n, ast.Name) and n.id == name]
            none_test = isinstance(it.test, ast.Compare) and len(it.test.ops) == 1 and isinstance(it.test.ops[0], (ast.Is, ast.IsNot)) and isinstance(it.test.left, ast.Name) and it.test.left.id == name
            if tu and not none_test:
                return False
            arms = [a for a in (it.body, it.orelse) if any(isinstance(n, ast.Name) and n.id == name for n in ast.walk(a))]
            return bool(arms) and all(selects(a) for a in arms)
        return False

    if isinstance(value, ast.ListComp) and len(value.generators) == 1 and not value.generators[0].ifs and selects(value.generators[0].iter):
        e = value.elt
        tv = value.generators[0].target
        if not isinstance(tv, ast.Name):
            return False
        return (isinstance(e, ast.Call) and isinstance(e.func, ast.Name) and e.func.id in ("list", "tuple", "set", "ordered_set")
                and len(e.args) == 1 and isinstance(e.args[0], ast.Name) and e.args[0].id == tv.id) or spread_of(e, tv.id)
    return False


def is_len_or_none_test(fn, use) -> bool:
    for n in ast.walk(fn):
        if isinstance(n, ast.Compare) and n.left is use and isinstance(n.ops[0], (ast.Is, ast.IsNot)):
            return True
    return False


def check(index, ctx):
    ctx.rule("R1", "on every non-empty returning path of backward: cotangents are ones, diagonalised in the order `tensors` were given; every autograd.grad call differentiates "
             "exactly `tensors` w.r.t. exactly the (given or discovered) inputs with cotangents paired in the outputs' order; the aggregator is applied exactly once, after all sweeps "
             "and before any .grad write, to a matrix whose columns are laid out over the inputs; .grad is written only on the inputs")
    ctx.rule("R2", "order/layout coherence: every pack (cat/stack/vstack) uses an order-preserving sequence; every zip pairs sequences of one common order; every slice of a packed "
             "axis happens while iterating the very collection (same source, same mode) the axis was packed over; running-offset / prefix-sum idioms are well formed; "
             "the row blocks of the cotangents partition all rows in order (same rule as C07 R1)")
    ctx.rule("R3", "no axis-reordering operator in the pipeline; flatten/unflatten pairs are row-major reshape(-1)/view(rows,-1) vs view((rows,)+key.shape)")
    ctx.rule("R4", "every autograd.grad call has allow_unused=True and missing gradients are replaced by zeros_like of the corresponding input")
    ctx.rule("R5", "a parameter annotated Iterable[...] is materialised before any other traversal (one-shot iterables)")
    entry = index.get_function("torchjd.autojac.backward.backward")
    P, rs = _pipe.runs(index, ("backward",))
    n_main = 0
    for run in rs:
        cols = "inputs" if run.variant["inputs"] else "leaves(tensors)"
        mains = _pipe.main_paths(run)
        if not mains:
            ctx.undecided("R1", run.label, "no non-empty returning path", entry.loc())
        for res in mains:
            n_main += 1
            if stage_rule(ctx, run, res, "R1", "tensors", cols, entry):
                cotangent_rule(ctx, res, "R1", "tensors", entry)
                _layout.check_layout(ctx, "R2", res, row_order=lambda run=run: _inst.verdict(index, run.entry, "order", chunk=bool(run.variant.get("chunk"))))
                materialise_rule(ctx, res, "R4", entry)
        # a returning path that skipped the pipeline without an empty collection is caught by stage_rule (it is a main path)
    idiom_rules(ctx, index, "R2")
    from .C07 import partition_rule

    partition_rule(ctx, P, rs, "R2")
    single_pass_rule(ctx, index, "R5", entry)
    ctx.floor("non-empty returning paths of backward", n_main, 3)
    _pipe.common_evidence(ctx, index, ("backward",))
    ctx.assumptions += ["numerical values (that autograd.grad computes vector-Jacobian products, that the aggregate equals aggregator(J)) are NOT decided",
                        "independence of the order of `inputs` follows from R2 (every stage is keyed by tensor and internally coherent)"]
