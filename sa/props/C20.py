"""C20 — a call rejected for its arguments changes nothing: checks-before-effects over the abstract execution of the
real pipeline (DESIGN.md 5/C20)."""

from __future__ import annotations

import ast

from ..report import norm_text
from . import _layout, _pipe

# classification of rejection sites by the construct that raises (inventory; unclassified sites are listed in evidence)
def classify(res):
    exc = res.exc
    where = exc.where or ""
    fn = ""
    for e in reversed(res.events):
        if e["kind"] == "raise":
            fn = e["function"]
            break
    if where == "aggregator":
        return "aggregator rejects the Jacobian", "aggregator"
    decs = [e for e in res.events if e["kind"] == "decision" and not e.get("forced")]
    from . import _pipe as _p

    if _p.overlap_rejection(res):
        return "shared/task parameter overlap", "argument"
    if decs:
        org = {o for c in decs[-1]["compares"] for o in c.get("origins", [])}
        if "parallel_chunk_size" in org:
            return "non-positive parallel_chunk_size", "argument"
    last = fn.split(".")[-1]
    mod = fn.rsplit(".", 1)[0]
    if last == "_check_optional_positive_chunk_size":
        return "non-positive parallel_chunk_size", "argument"
    if last in ("backward", "mtl_backward"):
        return "empty tensors/features/losses or mismatching lengths", "argument"
    if last == "_check_losses_are_scalar":
        return "non-scalar loss", "argument"
    if last == "_check_no_overlap":
        return "shared/task parameter overlap", "argument"
    if last == "ordered_set":
        return "duplicate tensors", "argument"
    if last == "_check_expects_grad":
        return "parameter that does not expect grad", "argument"
    if "grad_fn" in " ".join(res.trace.decisions[-1:]):
        return "tensor without grad_fn (leaf discovery)", "argument"
    if any(("." + m_ + ".") in fn for m_ in _p.INTERNAL_CHECK_MODULES):
        return "internal consistency check of a typed dictionary", "internal"  # (wherever in that module the raise statement sits: a helper, or the constructor itself)
    if last in ("__init__",) and "_transform" in fn:
        return "transform construction check (key typing)", "argument"
    if "_transform" in fn:
        return "internal consistency check of a transform", "internal"
    return f"unclassified ValueError in {fn}", "unclassified"


def chunk_validator_rule(index, ctx):
    """R4: whatever reaches the pipeline as parallel_chunk_size is None or positive — read off the paths of the validator that return
    normally (the tests taken along each of them must imply `x is None or x > 0`, whatever else they ask)."""
    import ast

    from ..cfg import cfg_of
    from ..guards import feasible, oriented, path_guards
    from ..index import FunctionInfo
    from ..report import norm_text

    ctx.rule("R4", "the chunk-size validator called first by both entry points returns normally only for None or a positive value: every normally returning path "
                   "implies `parallel_chunk_size is None or parallel_chunk_size > 0` (a value of another type that is not positive must not slip through: it would fail "
                   "inside the Jacobian stage, after mtl_backward has accumulated the task gradients)")
    for entry in ("torchjd.autojac.backward.backward", "torchjd.autojac.mtl_backward.mtl_backward"):
        f = index.get_function(entry)
        cands = []
        for n in ast.walk(f.node):
            if isinstance(n, ast.Call) and isinstance(n.func, ast.Name) and len(n.args) == 1 and not n.keywords and isinstance(n.args[0], ast.Name) and n.args[0].id == "parallel_chunk_size":
                c = index.resolve_name(f.module, n.func.id)
                if isinstance(c, FunctionInfo) and any(isinstance(x, ast.Raise) for x in ast.walk(c.node)):
                    cands.append(c)
        if len({c.qualname for c in cands}) != 1:
            ctx.undecided("R4", f"{f.short}: chunk-size validation", "no single validator function is called with parallel_chunk_size", f.loc())
            continue
        v = cands[0]
        x = v.node.args.args[0].arg

        def classify(t, x=x):
            if isinstance(t, ast.Compare) and len(t.ops) == 1:
                l_, op, r_ = t.left, t.ops[0], t.comparators[0]
                if isinstance(op, (ast.Is, ast.IsNot)):
                    if isinstance(l_, ast.Constant) and l_.value is None:
                        l_, r_ = r_, l_
                    if isinstance(r_, ast.Constant) and r_.value is None and isinstance(l_, ast.Name) and l_.id == x:
                        return ("N", isinstance(op, ast.Is))
                o = oriented(t, lambda e: isinstance(e, ast.Name) and e.id == x)
                if o is not None and isinstance(o[2], ast.Constant) and isinstance(o[2].value, (int, float)) and not isinstance(o[2].value, bool):
                    c_ = o[2].value
                    if (o[1] is ast.Gt and c_ == 0) or (o[1] is ast.GtE and c_ == 1):
                        return ("P", True)
                    if (o[1] is ast.LtE and c_ == 0) or (o[1] is ast.Lt and c_ == 1):
                        return ("P", False)
            return None

        cfg = cfg_of(v.node)
        bad = None
        for path in cfg.acyclic_paths():
            fz = feasible(path_guards(cfg, path), classify, domain=lambda a: not (a.get("N") and a.get("P")), extra_vars=("N", "P"))
            if fz is None:
                bad = ("too many conditions", None)
                break
            w = next((a for a in fz if not (a["N"] or a["P"])), None)
            if w is not None:
                free = {k_: v_ for k_, v_ in w.items() if k_ not in ("N", "P")}
                bad = (f"a path returns normally for a value that is neither None nor positive" + (f" when {free}" if free else ""), w)
                break
        if bad is None:
            ctx.ok("R4", f"{f.short}: {v.short} lets only None or a positive chunk size through", "every normally returning path implies `x is None or x > 0`", v.loc())
        elif bad[1] is None:
            ctx.undecided("R4", f"{v.short}: accepted chunk sizes", bad[0], v.loc())
        else:
            ctx.violated("R4", f"{v.short}: a non-positive chunk size can pass the up-front validation",
                         bad[0] + ": it is refused (if at all) only inside the Jacobian stage, after mtl_backward has accumulated the task gradients", v.loc())


def check(index, ctx):
    ctx.rule("R1", "inventory: every ValueError path of the abstractly executed entry points is classified by the construct that raises")
    ctx.rule("R2", "no .grad write precedes an argument rejection: on every path that ends in an argument-kind ValueError (and, for backward, an aggregator rejection) no .grad write event occurs")
    ctx.rule("R3", "all requested parameters pass the expects-grad check, in a loop that has completed, before the first .grad write of the call (whatever the position of the offending argument)")
    P, rs = _pipe.runs(index)
    inventory: dict = {}
    n_rej = 0
    once_r2: dict = {}
    for run in rs:
        for res in run.raising():
            if res.exc.exc_name != "ValueError":
                continue
            what, kind = classify(res)
            inventory.setdefault(f"{run.entry}: {what}", 0)
            inventory[f"{run.entry}: {what}"] += 1
            if kind == "unclassified":
                ctx.notes.append(f"unclassified rejection at {res.exc.where} on {run.label}")
            if kind in ("argument", "unclassified") or (kind == "aggregator" and run.entry == "backward"):
                n_rej += 1
                gw = _pipe.evs(res, "grad_write")
                site = res.exc.where
                ctx.require(not gw, "R2", f"{run.entry}: rejection '{what}' at {site.split(':')[0].split('/')[-1]} happens before any .grad write" if not gw else f"{run.entry}: {what} is raised after .grad was written",
                            f"path [{res.describe_path()[-80:]}]: no write before the raise",
                            f"on path [{res.describe_path()[-120:]}] {len(gw)} .grad write site(s) (first: {gw[0]['loc'] if gw else ''} on {gw[0]['target'] if gw else ''}) execute before the ValueError raised at {site}",
                            site, derivation={"kind": what, "path": res.describe_path()[-200:]})
        # R2 inside loops: a rejection raised in the body of a loop the analysis summarises is not a path of its own (`may_raise_in_loop`);
        # a .grad write that an EARLIER iteration of the same loop (or anything before the loop) has executed precedes it
        for res in run.results:
            gw = _pipe.evs(res, "grad_write")
            if not gw:
                continue
            raises = [e for e in res.events if e["kind"] == "raise" and e.get("exc") == "ValueError" and e.get("loops")]
            for e in raises:
                last = e["function"].split(".")[-1]
                if last == "_check_expects_grad" or ("_transform" in e["function"] and last not in ("ordered_set", "__init__")) or any(("." + m_ + ".") in e["function"] for m_ in _pipe.INTERNAL_CHECK_MODULES):
                    continue  # the re-check next to the write is covered by the up-front validation (R3); internal consistency checks are not argument rejections
                before = [w for w in gw if (set(w["loops"]) & set(e["loops"])) or w["seq"] <= e.get("after_seq", 0)]
                k_ = f"{run.entry}: rejection raised at {e['loc'].split('/')[-1]} inside a loop"
                if before and not once_r2.get((run.entry, e["loc"])):
                    once_r2[(run.entry, e["loc"])] = True
                    w = before[0]
                    ctx.violated("R2", k_, f"`{e['text'][:60]}` ({e['function'].split('.')[-1]}) can reject the call in a later iteration of a loop in which — or before which — .grad was already written "
                                 f"({w['loc']} on {w['target']}): an offending argument at a late position is refused after the .grad of the earlier ones was modified", e["loc"])
        # R3 on every returning / raising path that writes
        for res in run.results:
            gw = _pipe.evs(res, "grad_write")
            if not gw:
                continue
            if _pipe.blocking(res) and res.kind == "return":
                continue
            first = min(gw, key=lambda e: e["seq"])
            targets = sorted({a for e in gw for a in e["target"]})
            checks = [e for e in _pipe.evs(res, "expects_grad_check") if e["seq"] < first["seq"] and not (set(e["loops"]) & set(first["loops"])) and e.get("strength") == "full"]
            sc = [e for e in _pipe.evs(res, "short_circuit")]
            for e in _pipe.evs(res, "expects_grad_check"):
                hit = next((s_ for s_ in sc if s_["function"] == e["function"] and s_["loc"].rsplit(":", 1)[0] == e["loc"].rsplit(":", 1)[0]
                            and abs(int(s_["loc"].rsplit(":", 1)[1]) - int(e["loc"].rsplit(":", 1)[1])) <= 2 and e["text"][:20] in s_["text"]), None)
                if hit is not None and e.get("strength") == "full":
                    e["strength"] = "first-only"
                    ctx.violated("R3", f"{e['function'].split('.')[-1]}: the validator runs inside {hit.get('fn')}()", f"`{hit['text'][:90]}`: the validator returns None, so {hit.get('fn')}() stops after the "
                                 "first element — only the first parameter (in iteration order) is validated up front; an offending one further on is rejected later, after other .grad fields were written", hit["loc"])
            weak = [e for e in _pipe.evs(res, "expects_grad_check") if e.get("strength") not in ("full", "first-only")]
            for e in weak[:1]:
                ctx.violated("R3", f"{e['validator'].split('.')[-1]}: validator does not test requires_grad and (is_leaf or retains_grad)",
                             "the up-front validator accepts tensors that cannot receive a .grad (e.g. a frozen leaf): they are rejected later, after other .grad fields were written", e["loc"])
            covered = {a for e in checks for a in (e["target"] or [])}
            # Discovered leaves (AccumulateGrad.variable) normally expect grad, but a leaf frozen with requires_grad_(False) after the
            # forward pass is still discovered. In backward every differentiation precedes every write (C01 R1), so torch rejects it
            # before anything is written; in mtl_backward the tasks are differentiated and accumulated one after the other, so the
            # discovered collections need the up-front check as well.
            exempt = (lambda a: a.startswith("leaves(")) if run.entry == "backward" else (lambda a: False)
            missing = [a for a in targets if a not in covered and not exempt(a)]
            k = f"{run.label}: every written parameter collection was validated before the first write"
            ctx.require(not missing, "R3", k if not missing else f"{run.entry}: parameters {missing} are validated only after .grad writes have begun",
                        f"collections {targets} all checked (in completed loops) before {first['loc']}",
                        f"first .grad write at {first['loc']} (on {first['target']}) happens before the expects-grad check of {missing} has completed: a tensor that is neither a leaf requiring grad "
                        f"nor retaining grad, listed in {missing}, makes the call raise ValueError after other .grad fields were modified", first["loc"],
                        derivation={"written": targets, "validated_before_first_write": sorted(covered)})
    # R3, completed loops read off the source: a loop that runs the expects-grad validator over the parameters cannot be left early without raising
    n_vloops = 0
    for fi in index.all_functions("torchjd.autojac"):
        if fi.parent is not None:
            continue
        for loop in [x for x in ast.walk(fi.node) if isinstance(x, (ast.For, ast.While))]:
            calls = [c for b in loop.body for c in ast.walk(b) if isinstance(c, ast.Call) and norm_text(c.func).split(".")[-1] in ("_check_expects_grad", "_expects_grad")]
            if not calls:
                continue
            n_vloops += 1
            exits = []
            stack = list(loop.body)
            while stack:
                x = stack.pop()
                if isinstance(x, (ast.FunctionDef, ast.Lambda, ast.ClassDef)):
                    continue
                if isinstance(x, ast.Return) or (isinstance(x, ast.Break)):
                    exits.append(x)
                stack.extend(ast.iter_child_nodes(x))
            # (a `break` of an inner loop that does not contain the validator call leaves only that inner loop)
            inner = [l_ for b in loop.body for l_ in ast.walk(b) if isinstance(l_, (ast.For, ast.While)) and not any(c in list(ast.walk(l_)) for c in calls)]
            exits = [x for x in exits if not (isinstance(x, ast.Break) and any(x in list(ast.walk(l_)) for l_ in inner))]
            ctx.require(not exits, "R3", f"{fi.short}: the loop running the expects-grad validator over `{norm_text(loop.iter)[:50] if isinstance(loop, ast.For) else 'while'}` cannot be left early",
                        "no return / break inside the loop",
                        f"`{norm_text(exits[0])[:50] if exits else ''}` leaves the validation loop before every parameter was checked (e.g. at an empty group): an offending parameter further on is "
                        "rejected only later, after other .grad fields were written", fi.loc(exits[0]) if exits else fi.loc(loop))
    ctx.extra["validator_loops"] = n_vloops
    # R5: the emptiness of the differentiated collections is settled before the first write, in every argument form
    ctx.rule("R5", "before the first .grad write of a call, a test has established that `tensors` (backward) / `features` and `losses` (mtl_backward) are non-empty — in every "
                   "argument form (explicit and defaulted parameter lists): an empty collection is refused up front, not by whatever fails first downstream")
    for run in list(rs) + _pipe.oneshot_runs(index):
        need = ["tensors"] if run.entry == "backward" else ["features", "losses"]
        if run.variant.get("oneshot"):
            need = [a for a in need if a in run.variant["oneshot"]]
        if "single Tensor" in run.label or run.variant.get("single"):
            need = [a for a in need if a == "losses"]  # one tensor given directly: a list of one element, nothing to test
        miss_: dict = {}
        n_w = 0
        for res in run.results:
            gw = _pipe.evs(res, "grad_write")
            if not gw:
                continue
            n_w += 1
            first = min(e["seq"] for e in gw)
            idx_first = next(i for i, e in enumerate(res.events) if e["kind"] == "grad_write" and e.get("seq") == first)
            settled = set()
            for e in res.events[:idx_first]:
                if e["kind"] == "decision" and (e.get("key") or "").startswith("nonempty?") and e.get("outcome") is not None:
                    if bool(e["outcome"]) ^ bool(e.get("key_neg")):
                        settled |= set((e["key"][len("nonempty?"):]).split("+"))
            alias = {"losses": {"losses", "tasks", "losses[i]"}}  # (the list of losses is walked per task: its atom is `tasks`)
            for a in need:
                if not (alias.get(a, {a}) & settled):
                    miss_.setdefault(a, res)
        if not n_w:
            continue
        for a in need:
            res = miss_.get(a)
            ctx.require(res is None, "R5", f"{run.label}: `{a}` is known to be non-empty before the first .grad write" if res is None else f"{run.entry}: an empty `{a}` is not refused before .grad is written",
                        "a test on its emptiness precedes the first write on every writing path",
                        (f"on path [{res.describe_path()[-110:]}] of {run.label} no test has established that `{a}` is non-empty when the first .grad write happens: with an empty `{a}` "
                         "the call is not rejected up front — it fails later (or not at all), after .grad fields were modified") if res is not None else "", "")
    chunk_validator_rule(index, ctx)
    # R3 (which tensors the validation walks): not one representative per value of a key computed from the tensors — two parameters with the
    # same key (views of one buffer, a frozen alias of a valid parameter) are different tensors, and only one of them would be validated
    for q_ in ("torchjd.autojac.backward.backward", "torchjd.autojac.mtl_backward.mtl_backward"):
        fi_ = index.find_function(q_)
        if fi_ is None:
            continue
        tables = {}
        for a_ in ast.walk(fi_.node):
            if isinstance(a_, ast.Assign) and len(a_.targets) == 1 and isinstance(a_.targets[0], ast.Name) and isinstance(a_.value, ast.DictComp) and len(a_.value.generators) >= 1:
                tv_ = a_.value.generators[-1].target
                if isinstance(tv_, ast.Name) and isinstance(a_.value.value, ast.Name) and a_.value.value.id == tv_.id and not (isinstance(a_.value.key, ast.Name) and a_.value.key.id == tv_.id) \
                        and any(isinstance(n_, ast.Name) and n_.id == tv_.id for n_ in ast.walk(a_.value.key)):
                    tables[a_.targets[0].id] = a_
        for l_ in ast.walk(fi_.node):
            if isinstance(l_, ast.For) and isinstance(l_.iter, ast.Call) and isinstance(l_.iter.func, ast.Attribute) and l_.iter.func.attr == "values" and isinstance(l_.iter.func.value, ast.Name) \
                    and l_.iter.func.value.id in tables and any(isinstance(c_, ast.Call) and norm_text(c_.func).split(".")[-1] in {v_.split(".")[-1] for v_ in P.validators} for c_ in ast.walk(l_)):
                t_ = tables[l_.iter.func.value.id]
                ctx.violated("R3", f"{fi_.short}: the up-front validation walks one tensor per `{norm_text(t_.value.key)[:40]}`",
                             f"`{norm_text(t_)[:90]}` keeps one parameter per value of a key computed from it, and only those are validated: a parameter that cannot receive a .grad but shares its key "
                             "with a valid one listed later (a view or a frozen alias of it) is not rejected up front — it fails after other .grad fields were written", fi_.loc(t_))
    ctx.extra["rejection_inventory"] = inventory
    ctx.floor("argument-rejection paths inspected", n_rej, 30)
    _pipe.common_evidence(ctx, index)
    ctx.assumptions.append("backward: a discovered leaf that no longer requires grad is rejected by torch.autograd.grad, which runs before any write (stage order decided under C01); "
                           "mtl_backward: discovered collections must be validated up front like the listed ones")
    ctx.assumptions.append("rejections inside mtl_backward's aggregator call happen after the task parameters were accumulated by design; the statement covers the aggregator only for backward")
