"""C15 — each building-block transform computes its specified linear map: layout / pairing clauses only (DESIGN.md 5/C15).
The numerical content (vector-Jacobian products, linearity, chaining) is torch's and is NOT decided."""

from __future__ import annotations

import ast

from . import _inst, _layout, _pipe
from .C01 import cotangent_rule, idiom_rules, materialise_rule

BLOCKS = "torchjd.autojac._transform"


def _store_dependence(index, e, written):
    """'input' when the value stored by the statement of event `e` depends on what the application was given: on a parameter (other than
    self) of the method it sits in, where that parameter is — followed through the calls between methods of the class, up to a method
    nobody in the class calls — not just constructor state; 'constructor' when it reads nothing but attributes of self that are never
    written during an application, and constants; else None."""
    import ast
    import builtins

    fn = index.functions.get(e["function"])
    if fn is None or fn.cls is None:
        return None
    line = int(e["loc"].rsplit(":", 1)[1])
    st = next((s_ for s_ in ast.walk(fn.node) if isinstance(s_, (ast.Assign, ast.AnnAssign)) and s_.lineno == line), None)
    if st is None:
        # self.xs.append(v) / .extend / .add / .update / .insert / .setdefault: the container held by the attribute receives v
        ex = next((s_ for s_ in ast.walk(fn.node) if isinstance(s_, ast.Expr) and s_.lineno == line and isinstance(s_.value, ast.Call) and isinstance(s_.value.func, ast.Attribute)
                   and s_.value.func.attr in ("append", "appendleft", "extend", "add", "update", "insert", "setdefault", "__setitem__") and s_.value.args), None)
        if ex is not None:
            st = ast.Assign(targets=[ex.value.func.value], value=ast.Tuple(elts=list(ex.value.args), ctx=ast.Load()))
    if st is None or getattr(st, "value", None) is None:
        return None

    def reads(f, exprs):
        """(parameters of f, attributes of self, other free names) the expressions depend on, locals bound once or more read through."""
        params = {a.arg for a in f.node.args.args + f.node.args.kwonlyargs if a.arg not in ("self", "cls")}
        defs = {}
        for a in ast.walk(f.node):
            if isinstance(a, ast.Assign):
                for t in a.targets:
                    for nm in ast.walk(t):
                        if isinstance(nm, ast.Name):
                            defs.setdefault(nm.id, []).append(a.value)
        seen, todo, names, attrs, other, bound = set(), list(exprs), set(), set(), False, set()
        while todo:
            x = todo.pop()
            for n_ in ast.walk(x):
                if isinstance(n_, ast.comprehension):
                    bound |= {t.id for t in ast.walk(n_.target) if isinstance(t, ast.Name)}
            for n_ in ast.walk(x):
                if isinstance(n_, ast.Name) and isinstance(n_.ctx, ast.Load):
                    if n_.id in params:
                        names.add(n_.id)
                    elif n_.id in defs:
                        if n_.id not in seen:
                            seen.add(n_.id)
                            todo += defs[n_.id]
                    elif n_.id not in ("self",) and n_.id not in bound and not hasattr(builtins, n_.id) and n_.id not in f.module.imports:
                        other = True
                if isinstance(n_, ast.Attribute) and isinstance(n_.value, ast.Name) and n_.value.id == "self":
                    attrs.add(n_.attr)
        return names, attrs, other

    def from_input(f, exprs, depth=0):
        names, _, _ = reads(f, exprs)
        if not names:
            return False
        if depth > 4:
            return True
        plist = [a.arg for a in f.node.args.args if a.arg not in ("self", "cls")]
        sites = []
        for g in fn.cls.methods.values():
            for c in ast.walk(g.node):
                if isinstance(c, ast.Call) and isinstance(c.func, ast.Attribute) and isinstance(c.func.value, ast.Name) and c.func.value.id == "self" and c.func.attr == f.name:
                    sites.append((g, c))
        if not sites:
            return True  # called from outside the class (__call__ / _compute / _differentiate): its parameters are the application's input
        for g, c in sites:
            for p_ in names:
                arg = next((k_.value for k_ in c.keywords if k_.arg == p_), None)
                if arg is None and p_ in plist and plist.index(p_) < len(c.args):
                    arg = c.args[plist.index(p_)]
                if arg is None or from_input(g, [arg], depth + 1):
                    return True
        return False

    if from_input(fn, [st.value]):
        return "input"
    names, attrs, other = reads(fn, [st.value])
    if not names and not other and not (attrs & written):
        return "constructor"
    return None


def check(index, ctx):
    ctx.rule("L", "inside every building block (Grad, Jac, Init, Diagonalize, Stack, Select, Aggregate): each pack uses an order-preserving sequence, each zip pairs sequences "
             "of one common order, each slice of a packed axis happens while iterating the collection the axis was packed over; (un)flattening is row-major")
    ctx.rule("G", "Grad/Jac: allow_unused=True with zero materialisation; outputs and cotangents paired from one source; column blocks cut by prefix sums over the inputs' own order")
    ctx.rule("I", "Init yields ones of each value's shape; Diagonalize lays one row per scalar in key order; Stack stacks along dim 0 with zeros for absent keys")
    ctx.rule("A", "Aggregate applies the aggregator exactly once, on every path with at least one key, to the column-wise concatenation, and hands each key its own slice")
    ctx.rule("S", "a transform is a function of its input: applying one never stores to an attribute of a transform object (only constructors do), so a transform applied again — "
                  "Jac with retain_graph=True on a batch of another size — computes its map afresh")
    ctx.rule("P", "a building block that receives its tensors as an Iterable materialises them before any other traversal (a generator walked once to pre-compute lengths leaves "
                  "nothing for the constructor that stores the keys: the block then differentiates with respect to nothing)")
    from .C01 import single_pass_rule

    n_it = 0
    for fi_ in index.all_functions(BLOCKS):
        if fi_.parent is None and fi_.cls is not None and fi_.name == "__init__" and any("Iterable" in (ast.unparse(a_.annotation) if a_.annotation is not None else "") for a_ in fi_.node.args.args):
            n_it += 1
            single_pass_rule(ctx, index, "P", fi_)
    ctx.floor("constructors of building blocks with Iterable parameters", n_it, 3)
    P, rs = _pipe.runs(index)
    n = 0
    stateful = {}
    for run in rs:
        for res in run.results:
            for e in res.events:
                if e["kind"] == "self_write" and ".autojac." in (e.get("cls") or ""):
                    stateful.setdefault((e["loc"], e.get("attr")), e)
    written = {a for (_, a) in stateful}
    for (loc_, attr_), e in sorted(stateful.items()):
        dep = _store_dependence(index, e, written)
        k_ = f"{_layout.short_fn(e)}: self.{attr_}"
        undone = dep == "input" and any(isinstance(t_, ast.Try) and any(isinstance(x, ast.Attribute) and x.attr == attr_ and isinstance(x.value, ast.Name) and x.value.id == "self"
                                                                      for fb in t_.finalbody for x in ast.walk(fb))
                                         for f_ in index.all_functions("torchjd.autojac._transform") for t_ in ast.walk(f_.node))
        if undone:
            ctx.undecided("S", k_, f"`{e['text'][:80]}` keeps per-application data in self.{attr_}; a `finally` block resets it — whether it does so on every exit of every application was not established", loc_)
        elif dep == "input":
            ctx.violated("S", k_, f"`{e['text'][:80]}` stores to self.{attr_}, while the transform is applied, a value computed from what this application was given: a later application "
                         "reuses it (e.g. the row blocks of the first batch reused for a batch with another number of rows)", loc_)
        elif dep == "constructor":
            ctx.ok("S", k_, f"`{e['text'][:80]}` memoises a value computed from constructor state only", loc_)
        else:
            ctx.undecided("S", k_, f"`{e['text'][:80]}` stores to self.{attr_} while the transform is applied; whether the value depends on the application's input was not established", loc_)
    if not stateful:
        ctx.ok("S", "transforms applied by backward / mtl_backward", f"no attribute store outside constructors on any of the {sum(len(r.results) for r in rs)} paths", "")
    for run in rs:
        for res in _pipe.lost_paths(run):
            # what was seen before the analysis lost track of the path still counts (the path itself is reported as abandoned)
            n += _layout.check_layout(ctx, "L", res, only_functions=(BLOCKS,), row_order=lambda run=run: _inst.verdict(index, run.entry, "order", chunk=bool(run.variant.get("chunk"))), only_violations=True)
        for res in _pipe.main_paths(run):
            if _pipe.blocking(res):
                e = _pipe.blocking(res)[0]
                ctx.undecided("L", f"{run.label}", f"construct outside the analysed subset: {e['loc']} `{e['text']}`", e["loc"])
                continue
            n += _layout.check_layout(ctx, "L", res, only_functions=(BLOCKS,), row_order=lambda run=run: _inst.verdict(index, run.entry, "order", chunk=bool(run.variant.get("chunk"))))
            materialise_rule(ctx, res, "G", index.get_function("torchjd.autojac._transform.jac.Jac._differentiate"))
            # prefix-sum slicing of the stacked Jacobian
            for e in _pipe.evs(res, "unpack"):
                if "_extract_sub_matrices" in e["function"] or (e.get("lo_note") or "").startswith("prefix-sum"):
                    literal = e["layout"] is not None and "literal-sequence" in e["layout"] and e["loop_order"] in (None, "None")  # concrete sizes for a concrete sequence
                    ok = e.get("lo_note") == "prefix-sum-cur" and e.get("hi_note") == "prefix-sum-next" and e["layout"] is not None and (e["layout"] == e["loop_order"] or literal)
                    ctx.require(ok, "G", _layout.key(e), "columns [sum of lengths before key, sum including key) of the axis packed over the same inputs",
                                f"column block bounds are ({e.get('lo_note')}, {e.get('hi_note')}) over {e['loop_order']} while the axis is packed over {e['layout']}", e["loc"])
            ag = _pipe.evs(res, "autograd")
            for e in ag:
                if isinstance(e["outputs"], dict) and isinstance(e["grad_outputs"], dict):
                    same = e["outputs"]["order"] == e["grad_outputs"]["order"] or e["outputs"]["order"] == "None"
                    ctx.require(same, "G", f"{_layout.short_fn(e)}: outputs/cotangents pairing", "one source",
                                f"outputs in order {e['outputs']['order']}, cotangents in order {e['grad_outputs']['order']}", e["loc"], nontrivial=False)
            agg = _pipe.evs(res, "aggregator_call")
            for _b in _pipe.evs(res, "aggregator_bypass"):
                ctx.violated("A", f"{_layout.short_fn(_b)}: aggregator applied through forward()", "the aggregator's forward() is called directly instead of aggregator(matrix): hooks registered on the aggregator (nn.Module.__call__) are skipped, so what is deposited is not aggregator(J)", _b["loc"])
            ctx.require(len(agg) == 1, "A", f"{run.label}: aggregator applied once" if len(agg) == 1 else "Aggregate: aggregator applied exactly once per call",
                        "one call on the united matrix", f"aggregator applied {len(agg)} times on path [{res.describe_path()[-80:]}]",
                        agg[0]["loc"] if agg else "")
            if run.entry == "backward":
                cotangent_rule(ctx, res, "I", "tensors", index.get_function("torchjd.autojac._transform.init.Init." + _pipe.compute_method_name(index)))
            else:
                st = [e for e in _pipe.evs(res, "pack") if e["fn"] == "stack" and not _pipe.in_stage(e)]
                z = [c for c in _pipe.evs(res, "create") if c["fn"] == "zeros_like" and c["like"] == ["features"]]
                # (rows scattered into a pre-allocated zeros((n,) + key.shape) buffer: the rows never written are the zeros)
                z = z or [e for e in st if e.get("scatter")]
                ctx.require(bool(st) and all(e["dim"] == 0 for e in st) and (bool(z) or run.variant.get("single")), "I", "Stack: per-key gradients stacked along dim 0, zeros where a key is absent",
                            "stack(dim=0) + zeros_like", f"stack dims {[e['dim'] for e in st]}, zero fill sites {len(z)}", st[0]["loc"] if st else "")
                ones = [c for c in _pipe.evs(res, "create") if c["fn"] == "ones_like" and c["like"] == ["losses[i]"]]
                ctx.require(bool(ones), "I", "Init: cotangent of each loss is ones", "ones_like(loss)", "task cotangent is not ones_like(loss)", "")
    isolated_blocks(index, ctx)
    idiom_rules(ctx, index, "L")
    from .C07 import partition_rule

    partition_rule(ctx, P, rs, "G")
    ctx.floor("layout sites checked", n, 40)
    _pipe.common_evidence(ctx, index)
    ctx.assumptions.append("values of vector-Jacobian products, linearity in the cotangents and chaining are properties of torch.autograd and are NOT decided")


def isolated_blocks(index, ctx):
    """Each block applied on its own to a dictionary whose insertion order is unrelated to the order of the keys given to
    the constructor (the pipelines of backward/mtl_backward happen to build both from one collection)."""
    from ..pipeline import PipeAnalysis
    from ..pipeops import key_tv, keys_list, opaque, Q
    from ..values import DictV, ListV, ObjV

    P = PipeAnalysis(index)
    I = P.interp
    T = "torchjd.autojac._transform"

    def tdict(cls_name, val):
        cls = index.get_class(f"{T}.tensor_dict.{cls_name}")
        d = DictV(items=None, keys=ListV(items=None, elem=key_tv("K"), order=(("K",), "dict-insertion")), val=val)
        res = I.run_paths(lambda: I.instantiate(cls, [d], {}, cls.node, None))
        objs = [r.value for r in res if r.kind == "return"]
        return objs[0] if objs else None

    blocks = [
        ("Aggregate", f"{T}.aggregate.Aggregate", lambda: [P.aggregator(), keys_list("K")], "Jacobians", opaque(frozenset(["jac"]), axes=("R", Q), dtype="dt:=key")),
        ("Diagonalize", f"{T}.diagonalize.Diagonalize", lambda: [keys_list("K")], "Gradients", opaque(frozenset(["grad"]), dtype="dt:=key")),
    ]
    n = 0
    for name, q, mk, dcls, val in blocks:
        cls = index.get_class(q)
        res = I.run_paths(lambda: I.instantiate(cls, mk(), {}, cls.node, None))
        objs = [r.value for r in res if r.kind == "return"]
        inp = tdict(dcls, val)
        if not objs or inp is None:
            ctx.undecided("L", f"{name}: isolated application", "could not construct the block / its input", cls.loc())
            continue
        P.ops.seq = 0
        runs = I.run_paths(lambda: I.call_value(objs[0], [inp], {}, cls.node, None))
        for r in runs:
            if r.kind != "return":
                continue
            unk = [e for e in r.events if e["kind"] in ("unknown", "unknown_call")]
            if unk:
                ctx.undecided("L", f"{name}: isolated application", f"construct outside the analysed subset: {unk[0]['loc']} `{unk[0]['text']}`", unk[0]["loc"])
                continue
            n += _layout.check_layout(ctx, "L", r)
            if name == "Aggregate":
                agg = [e for e in r.events if e["kind"] == "aggregator_call"]
                if agg:
                    ctx.require(len(agg) == 1, "A", "Aggregate (isolated): aggregator applied once", "one call", f"{len(agg)} calls", agg[0]["loc"], nontrivial=False)
    ctx.floor("layout sites of isolated blocks", n, 4)
