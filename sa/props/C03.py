"""C03 — UPGrad / DualProj: parameter roles and QP plumbing (DESIGN.md 5/C03).

Only structural necessary conditions are decided: each public parameter reaches exactly the sink that gives it its
documented meaning, and the returned weights come out of the QP on every path.  Exactness/uniqueness of the QP solution
is numerical and NOT decided."""

from __future__ import annotations

from ..poly import Poly
from ..values import TV
from . import _agg

m = Poly.sym("m")


def _call_time_configuration(index, ctx, names):
    """norm_eps / reg_eps / solver are public attributes of the weighting (repr shows them, users re-assign them): what forward computes with
    must be the attribute read at call time, not a copy the constructor took. A constructor parameter stored verbatim as a public attribute
    AND captured in another field (a functools.partial, a derived value) that forward uses is such a copy."""
    import ast

    from ..report import norm_text

    ctx.rule("R5", "the configuration forward computes with is read when forward runs: no constructor parameter that is kept as a public attribute is also frozen into another "
                   "field (a partial, a pre-computed value) that forward uses instead")
    for name in names:
        cls = _agg.weighting_of(index, name)
        if cls is None:
            continue
        ini, fwd = cls.lookup("__init__"), cls.lookup("forward")
        if ini is None or fwd is None:
            continue
        params = {a.arg for a in ini[1].node.args.args[1:]}
        stores_ = [(t.attr, a.value) for a in ast.walk(ini[1].node) if isinstance(a, ast.Assign) and len(a.targets) == 1 for t in [a.targets[0]]
                   if isinstance(t, ast.Attribute) and isinstance(t.value, ast.Name) and t.value.id == "self"]
        public = {f: v.id for f, v in stores_ if isinstance(v, ast.Name) and v.id in params and not f.startswith("_")}
        reached, todo = set(), ["forward"]
        while todo:
            m_ = todo.pop()
            r_ = cls.lookup(m_)
            if m_ in reached or r_ is None:
                continue
            reached.add(m_)
            todo += [x.func.attr for x in ast.walk(r_[1].node) if isinstance(x, ast.Call) and isinstance(x.func, ast.Attribute) and isinstance(x.func.value, ast.Name) and x.func.value.id == "self"]
        read = {x.attr for m_ in reached for x in ast.walk(cls.lookup(m_)[1].node) if isinstance(x, ast.Attribute) and isinstance(x.value, ast.Name) and x.value.id == "self"}
        bad = [(f, v, sorted({x.id for x in ast.walk(v) if isinstance(x, ast.Name)} & set(public.values()))) for f, v in stores_
               if f in read and not (isinstance(v, ast.Name) and v.id in params) and ({x.id for x in ast.walk(v) if isinstance(x, ast.Name)} & set(public.values()))]
        key = f"{name}: forward reads its configuration at call time"
        if bad:
            f, v, ps = bad[0]
            pubs = [pf for pf, pp in public.items() if pp in ps]
            ctx.violated("R5", key, f"the constructor freezes {ps} into self.{f} = `{norm_text(v)[:70]}`, which forward uses, while the same value stays visible and assignable as "
                         f"self.{pubs[0]}: after `aggregator.weighting.{pubs[0]} = ...` repr() shows the new value and the projection is still computed with the old one", ini[1].loc(v))
        else:
            ctx.ok("R5", key, f"public configuration {sorted(public)} is not duplicated into fields forward uses", ini[1].loc())


def check(index, ctx):
    A, by_class = _agg.analysis(index)
    ctx.rule("R1", "norm_eps is the operand compared (<) against the largest singular value of the raw matrix (degree 1, from svd) and nothing else; "
             "reg_eps is the scalar multiplying an identity that is added to the normalised Gramian handed to the QP as P; "
             "pref_vector (or the uniform 1/m) is the lower bound h = -u of the QP; solver reaches solve_qp(solver=)")
    ctx.rule("R2", "on every returning path the weights are the output of solve_qp (UPGrad: summed over the axis indexing the projected vectors)")
    ctx.rule("R3", "the configured preference vector / the input is what every call sees: nothing on a path of UPGrad/DualProj writes in place into a value that may share memory "
             "with a constructor argument or with the matrix (so the second call solves the same QP as the first)")
    ctx.rule("R4", "scale safety: no product or power on a returning path of UPGrad/DualProj has a result that scales like the input to a power > 1 — the Gramian handed to the QP is assembled "
             "from factors already divided by the largest singular value (J·Jᵀ formed first overflows for finite inputs of large magnitude, whatever it is divided by afterwards)")
    names = _agg.classes_named(index, ["UPGrad", "DualProj"], ctx, "R1")
    W_UP = _agg.weighting_of(index, "UPGrad")
    _call_time_configuration(index, ctx, names)
    n = 0
    for name in names:
        cls = by_class[name][0].cls
        for run in by_class[name]:
            given = "pref_vector=<given>" in run.label
            for r in _agg.returning(run):
                n += 1
                pk = f"{name}({run.label}) path[{r.describe_path()}]"
                unk = _agg.blocking_unknowns(r)
                if unk or not isinstance(r.value, TV):
                    ctx.undecided("R1", pk, "path not fully typed: " + "; ".join(f"{e['loc']} {e.get('why', '')}" for e in unk[:3]), cls.loc())
                    continue
                ev = r.events
                high = [e for e in ev if e["kind"] == "deg_high" and "matrix" in e.get("origin", [])]
                ctx.require(not high, "R4", pk if not high else f"{name}: {high[0]['function'].split('.')[-1]}: `{high[0]['text'][:60]}`", "every intermediate scales at most linearly with the input",
                            (f"`{high[0]['text'][:80]}` scales like the input to the power {high[0]['deg']}: for finite inputs of magnitude ~1e20 (float32) it overflows before the normalisation, "
                             "so the projection is computed from inf/nan") if high else "", high[0]["loc"] if high else cls.loc())
                for e in ev:
                    if e["kind"] == "store_cast" and e.get("buffer_dtype") == "Cfg" and e.get("value_dtype") != "Cfg":
                        ctx.violated("R2", f"{name}: {e['function'].split('.')[-1]}: {e['text'][:70]}",
                                     f"the QP solution (dtype tag {e.get('value_dtype')}) is stored into a buffer allocated with the dtype of the preference vector: an integer or half-precision "
                                     "preference vector truncates the weights (w = [4, 3] instead of [4.67, 3.58]) before they are converted to the matrix dtype", e["loc"])
                for e in ev:
                    if e["kind"] == "inplace" and e.get("alias"):
                        ctx.violated("R3", f"{name}: {e['function'].split('.')[-1]}: {e['text']}",
                                     f"`{e['text']}` writes in place into a value that may be (a view of) the configured preference vector or the input: a later call would project another vector", e["loc"])
                # ---- norm_eps: THRESHOLD
                thr = [e for e in ev if e["kind"] in ("scale_branch", "cmp") and ("norm_eps" in e.get("right_origin", []) or "norm_eps" in e.get("left_origin", []))]
                def oriented_ev(e):
                    """The comparison with norm_eps on the right (`eps > s` reads `s < eps`)."""
                    if e.get("left_origin") == ["norm_eps"] and e.get("right_origin") != ["norm_eps"]:
                        fl = {"Gt": "Lt", "GtE": "LtE", "Lt": "Gt", "LtE": "GtE"}
                        return dict(e, left=e.get("right"), right=e.get("left"), left_origin=e.get("right_origin"), right_origin=e.get("left_origin"), op=fl.get(e.get("op"), e.get("op")))
                    return e

                thr = [oriented_ev(e) for e in thr]
                # ... with the LARGEST singular value: the compared quantity is a max-reduction of the singular values (an element-wise test would zero
                # individual directions of a matrix that is above the threshold)
                maxes = {e2["id"] for e2 in ev if e2["kind"] == "sop" and e2["sop"] == "reduce" and e2.get("fn") in ("max", "amax") and any(o.startswith("svd_S#") for o in e2.get("in_origin", []))}
                good = [e for e in thr if e["kind"] == "scale_branch" and e.get("left") == "1" and e.get("right_origin") == ["norm_eps"] and e.get("op") in ("Lt", "LtE")
                        and any(o.startswith("svd_S#") for o in e.get("left_origin", [])) and (maxes & set(e.get("left_origin", [])))]
                svd_raw = any(e["kind"] == "sop" and e["sop"] == "svd_S" and e["raw"] for e in ev)
                incl = [e for e in good if e.get("op") == "LtE"]
                if incl:
                    ctx.violated("R1", f"{name}: norm_eps is a strict threshold", f"`{incl[0]['text'][:70]}` treats a largest singular value EQUAL to norm_eps as below it (an inclusive test: `<=`, "
                                 "or isclose(s, 0, atol=norm_eps)): for s == norm_eps the Gramian is zeroed and J^T u is returned although the statement asks for the projection whenever s >= norm_eps", incl[0]["loc"])
                    continue
                ok = len(thr) >= 1 and len(good) == len(thr) and svd_raw
                why = ""
                if not thr:
                    crossed = [e for e in ev if e["kind"] in ("scale_branch", "cmp") and any(o.startswith("svd_S#") for o in e.get("left_origin", []))]
                    why = "norm_eps is never compared with the singular values" + (f"; the singular-value test at {crossed[0]['loc']} `{crossed[0]['text']}` uses {crossed[0].get('right_origin')}" if crossed else "")
                elif len(good) != len(thr):
                    b = [e for e in thr if e not in good][0]
                    why = f"norm_eps is compared at {b['loc']} `{b['text']}` with a degree-{b.get('left')} value of origin {b.get('left_origin')} (expected: the largest singular value — a max over the singular values —, degree 1)"
                ctx.require(ok, "R1", f"{name}: norm_eps is the singular-value threshold" if not ok else pk + " norm_eps",
                            "norm_eps compared with the largest singular value", why, (thr[0]["loc"] if thr else cls.loc()))
                # ---- reg_eps: REGULARISER, P of the QP
                qps = [e for e in ev if e["kind"] == "solve_qp"]
                if not qps:
                    ctx.violated("R2", f"{name}: weights come out of the QP", f"path [{r.describe_path()}] returns weights without solving the QP", cls.loc())
                    continue
                qp = qps[0]
                P_or = qp["origins"].get("P", [])
                # (the identity itself, not a matrix computed from the Gramian — `eps * (I - G)` is another regulariser: P = (1 - eps)·G + eps·I)
                pure_eye = lambda os_: any(o.startswith("eye#") for o in os_) and not any(not o.endswith("#meta") and (o == "matrix" or o.startswith(("svd_S#", "matmul#", "reduce#"))) for o in os_)
                mul = [e for e in ev if e["kind"] == "op" and e["op"] == "mul" and ((e.get("left_origin") == ["reg_eps"] and pure_eye(e.get("right_origin", [])))
                                                                                   or (e.get("right_origin") == ["reg_eps"] and pure_eye(e.get("left_origin", []))))]
                add = [e for e in ev if e["kind"] == "op" and e["op"] == "add" and (("reg_eps" in e.get("left_origin", [])) != ("reg_eps" in e.get("right_origin", [])))
                       and any(o.startswith("svd_S#") for o in e.get("left_origin", []) + e.get("right_origin", []))]
                # below the norm_eps threshold the normalised Gramian is the zero matrix (possibly returned early, without touching the decomposition)
                below = any(e["kind"] == "decision" and e.get("outcome") is not None and any(c.get("kind") == "scale_branch" and "norm_eps" in (c.get("right_origin", []) + c.get("left_origin", []))
                                                                                                 for c in e.get("compares", []))
                            and (bool(e["outcome"]) == any(c.get("op") in ("Lt", "LtE") and c.get("right_origin") == ["norm_eps"] or c.get("op") in ("Gt", "GtE") and c.get("left_origin") == ["norm_eps"]
                                                           for c in e.get("compares", []))) for e in ev)
                add_any = [e for e in ev if e["kind"] == "op" and e["op"] == "add" and (("reg_eps" in e.get("left_origin", [])) != ("reg_eps" in e.get("right_origin", [])))]
                from_gramian = any(o.startswith("svd_S#") for o in P_or) or below
                okr = bool(mul) and bool(add or (below and add_any)) and "reg_eps" in P_or and from_gramian and "norm_eps" not in P_or
                whyr = ""
                if not okr:
                    whyr = (f"reg_eps is not the scalar of an identity added to the normalised Gramian handed to solve_qp as P (P derives from {P_or}; "
                            f"mul-by-identity sites: {[e['text'] for e in mul][:2]}, add sites: {[e['text'] for e in add][:2]})")
                mixed = [e for e in ev if e["kind"] == "op" and e["op"] == "mul" and any(sd == ["reg_eps"] and any(o.startswith("eye#") for o in ot) and not pure_eye(ot)
                                                                                          for sd, ot in ((e.get("left_origin"), e.get("right_origin", [])), (e.get("right_origin"), e.get("left_origin", []))))]
                if okr:
                    ctx.ok("R1", pk + " reg_eps", "P = normalised Gramian + reg_eps·I", qp["loc"])
                elif mixed and not mul:
                    ctx.violated("R1", f"{name}: reg_eps regularises the Gramian of the QP", f"`{mixed[0]['text'][:80]}` multiplies reg_eps with a matrix made of the identity AND the Gramian (an interpolation "
                                 "towards the identity): P = (1 - reg_eps)·G + reg_eps·I instead of G + reg_eps·I, which is another quadratic form and has another minimiser", mixed[0]["loc"])
                elif "reg_eps" not in P_or or "norm_eps" in P_or:
                    ctx.violated("R1", f"{name}: reg_eps regularises the Gramian of the QP", whyr, qp["loc"])
                else:
                    ctx.undecided("R1", f"{name}: reg_eps regularises the Gramian of the QP", "reg_eps reaches P, but not through a recognised `Gramian + reg_eps·I` form: " + whyr, qp["loc"])
                # ---- pref_vector: lower bound of the QP
                h_or = qp["origins"].get("h", [])
                hp = qp["polys"].get("h")
                if given:
                    okp = "pref_vector" in h_or
                    whyp = f"the QP's bound h derives from {h_or}, not from pref_vector"
                else:
                    okp = hp is not None and hp == -(m.inverse())
                    whyp = f"without pref_vector the QP's bound h should be -1/m (uniform), found closed form {hp}"
                lb_or = qp["origins"].get("lb", [])
                if not okp and qp["polys"].get("h") is None and not h_or and lb_or:
                    # solve_qp(P, q, lb=u): the same constraint v >= u written as a lower bound
                    lbp = qp["polys"].get("lb")
                    okp = ("pref_vector" in lb_or) if given else (lbp is not None and lbp == m.inverse())
                    whyp = f"the QP's lower bound lb derives from {lb_or} (closed form {lbp})"
                if okp:
                    ctx.ok("R1", pk + " pref_vector", "h = -u", qp["loc"])
                elif not given and hp is None and (qp["polys"].get("lb") is None):
                    ctx.undecided("R1", f"{name}(default): preference vector is the QP's lower bound", "the bound handed to the QP has no closed form the engine could derive (expected -1/m)", qp["loc"])
                else:
                    ctx.violated("R1", f"{name}({'pref' if given else 'default'}): preference vector is the QP's lower bound", whyp, qp["loc"])
                zq = qp["degs"].get("q") == "Z" or (qp["polys"].get("q") is not None and qp["polys"]["q"].const_value() == 0)
                ctx.require(zq, "R1", f"{name}: QP has no linear term" if not zq else pk + " q=0", "q = 0", f"linear term q of the QP is not zero ({qp['polys'].get('q')})", qp["loc"])
                # ---- solver
                ctx.require(qp.get("solver") == "<solver>", "R1", f"{name}: solver reaches solve_qp" if qp.get("solver") != "<solver>" else pk + " solver",
                            "solver forwarded", f"solve_qp is called with solver={qp.get('solver')!r} instead of the constructor's parameter", qp["loc"])
                # ---- R2: result derives from the QP
                from_qp = "solve_qp" in r.value.origin
                ctx.require(from_qp, "R2", f"{name}: weights come out of the QP" if not from_qp else pk + " from QP", "returned value derives from solve_qp",
                            f"on path [{r.describe_path()}] the returned value does not derive from the QP solution", cls.loc())
                if name == "UPGrad":
                    Uax = qp["axes"].get("h")
                    # (the reduction belongs to the weighting wherever it is written — in the class, or in a helper the projected weights are handed to: what
                    #  identifies it is that it reduces the QP solutions)
                    on_w = lambda e: _agg.in_weighting(e, W_UP) or "solve_qp" in e.get("in_origin", [])
                    red = [e for e in ev if e["kind"] == "sop" and e["sop"] == "reduce" and e["fn"] == "sum" and e["in_axes"] == ["R", "R"] and e["over_pos"] == [0]
                           and on_w(e)]
                    other_red = [e for e in ev if e["kind"] == "sop" and e["sop"] == "reduce" and on_w(e) and "solve_qp" in e.get("in_origin", []) and e not in red]
                    if len(red) == 1 and not other_red:
                        ctx.ok("R2", pk + " sum(dim=0)", "sum over dim 0 of W", cls.loc())
                    elif other_red or len(red) > 1:
                        w_ = (other_red or red)[0]
                        ctx.violated("R2", "UPGrad: projected weight rows are summed over the axis indexing the projected vectors",
                                     f"the projected weights are reduced by `{w_['text']}` ({w_['fn']} over {w_.get('over')}) instead of a single sum over dim 0", w_["loc"])
                    else:
                        # the sum written as a loop: `acc += project(u_i e_i)` for every row index i, acc starting at zero
                        acc = [e for e in ev if e["kind"] in ("inplace", "accumulate") and _agg.in_weighting(e, W_UP) and e.get("op") == "Add" and "solve_qp" in (e.get("rhs_origin") or [])]
                        sites = {e["loc"] for e in acc}
                        scat = [e for e in ev if e["kind"] == "sop" and e["sop"] == "index_put" and _agg.in_weighting(e, W_UP) and e.get("in_idx_of") == "R" and e.get("in_origin") == ["loop-index"]
                                and e.get("base_poly") == Poly.const(0) and not e.get("aug")]
                        if len(sites) == 1 and all(e.get("over_loop_index") and e.get("target_axes") == ["R"] for e in acc) and scat and "solve_qp" in r.value.origin:
                            ctx.ok("R2", pk + " sum as accumulation", "one accumulation `acc += project(u_i·e_i)` over every row index i: the sum over the projected vectors, term by term", cls.loc())
                        else:
                            ctx.undecided("R2", "UPGrad: projected weight rows are summed over the axis indexing the projected vectors",
                                          "no reduction of the projected weights was recognised (the sum may be written as a loop)", cls.loc())
    ctx.floor("returning paths of UPGrad/DualProj", n, 4)
    _fixed_dtype_conversions(index, ctx)
    _agg.common_evidence(ctx, index)
    ctx.assumptions.append("exactness and uniqueness of the QP solution, and the two 'consequently' clauses, are numerical and NOT decided")


def _fixed_dtype_conversions(index, ctx):
    """R6: the preference vector and the values derived from the matrix keep the precision they were given in. A conversion to the process-wide default
    dtype (torch.get_default_dtype()) or to a literal reduced floating dtype, in the modules UPGrad / DualProj are made of, rounds a float64 preference
    vector (or Gramian) to float32: the projection is then that of another vector. (float64 literals only widen and are what the numpy solver wants.)"""
    import ast

    ctx.rule("R6", "no tensor is converted to torch.get_default_dtype() or to a literal float32 / float16 / bfloat16 dtype (.to / .type / dtype= / .float() / .half() / .bfloat16()) in the modules "
                   "UPGrad and DualProj are made of (upgrad, dualproj, _pref_vector_utils, constant, mean, _dual_cone_utils, _gramian_utils, bases): a float64 preference vector or matrix keeps its precision")
    mods = ("upgrad", "dualproj", "_pref_vector_utils", "constant", "mean", "_dual_cone_utils", "_gramian_utils", "bases")
    NARROW = ("float32", "float", "float16", "half", "bfloat16")
    n = 0
    for fi in index.all_functions("torchjd.aggregation"):
        if fi.parent is not None or fi.module.name.split(".")[-1] not in mods:
            continue
        n += 1
        for c in ast.walk(fi.node):
            if not isinstance(c, ast.Call):
                continue
            bad = None
            if isinstance(c.func, ast.Attribute) and c.func.attr in ("float", "half", "bfloat16") and not c.args and not c.keywords and not (isinstance(c.func.value, ast.Name) and c.func.value.id in ("torch", "np", "numpy")):
                bad = f".{c.func.attr}()"
            cands = [k.value for k in c.keywords if k.arg == "dtype"]
            if isinstance(c.func, ast.Attribute) and c.func.attr in ("to", "type", "astype"):
                cands += list(c.args)
            for v in cands:
                t = ast.unparse(v)
                if t in ("torch.get_default_dtype()", "get_default_dtype()") or (isinstance(v, ast.Attribute) and isinstance(v.value, ast.Name) and v.value.id in ("torch", "np", "numpy") and v.attr in NARROW):
                    bad = t
            if bad is not None:
                ctx.violated("R6", f"{fi.short}: `{ast.unparse(c)[:70]}`", f"converts to {bad}, a dtype that does not depend on the input: a float64 preference vector / matrix is rounded to single "
                             "precision (or the result no longer has the precision of the matrix), so the weights are the projection of another vector", fi.loc(c))
    ctx.require(n > 0, "R6", "UPGrad/DualProj modules: no conversion to a fixed reduced or default dtype", f"{n} functions scanned", "no function of the listed modules found", "")
