"""C12 — default parameter discovery finds exactly the leaves that matter (DESIGN.md 5/C12).
Not decided: that torch creates an AccumulateGrad node for exactly the leaves requiring grad."""

from __future__ import annotations

import ast

from .. import AnalysisError
from ..astutil import base_name, names_read
from ..cfg import cfg_of, own_exprs
from ..report import norm_text
from . import _layout, _pipe

SIG_KINDS = ("autograd", "pack", "unpack", "aggregator_call", "grad_write", "create", "zip", "set_op", "diag", "reshape")  # validation of discovered leaves is vacuous: not compared


def path_signature(res, rename: dict, skip=None):
    """skip: atoms whose order tokens are left out of the signature — the same list on both sides of a comparison."""
    skip = list(skip) if skip is not None else list(rename) + list(rename.values())
    sig = []
    for e in res.events:
        if e["kind"] not in SIG_KINDS or "seq" not in e:
            continue
        def ren(v):
            if isinstance(v, str):
                for a, b in rename.items():
                    v = v.replace(a, b)
                return v
            if isinstance(v, list):
                return sorted(ren(x) for x in v) if all(isinstance(x, str) for x in v) else [ren(x) for x in v]
            return v

        txt = repr({k: ren(v) for k, v in e.items() if k in ("fn", "dim", "aug", "target", "like", "op", "axis", "allow_unused", "how", "shape", "left", "right")})
        if e["kind"] == "autograd":
            for fld in ("outputs", "grad_outputs"):
                d = e.get(fld)
                if isinstance(d, dict):
                    txt += f"|{fld}:{ren(str(d.get('order')))}:{ren(d.get('atoms') or [])}"
        if e["kind"] in ("pack", "diag"):
            o = str(e.get("order") or e.get("layout"))
            txt += "|" + ren(o).replace("'unordered'", "'*'").replace("'same'", "'*'") if any(a in o for a in ("tensors", "features", "losses", "tasks")) and not any(
                a in o for a in skip) else ""
        sig.append((e["kind"], e["loc"], txt))
    return tuple(sig)


def check(index, ctx):
    ctx.rule("R1", "'behaves exactly as if': after renaming the discovered collections to the explicit ones, the defaulted call executes exactly the same sequences of pipeline events "
             "(differentiations, packs, slices, aggregation, validations, .grad writes) as the explicit call, on every non-empty returning path")
    ctx.rule("R2", "discovery call sites receive the documented roles: backward: leaves of `tensors`, nothing excluded; mtl_backward shared: leaves of `features`, nothing excluded; "
             "mtl_backward tasks: for each loss, in the order of `losses`, leaves of that loss with the features excluded")
    ctx.rule("R3", "the overlap check receives the (possibly defaulted) collections of ALL tasks, before the pipeline is built, and rejects with ValueError")
    ctx.rule("R4", "traversal idiom: roots minus excluded; every adoption of a successor (push on the worklist / advancing the cursor) is guarded by 'successor is not None' and 'successor not in the "
             "visited-or-excluded set' and paired with adding it to that set; collection depends on the node kind only; leaves are the collected nodes' .variable")
    P, rs = _pipe.runs(index)
    by = {(r.entry, tuple(sorted(r.variant.items()))): r for r in rs}

    def get(entry, **v):
        return by.get((entry, tuple(sorted(v.items()))))

    # ------------------------------------------------------------------------------------------------ R1
    pairs = [
        ("backward", get("backward", inputs=True, chunk=True), get("backward", inputs=False, chunk=True), {"leaves(tensors)": "inputs"}),
        ("mtl_backward", get("mtl_backward", tasks=True, shared=True, chunk=True), get("mtl_backward", tasks=False, shared=False, chunk=True),
         {"leaves(losses[i]\\\\features)": "tasks_params[i]", "leaves(losses[i]\\features)": "tasks_params[i]", "leaves(features)": "shared_params"}),
        ("mtl_backward(shared only)", get("mtl_backward", tasks=True, shared=True, chunk=True), get("mtl_backward", tasks=True, shared=False, chunk=True), {"leaves(features)": "shared_params"}),
        ("mtl_backward(tasks only)", get("mtl_backward", tasks=True, shared=True, chunk=True), get("mtl_backward", tasks=False, shared=True, chunk=True),
         {"leaves(losses[i]\\\\features)": "tasks_params[i]", "leaves(losses[i]\\features)": "tasks_params[i]"}),
    ]
    for name, explicit, default, ren in pairs:
        if explicit is None or default is None:
            raise AnalysisError("entry variants missing")
        se = {path_signature(r, {}, skip=list(ren) + list(ren.values())) for r in _pipe.main_paths(explicit)}
        sd = {path_signature(r, ren) for r in _pipe.main_paths(default)}
        blk = [e for r in _pipe.main_paths(default) + _pipe.main_paths(explicit) for e in _pipe.blocking(r)]
        if blk:
            ctx.undecided("R1", f"{name}: defaulted vs explicit", f"construct outside the analysed subset: {blk[0]['loc']} `{blk[0]['text']}`", blk[0]["loc"])
            continue
        if not se or not sd:
            ctx.undecided("R1", f"{name}: defaulted vs explicit", f"no main path of the {'explicit' if not se else 'defaulted'} call could be followed to its end", "")
            continue
        same = se == sd
        diff = ""
        if not same:
            only_d = sorted(sd - se)
            only_e = sorted(se - sd)
            a = only_d[0] if only_d else ()
            b = only_e[0] if only_e else ()
            for i, (x, y) in enumerate(zip(a, b)):
                if x != y:
                    diff = f"first difference at event {i}: defaulted {x[0]} at {x[1]} {x[2][:120]} vs explicit {y[0]} at {y[1]} {y[2][:120]}"
                    break
            else:
                diff = f"event sequences differ in length ({len(a)} vs {len(b)}) or set of paths ({len(sd)} vs {len(se)})"
        ctx.require(same, "R1", f"{name}: the defaulted call behaves as the explicit one", f"{len(se)} non-empty path signature(s) coincide after renaming {ren}", diff, "",
                    derivation={"paths": len(se), "events_per_path": [len(s) for s in se]})
    # ------------------------------------------------------------------------------------------------ R2
    want = {
        "backward": [(["tensors"], True, False)],
        "mtl_backward": [(["features"], True, False), (["losses[i]"], False, True)],
    }
    for entry, roles in want.items():
        run = get("backward", inputs=False, chunk=True) if entry == "backward" else get("mtl_backward", tasks=False, shared=False, chunk=True)
        for res in _pipe.main_paths(run)[:1]:
            ld = _pipe.evs(res, "leaf_discovery")
            ctx.require(len(ld) == len(roles), "R2", f"{entry}: number of discovery calls", f"{len(ld)} call(s)", f"{len(ld)} leaf-discovery calls instead of {len(roles)}", ld[0]["loc"] if ld else "")
            for (tensors, excl_empty, in_loop), e in zip(roles, sorted(ld, key=lambda e: e["seq"])):
                ok = e["tensors"] == tensors and e["excluded_empty"] == excl_empty and (excl_empty or e["excluded"] == ["features"]) and e["in_loop"] == in_loop and \
                    (not in_loop or ("tasks" in e["loop_order"] and "'same'" in e["loop_order"]))
                ctx.require(ok, "R2", f"{entry}: discovery from {tensors}" + ("" if excl_empty else " excluding the features"),
                            f"tensors={e['tensors']}, excluded={e['excluded']}", f"discovery call receives tensors={e['tensors']}, excluded={e['excluded']} (empty={e['excluded_empty']}), "
                            f"in a loop over {e['loop_order']}; expected tensors={tensors}, excluded={'nothing' if excl_empty else 'the features'}", e["loc"])
    # argument given as a single Tensor: discovery must still receive the normalised collection
    for entry, atom in (("backward", "tensors"), ("mtl_backward", "features")):
        srun = next((r for r in rs if r.entry == entry and r.variant.get("single")), None)
        if srun is None:
            continue
        for res in _pipe.main_paths(srun)[:1]:
            ld = [e for e in _pipe.evs(res, "leaf_discovery") if e["excluded_empty"]]
            ok = bool(ld) and all(e["tensors"] == [atom] for e in ld)
            ctx.require(ok, "R2", f"{entry}: discovery from a single Tensor argument", f"receives the normalised list of {atom}",
                        f"with `{atom}` given as a single Tensor the discovery call receives {[e['tensors'] for e in ld]} instead of the normalised list: the defaulted call iterates / rejects a bare tensor "
                        "that the explicit call accepts", ld[0]["loc"] if ld else "")
    # no memoisation / hidden state in discovery: the graph may change between two calls on the same tensor objects
    for fi in index.all_functions("torchjd.autojac"):
        for d in getattr(fi.node, "decorator_list", []):
            t = norm_text(d)
            if any(x in t for x in ("lru_cache", "functools.cache", "cached_property")) or t in ("cache",):
                ctx.violated("R4", f"{fi.short}: decorated with {t}", "memoised results of the autograd-graph traversal are keyed on tensor objects, but in-place operations extend a tensor's graph: "
                             "a later defaulted call would reuse a stale leaf set", fi.loc())
    for m in index.modules.values():
        if m.name.startswith("torchjd.autojac"):
            for nm, e in m.globals_.items():
                if isinstance(e, (ast.Dict, ast.List, ast.Set)) or (isinstance(e, ast.Call) and norm_text(e.func) in ("dict", "list", "set", "defaultdict", "WeakKeyDictionary", "weakref.WeakKeyDictionary")):
                    ctx.violated("R4", f"{m.name}.{nm}: module-level mutable container", "hidden state shared between calls in autojac", f"{m.path}:{getattr(e, 'lineno', 0)}")
    # ------------------------------------------------------------------------------------------------ R3
    run = get("mtl_backward", tasks=False, shared=False, chunk=True)
    ov_fn = None
    for res in _pipe.main_paths(run)[:1]:
        ov = [e for e in _pipe.evs(res, "set_op") if e["op"] in ("BitAnd", "In")]
        first = min([e["seq"] for e in _pipe.evs(res, "autograd", "grad_write")] or [10 ** 9])
        ok = bool(ov) and {tuple(ov[0]["left"]), tuple(ov[0]["right"])} == {("leaves(losses[i]\\features)",), ("leaves(features)",)} and ov[0]["seq"] < first
        ctx.require(ok, "R3", "mtl_backward: overlap check on the defaulted collections", "intersection of the two default sets before the pipeline runs",
                    f"overlap check operands: {[(e['left'], e['right']) for e in ov]}", ov[0]["loc"] if ov else "")
        if ov:
            ov_fn = ov[0]["function"]
    rej = [r for r in run.raising() if r.exc.exc_name == "ValueError" and _pipe.overlap_rejection(r)]
    rej = rej or [r for r in run.results if _pipe.loop_overlap_rejection(r)]
    ctx.require(bool(rej), "R3", "mtl_backward: overlapping default sets are rejected", "ValueError path", "no ValueError path for overlapping default sets", "")
    if ov_fn:
        fi = index.functions.get(ov_fn)
        if fi is not None:
            ctx.analysed(fi.qualname)
            for loop in [n for n in ast.walk(fi.node) if isinstance(n, ast.For)]:
                for st in ast.walk(loop):
                    if isinstance(st, ast.Assign) and isinstance(st.targets[0], ast.Name) and any(
                            (isinstance(c, ast.Call) and isinstance(c.func, ast.Attribute) and c.func.attr == "intersection") or (isinstance(c, ast.BinOp) and isinstance(c.op, ast.BitAnd))
                            for c in ast.walk(st.value)):
                        v = st.targets[0].id
                        accum = v in names_read(st.value)
                        raised_in_loop = any(isinstance(x, ast.Raise) for x in ast.walk(loop))
                        ctx.require(accum or raised_in_loop, "R3", f"{fi.short}: every task's parameters are compared with the shared ones",
                                    "intersection accumulated over / tested inside the loop over tasks",
                                    f"`{norm_text(st)}` overwrites `{v}` on every iteration of the loop over the tasks and is only tested after the loop: only the LAST task is checked for overlap", fi.loc(st))
    # the element-wise form of the check walks ALL the tasks: it is not left early on a condition about one of them
    rej_fns = {e["function"] for r in rej for e in _pipe.evs(r, "raise")[-1:] if r.kind == "raise"} | {e["function"] for r in rej[:1] for e in _pipe.evs(r, "raise") if e.get("loops")}
    if ov_fn:
        rej_fns.add(ov_fn)
    for qn in sorted(rej_fns):
        fi = index.functions.get(qn)
        if fi is None:
            continue
        ctx.analysed(fi.qualname)
        from ..cfg import cfg_of as _cfg_of

        g_ = _cfg_of(fi.node)
        for loop in [n for n in ast.walk(fi.node) if isinstance(n, ast.For)]:
            variant = {x.id for x in ast.walk(loop.target) if isinstance(x, ast.Name)} | {x.id for st in ast.walk(loop) for x in ast.walk(st) if isinstance(x, ast.Name) and isinstance(x.ctx, ast.Store)}
            for st in ast.walk(loop):
                if not isinstance(st, (ast.Return, ast.Break)) or any(st in ast.walk(h) for h in ast.walk(loop) if isinstance(h, ast.For) and h is not loop):
                    continue
                nd_ = g_.node_of(st)
                dep = [t for t, lbl in g_.guards_of(nd_) if t.kind == "test" and hasattr(t.ast, "test") and any(t.ast is x for x in ast.walk(loop)) and names_read(t.ast.test) & variant]
                if dep:
                    ctx.violated("R3", f"{fi.short}: the loop over the tasks is left by `{norm_text(st)}`", f"`{norm_text(st)}` under `{norm_text(dep[0].ast.test)[:70]}` ends the whole check at the first task "
                                 "for which the test holds (e.g. a task without parameters): the parameters of the tasks after it are never compared with the shared ones", fi.loc(st))
    # ------------------------------------------------------------------------------------------------ R4
    traversal_idiom(index, ctx)
    _pipe.common_evidence(ctx, index)
    ctx.assumptions.append("torch creates an AccumulateGrad node for exactly the leaf tensors requiring grad (not decided)")


def implied_conditions(test, label):
    """Atomic conditions (expr text, truth) implied by taking edge `label` of `test`."""
    out = []
    truth = label == "True"

    def go(t, tr):
        if isinstance(t, ast.BoolOp):
            if (isinstance(t.op, ast.And) and tr) or (isinstance(t.op, ast.Or) and not tr):
                for v in t.values:
                    go(v, tr)
            return
        if isinstance(t, ast.UnaryOp) and isinstance(t.op, ast.Not):
            go(t.operand, not tr)
            return
        out.append((t, tr))

    go(test, truth)
    return out


def traversal_idiom(index, ctx):
    cands = [f for f in index.all_functions("torchjd.autojac") if f.parent is None and any(isinstance(n, ast.Attribute) and n.attr == "next_functions" for n in ast.walk(f.node))]
    if len(cands) != 1:
        ctx.undecided("R4", "graph traversal", f"expected one function reading .next_functions, found {[f.short for f in cands]}", "")
        return
    F = cands[0]
    ctx.analysed(F.qualname)
    from ..normalize import inline_local_closures

    from ..normalize import unflag_dict

    fn = unflag_dict(inline_local_closures(F.node))  # a local `_discover(node)` called as a statement is read in place; a dict used as "visited + flag" is read as a visited set and a result set
    cfg = cfg_of(fn)
    # ---- successor element variables and successor collections, with the conditions known to hold for their elements
    def is_nf(e):
        return any(isinstance(x, ast.Attribute) and x.attr == "next_functions" for x in ast.walk(e))

    def first_name(t):
        t = t.elts[0] if isinstance(t, ast.Tuple) and t.elts else t
        return t.id if isinstance(t, ast.Name) else None

    def conds_about(tests, var):
        """{('notnone',), ('notin', S)} implied for `var` by a list of (expr, truth) atomic conditions."""
        out = set()
        for c, tr in tests:
            if isinstance(c, ast.Compare) and len(c.ops) == 1 and isinstance(c.left, ast.Name) and c.left.id == var:
                op, r = c.ops[0], c.comparators[0]
                if isinstance(r, ast.Constant) and r.value is None and ((isinstance(op, ast.IsNot) and tr) or (isinstance(op, ast.Is) and not tr)):
                    out.add(("notnone",))
                if base_name(r) and ((isinstance(op, ast.NotIn) and tr) or (isinstance(op, ast.In) and not tr)):
                    out.add(("notin", base_name(r)))
        return out

    def unwrap(e):
        while isinstance(e, ast.Call) and norm_text(e.func) in ("list", "tuple", "set", "frozenset", "dict.fromkeys", "OrderedDict.fromkeys", "sorted", "deque", "iter") and len(e.args) >= 1:
            e = e.args[0]
        return e

    colls: dict = {}  # collection name -> set of conditions on its elements

    def comp_conds(e):
        """Conditions on the elements of a comprehension/generator over successors, or None if it is not one."""
        e = unwrap(e)
        if isinstance(e, ast.Name) and e.id in colls:
            return set(colls[e.id])
        if not isinstance(e, (ast.ListComp, ast.SetComp, ast.GeneratorExp)) or len(e.generators) != 1:
            return None
        g = e.generators[0]
        v = first_name(g.target)
        if v is None or not (isinstance(e.elt, ast.Name) and e.elt.id == v):
            return None
        if is_nf(g.iter):
            base = set()
        else:
            base = comp_conds(g.iter)
            if base is None:
                return None
        tests = []
        for c in g.ifs:
            tests += implied_conditions(c, "True")
        return base | conds_about(tests, v)

    changed = True
    while changed:
        changed = False
        for n in ast.walk(fn):
            if isinstance(n, ast.Assign) and len(n.targets) == 1 and isinstance(n.targets[0], ast.Name):
                cs = comp_conds(n.value)
                if cs is not None and colls.get(n.targets[0].id) != cs:
                    colls[n.targets[0].id] = cs
                    changed = True
    succ_vars = {}  # element variable -> inherited conditions (from the collection it iterates)
    for n in ast.walk(fn):
        if isinstance(n, ast.For):
            v = first_name(n.target)
            if v is None:
                continue
            if is_nf(n.iter):
                succ_vars[v] = set()
            else:
                cs = comp_conds(n.iter)
                if cs is not None:
                    succ_vars[v] = cs
        if isinstance(n, ast.Assign) and isinstance(n.targets[0], ast.Name) and is_nf(n.value) and comp_conds(n.value) is None and not isinstance(unwrap(n.value), (ast.ListComp, ast.SetComp, ast.GeneratorExp)):
            succ_vars[n.targets[0].id] = set()
    root_vars = {}
    fparams0 = [a.arg for a in fn.args.args]
    for n in ast.walk(fn):
        if isinstance(n, ast.For) and isinstance(n.iter, ast.Name) and fparams0 and n.iter.id == fparams0[0] and isinstance(n.target, ast.Name):
            root_vars[n.target.id] = {("notnone",)}  # roots are graph nodes (grad_fn of tensors that have one)
    # worklist and cursor
    pops = [n for n in ast.walk(fn) if isinstance(n, ast.Assign) and isinstance(n.value, ast.Call) and isinstance(n.value.func, ast.Attribute) and n.value.func.attr in ("pop", "popleft")]
    if not pops and frontier_form(ctx, F, fn, succ_vars, implied_conditions_fn=implied_conditions, kind_ok=lambda t, cur: _kind_test(index, F, t, cur)):
        _variable_mapping(index, ctx, F)
        return
    cursor = worklist = None
    if len(pops) == 1:
        cursor = pops[0].targets[0].id
        worklist = base_name(pops[0].value.func.value)
        init_name = worklist
    else:
        # other drivers that visit everything that is pushed:
        #  (L) level by level:  while level: nxt = []; for node in level: ... nxt.append(child) ...; level = nxt
        #  (C) a growing list read through an index:  i = 0; while i < len(nodes): node = nodes[i]; i += 1; ... nodes.append(child)
        for w in [x for x in ast.walk(fn) if isinstance(x, ast.While)]:
            if isinstance(w.test, ast.Name):
                fr = w.test.id
                fors = [f for f in w.body if isinstance(f, ast.For) and isinstance(f.iter, ast.Name) and f.iter.id == fr and isinstance(f.target, ast.Name)]
                re_ = [s_ for s_ in w.body if isinstance(s_, ast.Assign) and isinstance(s_.targets[0], ast.Name) and s_.targets[0].id == fr and isinstance(s_.value, ast.Name)]
                if len(fors) == 1 and len(re_) == 1 and w.body[-1] is re_[0]:
                    nxt = re_[0].value.id
                    fresh = [s_ for s_ in w.body if isinstance(s_, ast.Assign) and isinstance(s_.targets[0], ast.Name) and s_.targets[0].id == nxt
                             and ((isinstance(s_.value, (ast.List, ast.Set)) and not s_.value.elts) or (isinstance(s_.value, ast.Call) and norm_text(s_.value.func) in ("list", "set", "deque") and not s_.value.args))]
                    if len(fresh) == 1 and w.body.index(fresh[0]) < w.body.index(fors[0]):
                        cursor, worklist, init_name = fors[0].target.id, nxt, fr
            elif isinstance(w.test, ast.Compare) and len(w.test.ops) == 1 and isinstance(w.test.ops[0], ast.Lt) and isinstance(w.test.left, ast.Name) \
                    and isinstance(w.test.comparators[0], ast.Call) and norm_text(w.test.comparators[0].func) == "len" and len(w.test.comparators[0].args) == 1 \
                    and isinstance(w.test.comparators[0].args[0], ast.Name):
                ix, coll_ = w.test.left.id, w.test.comparators[0].args[0].id
                reads = [s_ for s_ in w.body if isinstance(s_, ast.Assign) and isinstance(s_.targets[0], ast.Name) and isinstance(s_.value, ast.Subscript)
                         and norm_text(s_.value.value) == coll_ and norm_text(s_.value.slice) == ix]
                steps = [s_ for s_ in w.body if isinstance(s_, ast.AugAssign) and isinstance(s_.op, ast.Add) and isinstance(s_.target, ast.Name) and s_.target.id == ix
                         and isinstance(s_.value, ast.Constant) and s_.value.value == 1]
                if len(reads) == 1 and len(steps) == 1 and not any(isinstance(x, (ast.Break,)) for x in ast.walk(w)):
                    cursor, worklist, init_name = reads[0].targets[0].id, coll_, coll_
    if cursor is None or not (succ_vars or colls):
        ctx.undecided("R4", f"{F.short}: worklist", "worklist pop / successor variables not recognised", F.loc())
        return
    # roots: worklist initialised from roots minus excluded
    init = [n for n in ast.walk(fn) if isinstance(n, ast.Assign) and isinstance(n.targets[0], ast.Name) and n.targets[0].id == init_name
            and not (isinstance(n.value, ast.Name))]
    roots_ok = bool(init) and any((isinstance(x, ast.BinOp) and isinstance(x.op, ast.Sub)) or (isinstance(x, ast.Call) and isinstance(x.func, ast.Attribute) and x.func.attr == "difference")
                                  for x in ast.walk(init[0].value))
    how_roots = f"`{norm_text(init[0]) if init else ''}`"
    if not roots_ok and init and len(fn.args.args) >= 2:
        # `[r for r in roots if r not in S]` where S is the excluded collection or a local copy of it (set(excluded), excluded.copy(), excluded | ...)
        p_roots, p_excl = fn.args.args[0].arg, fn.args.args[1].arg
        holds_excl = {p_excl}
        for a_ in ast.walk(fn):
            if isinstance(a_, ast.Assign) and len(a_.targets) == 1 and isinstance(a_.targets[0], ast.Name) and getattr(a_, "lineno", 0) < init[0].lineno:
                v_ = a_.value
                if (isinstance(v_, ast.Call) and norm_text(v_.func) in ("set", "frozenset") and len(v_.args) == 1 and norm_text(v_.args[0]) == p_excl) or \
                        (isinstance(v_, ast.Call) and isinstance(v_.func, ast.Attribute) and v_.func.attr == "copy" and norm_text(v_.func.value) == p_excl and not v_.args) or \
                        (isinstance(v_, ast.BinOp) and isinstance(v_.op, ast.BitOr) and p_excl in (norm_text(v_.left), norm_text(v_.right))):
                    holds_excl.add(a_.targets[0].id)
        for c_ in ast.walk(init[0].value):
            if isinstance(c_, (ast.ListComp, ast.GeneratorExp, ast.SetComp)) and len(c_.generators) == 1:
                g_ = c_.generators[0]
                if isinstance(g_.target, ast.Name) and isinstance(c_.elt, ast.Name) and c_.elt.id == g_.target.id and norm_text(g_.iter) == p_roots and len(g_.ifs) >= 1 \
                        and any(isinstance(t_, ast.Compare) and len(t_.ops) == 1 and isinstance(t_.ops[0], ast.NotIn) and norm_text(t_.left) == g_.target.id
                                and norm_text(t_.comparators[0]) in holds_excl for t_ in g_.ifs):
                    roots_ok, how_roots = True, f"roots filtered one by one: `{norm_text(c_)}`"
    if not roots_ok:
        # the subtraction may be done (1) by the caller before the call, or (2) root by root: `for r in roots: if r not in <closed>: <schedule r>`
        fparams = [a.arg for a in fn.args.args]
        for r_loop in [x for x in ast.walk(fn) if isinstance(x, ast.For) and isinstance(x.iter, ast.Name) and x.iter.id in fparams[:1] and isinstance(x.target, ast.Name)]:
            rv = r_loop.target.id
            guards_ = [t for t in ast.walk(r_loop) if isinstance(t, ast.Compare) and len(t.ops) == 1 and isinstance(t.ops[0], (ast.NotIn, ast.In)) and isinstance(t.left, ast.Name) and t.left.id == rv]
            if guards_ and len(r_loop.body) == 1 and isinstance(r_loop.body[0], ast.If):
                g0 = r_loop.body[0]
                pos = isinstance(g0.test, ast.Compare) and isinstance(g0.test.ops[0], ast.NotIn) and not g0.orelse
                neg = isinstance(g0.test, ast.Compare) and isinstance(g0.test.ops[0], ast.In) and g0.body and isinstance(g0.body[0], ast.Continue)
                if pos or neg:
                    roots_ok, how_roots = True, f"roots scheduled one by one under `{norm_text(g0.test)}`"
        if not roots_ok:
            fns_ = [f for f in index.all_functions("torchjd.autojac") if f.parent is None and f is not F]
            sites = [(f, c) for f in fns_ for c in ast.walk(f.node) if isinstance(c, ast.Call) and isinstance(c.func, ast.Name) and c.func.id == F.name]
            ok_sites = 0
            for f, c in sites:
                ra = next((k_.value for k_ in c.keywords if k_.arg == fparams[0]), c.args[0] if c.args else None)
                ea = next((k_.value for k_ in c.keywords if len(fparams) > 1 and k_.arg == fparams[1]), c.args[1] if len(c.args) > 1 else None)
                if not (isinstance(ra, ast.Name) and isinstance(ea, ast.Name)):
                    continue
                before = [s_ for s_ in ast.walk(f.node) if isinstance(s_, ast.stmt) and getattr(s_, "lineno", 0) < c.lineno]
                sub = any(isinstance(s_, ast.Expr) and isinstance(s_.value, ast.Call) and isinstance(s_.value.func, ast.Attribute) and s_.value.func.attr == "difference_update"
                          and norm_text(s_.value.func.value) == ra.id and len(s_.value.args) == 1 and norm_text(s_.value.args[0]) == ea.id for s_ in before) or \
                    any(isinstance(s_, (ast.Assign, ast.AugAssign)) and norm_text(s_.targets[0] if isinstance(s_, ast.Assign) else s_.target) == ra.id and
                        ((isinstance(s_, ast.AugAssign) and isinstance(s_.op, ast.Sub) and norm_text(s_.value) == ea.id) or
                         (isinstance(s_, ast.Assign) and isinstance(s_.value, ast.BinOp) and isinstance(s_.value.op, ast.Sub) and norm_text(s_.value.right) == ea.id) or
                         (isinstance(s_, ast.Assign) and isinstance(s_.value, ast.Call) and isinstance(s_.value.func, ast.Attribute) and s_.value.func.attr == "difference" and s_.value.args and norm_text(s_.value.args[0]) == ea.id))
                        for s_ in before)
                ok_sites += bool(sub)
            if sites and ok_sites == len(sites):
                roots_ok, how_roots = True, f"every caller subtracts the excluded nodes from the roots before the call ({len(sites)} call site(s))"
    _roots_msg = (how_roots, f"worklist initialisation `{norm_text(init[0]) if init else '?'}` does not subtract the excluded nodes from the roots", F.loc(init[0]) if init else F.loc())
    # ---- "closed when popped": right after the pop, `if <cursor> in S: continue` and `S.add(<cursor>)` — a node may be scheduled several times, only its first pop is
    #      processed; excluded roots are dropped there too, so neither the roots nor the pushes need a membership test of their own
    pop_filter = None
    for w_ in [x for x in ast.walk(fn) if isinstance(x, ast.While)]:
        body_ = [x for x in w_.body if not (isinstance(x, ast.Expr) and isinstance(x.value, ast.Constant))]
        for i_, st_ in enumerate(body_[:-2]):
            if isinstance(st_, ast.Assign) and isinstance(st_.targets[0], ast.Name) and st_.targets[0].id == cursor:
                t1, t2 = body_[i_ + 1], body_[i_ + 2]
                if isinstance(t1, ast.If) and not t1.orelse and len(t1.body) == 1 and isinstance(t1.body[0], ast.Continue) and isinstance(t1.test, ast.Compare) and len(t1.test.ops) == 1 \
                        and isinstance(t1.test.ops[0], ast.In) and isinstance(t1.test.left, ast.Name) and t1.test.left.id == cursor and base_name(t1.test.comparators[0]) \
                        and isinstance(t2, ast.Expr) and isinstance(t2.value, ast.Call) and isinstance(t2.value.func, ast.Attribute) and t2.value.func.attr == "add" \
                        and base_name(t2.value.func.value) == base_name(t1.test.comparators[0]) and t2.value.args and isinstance(t2.value.args[0], ast.Name) and t2.value.args[0].id == cursor:
                    pop_filter = base_name(t1.test.comparators[0])
    if pop_filter is not None and not roots_ok:
        ctx.ok("R4", f"{F.short}: traversal starts from the roots minus the excluded nodes", f"every popped node found in `{pop_filter}` is dropped (excluded roots included)", F.loc())
    else:
        ctx.require(roots_ok, "R4", f"{F.short}: traversal starts from the roots minus the excluded nodes", _roots_msg[0], _roots_msg[1], _roots_msg[2])
    # adoptions: (cfg node, what is adopted, conditions known, how, is_collection)
    adoptions = []
    root_pushes = []
    for n in cfg.stmt_nodes():
        a = n.ast
        if n.kind != "stmt":
            continue
        guards = []
        for t, lbl in cfg.guards_of(n):
            test = t.ast.test if t.kind == "test" and hasattr(t.ast, "test") else None
            if test is not None:
                guards += implied_conditions(test, lbl)
        if isinstance(a, ast.Expr) and isinstance(a.value, ast.Call) and isinstance(a.value.func, ast.Attribute) and base_name(a.value.func.value) == worklist and a.value.args:
            arg, meth = a.value.args[0], a.value.func.attr
            if meth in ("append", "appendleft", "add") and isinstance(arg, ast.Name) and arg.id in succ_vars:
                adoptions.append((n, arg.id, succ_vars[arg.id] | conds_about(guards, arg.id), "pushed on the worklist", False, guards))
            elif meth in ("append", "appendleft", "add") and isinstance(arg, ast.Name) and arg.id in root_vars:
                root_pushes.append((n, arg.id, guards))
            elif meth in ("extend", "extendleft", "update"):
                cs = comp_conds(arg)
                if cs is not None:
                    adoptions.append((n, norm_text(arg), cs, "pushed on the worklist", True, guards))
                elif names_read(arg) & (set(succ_vars) | set(colls)):
                    ctx.undecided("R4", f"{F.short}: `{norm_text(a)}`", "successors are pushed on the worklist in a form that is not recognised", F.loc(a))
            elif names_read(arg) & set(succ_vars):
                ctx.undecided("R4", f"{F.short}: `{norm_text(a)}`", "successors are pushed on the worklist in a form that is not recognised", F.loc(a))
        if isinstance(a, ast.Assign) and isinstance(a.targets[0], ast.Name) and a.targets[0].id == cursor and isinstance(a.value, ast.Name) and a.value.id in succ_vars:
            adoptions.append((n, a.value.id, succ_vars[a.value.id] | conds_about(guards, a.value.id), "made the current node", False, guards))
    # the worklist holds every node that was scheduled until it is popped: a bounded deque silently drops nodes from the other end when it is full
    for c_ in ast.walk(fn):
        if isinstance(c_, ast.Call) and norm_text(c_.func).split(".")[-1] == "deque" and (any(k.arg == "maxlen" and not (isinstance(k.value, ast.Constant) and k.value.value is None) for k in c_.keywords) or len(c_.args) >= 2):
            ctx.violated("R4", f"{F.short}: worklist `{norm_text(c_)[:60]}` is bounded", f"`{norm_text(c_)[:80]}`: appending to a full bounded deque discards an element from the opposite end — pending "
                         "nodes are dropped once the frontier exceeds the bound, and the leaves behind them are never discovered", F.loc(c_))
    ctx.floor("successor adoption sites", len(adoptions), 1)
    visited_sets = set()
    excl_sets = set()  # sets the adoption guard also excludes, without marking into them (the excluded nodes kept apart from the visited ones)
    for n, what, conds, how, is_coll, guards in adoptions:
        not_none = ("notnone",) in conds
        seen_sets = {c[1] for c in conds if c[0] == "notin"}
        # marking: S.add(var) / S.update(collection) / S |= ... in the same block, for a set S the membership test refers to
        marked_in = set()
        for blk_stmt in enclosing_siblings(fn, n.ast):
            for x in ast.walk(blk_stmt):
                if isinstance(x, ast.Call) and isinstance(x.func, ast.Attribute) and x.args:
                    if x.func.attr == "add" and not is_coll and isinstance(x.args[0], ast.Name) and x.args[0].id == what:
                        marked_in.add(base_name(x.func.value))
                    if x.func.attr == "update" and is_coll and norm_text(unwrap(x.args[0])) == norm_text(unwrap(ast.parse(what, mode="eval").body)):
                        marked_in.add(base_name(x.func.value))
                if isinstance(x, ast.AugAssign) and isinstance(x.op, ast.BitOr) and is_coll and norm_text(unwrap(x.value)) == norm_text(unwrap(ast.parse(what, mode="eval").body)):
                    marked_in.add(base_name(x.target))
        ok_sets = seen_sets & marked_in
        if pop_filter is not None and not ok_sets:
            ok_sets = {pop_filter}  # duplicates and excluded nodes are dropped when popped
            marked_in = marked_in | {pop_filter}
        visited_sets |= ok_sets
        excl_sets |= {s_ for s_ in seen_sets if s_ not in marked_in}
        wrong = [norm_text(c) for c, tr in guards if isinstance(c, ast.Compare) and isinstance(c.ops[0], (ast.In, ast.NotIn)) and not (isinstance(c.left, ast.Name) and c.left.id == what)]
        if not marked_in and not is_coll and not any(isinstance(x, ast.Call) and isinstance(x.func, ast.Attribute) and x.func.attr in ("add", "update") for x in ast.walk(fn)
                                                      if isinstance(x, ast.Call) and x.args and names_read(x.args[0]) & (set(succ_vars) | set(colls))):
            ctx.violated("R4", f"{F.short}: visited set", "adopted successors are never recorded in a visited set (nodes reachable along several paths are traversed repeatedly / never terminate on cycles)", F.loc())
            continue
        if not is_coll:
            # nothing else decides whether a successor is followed: a node skipped for any other reason takes the leaves below it out of the result
            def recognised(c):
                if isinstance(c, ast.Name):
                    return True
                if isinstance(c, ast.Compare) and len(c.ops) == 1 and isinstance(c.left, ast.Name) and c.left.id == what and isinstance(c.ops[0], (ast.Is, ast.IsNot, ast.In, ast.NotIn)):
                    return True
                return _kind_test(index, F, c, what)

            # (names bound by the same loop target — `for child, output_nr in node.next_functions` — describe the same edge)
            sibs = {what} | {x.id for l_ in ast.walk(fn) if isinstance(l_, ast.For) and any(isinstance(x, ast.Name) and x.id == what for x in ast.walk(l_.target))
                             for x in ast.walk(l_.target) if isinstance(x, ast.Name)}
            extra = [(c, tr) for c, tr in guards if (sibs & names_read(c)) and not recognised(c)]
            if extra:
                c0, tr0 = extra[0]
                ctx.violated("R4", f"{F.short}: successor `{what}` is followed only if `{norm_text(c0)[:60]}` is {tr0}",
                             f"`{norm_text(n.ast)}` is also guarded by `{norm_text(c0)[:80]}`: a successor failing this test is not followed although it is neither None nor excluded nor visited, "
                             "so every leaf that is reachable only through it is missing from the result", F.loc(c0))
                continue
        ctx.require(not_none and bool(ok_sets), "R4", f"{F.short}: successor `{what}` {how}", "guarded by `is not None` and `not in` the visited/excluded set, and marked",
                    f"`{norm_text(n.ast)}`: successor `{what}` is {how} without " + ", ".join(x for x, ok in (("the `is not None` test", not_none), ("a `not in <visited>` test", bool(seen_sets)),
                                                                                                          ("adding it to the set the membership test reads", bool(ok_sets) or not seen_sets)) if not ok)
                    + (f" (membership is tested on another variable: {wrong})" if wrong and not seen_sets else ""), F.loc(n.ast))
    # the visited set starts from the excluded nodes
    for vs in sorted(visited_sets):
        vinit = [x for x in ast.walk(fn) if isinstance(x, ast.Assign) and isinstance(x.targets[0], ast.Name) and x.targets[0].id == vs]
        params_ = {a.arg for a in fn.args.args}
        from ..astutil import inline_locals

        ok = vs in params_ or any(names_read(x.value) & params_ or names_read(inline_locals(x.value, fn, keep={vs})) & params_ for x in vinit)
        if not ok:
            # the excluded nodes may be kept in a set of their own that the same guard tests: `child in excluded or child in visited`
            for es in excl_sets:
                einit = [x for x in ast.walk(fn) if isinstance(x, ast.Assign) and isinstance(x.targets[0], ast.Name) and x.targets[0].id == es]
                if es in params_ and not einit or any(names_read(x.value) & params_ for x in einit):
                    ok = True
        ctx.require(ok, "R4", f"{F.short}: visited set `{vs}` starts from the excluded nodes", "initialised from the parameter", f"`{vs}` is not initialised from the excluded nodes", F.loc(vinit[0]) if vinit else F.loc())
    # collection depends on the node kind only
    coll = [n for n in cfg.stmt_nodes() if n.kind == "stmt" and isinstance(n.ast, ast.Expr) and isinstance(n.ast.value, ast.Call) and isinstance(n.ast.value.func, ast.Attribute)
            and n.ast.value.func.attr == "add" and n.ast.value.args and ((isinstance(n.ast.value.args[0], ast.Name) and n.ast.value.args[0].id == cursor) or
                                                                          (isinstance(n.ast.value.args[0], ast.Attribute) and base_name(n.ast.value.args[0]) == cursor))
            and base_name(n.ast.value.func.value) != worklist and base_name(n.ast.value.func.value) != pop_filter]
    for n in coll:
        tests = [t for t, _ in cfg.guards_of(n) if t.kind == "test" and isinstance(t.ast, ast.If) and cursor in names_read(t.ast.test)
                 and not (t.ast.body and all(isinstance(b_, ast.Raise) for b_ in t.ast.body) and not t.ast.orelse)  # (earlier raise-guards on the arguments do not count)
                 and not (pop_filter is not None and isinstance(t.ast.test, ast.Compare) and isinstance(t.ast.test.ops[0], ast.In) and base_name(t.ast.test.comparators[0]) == pop_filter)]
        def kind_test(e):
            """The expression (or the one-line predicate it calls on the cursor) looks at the node's class name only."""
            if "AccumulateGrad" in norm_text(e) and cursor in names_read(e):
                return True
            if isinstance(e, ast.Call) and isinstance(e.func, ast.Name) and len(e.args) == 1 and isinstance(e.args[0], ast.Name) and e.args[0].id == cursor and not e.keywords:
                callee = index.resolve_name(F.module, e.func.id)
                from ..index import FunctionInfo

                if isinstance(callee, FunctionInfo) and len(callee.node.args.args) == 1:
                    rets = [r for r in ast.walk(callee.node) if isinstance(r, ast.Return) and r.value is not None]
                    par = callee.node.args.args[0].arg
                    return bool(rets) and all("AccumulateGrad" in norm_text(r.value) and names_read(r.value) <= {par, "type", "isinstance"} | {x for x in names_read(r.value) if x[0].isupper()} for r in rets)
            return False

        ok = len(tests) == 1 and kind_test(tests[0].ast.test)
        ctx.require(ok, "R4", f"{F.short}: collection of leaf accumulators", "conditional on the node kind only", f"`{norm_text(n.ast)}` is guarded by {[norm_text(t.ast.test) for t in tests]}", F.loc(n.ast))
    n_coll = len(coll)
    # ---- classification at DISCOVERY time: every discovered node (successor or root) is either collected (leaf accumulator) or scheduled, decided by its kind alone:
    #      `if <kind test on v>: result.add(v) else: worklist.append(v)`. Scheduled nodes are then never leaf accumulators, so nothing is collected at the pop.
    disc = []
    for n in cfg.stmt_nodes():
        a = n.ast
        if n.kind == "stmt" and isinstance(a, ast.Expr) and isinstance(a.value, ast.Call) and isinstance(a.value.func, ast.Attribute) and a.value.func.attr == "add" and a.value.args \
                and isinstance(a.value.args[0], ast.Name) and a.value.args[0].id in (set(succ_vars) | set(root_vars)) and base_name(a.value.func.value) != worklist \
                and not any(c[0] == "notin" and c[1] == base_name(a.value.func.value) for c in conds_about([g for t, lbl in cfg.guards_of(n) if t.kind == "test" and hasattr(t.ast, "test") for g in implied_conditions(t.ast.test, lbl)], a.value.args[0].id)):
            disc.append(n)
    if disc and not coll:
        ok_all = True
        for n in disc:
            v = n.ast.value.args[0].id
            par = next((x for x in ast.walk(fn) if isinstance(x, ast.If) and (n.ast in x.body or n.ast in x.orelse)), None)
            in_body = par is not None and n.ast in par.body
            other = (par.orelse if in_body else par.body) if par is not None else []
            kind_ok = par is not None and _kind_test(index, F, par.test if not (isinstance(par.test, ast.UnaryOp) and isinstance(par.test.op, ast.Not)) else par.test.operand, v)
            positive = par is not None and not (isinstance(par.test, ast.UnaryOp) and isinstance(par.test.op, ast.Not))
            pushes_other = any(isinstance(x, ast.Expr) and isinstance(x.value, ast.Call) and isinstance(x.value.func, ast.Attribute) and x.value.func.attr in ("append", "appendleft", "add")
                               and base_name(x.value.func.value) == worklist and x.value.args and isinstance(x.value.args[0], ast.Name) and x.value.args[0].id == v for x in other)
            good = kind_ok and pushes_other and (in_body == positive) and len(par.body) == 1 and len(par.orelse) == 1
            ok_all = ok_all and good
            n_coll += 1
            ctx.require(good, "R4", f"{F.short}: `{v}` is collected or scheduled according to its kind", "if <leaf accumulator>: collect, else: schedule",
                        f"`{norm_text(n.ast)}` is not one arm of `if <kind of {v}>: collect else: schedule`", F.loc(n.ast))
        # every scheduling of a discovered node is the other arm of such a classification (an unclassified leaf accumulator would be popped and never collected)
        classified = {id(x) for n in disc for par in [next((y for y in ast.walk(fn) if isinstance(y, ast.If) and (n.ast in y.body or n.ast in y.orelse)), None)] if par is not None for x in par.body + par.orelse}
        stray = [n for n, *_ in adoptions if id(n.ast) not in classified]  # (roots are grad_fn nodes of non-leaf tensors: never leaf accumulators — they may be scheduled as they are)
        ctx.require(not stray, "R4", f"{F.short}: every scheduled node went through the classification", "all pushes are the `else` arm of a kind test",
                    f"`{norm_text(stray[0].ast) if stray else ''}` schedules a node without classifying it: a leaf accumulator scheduled this way is popped (it has no successors) and never collected",
                    F.loc(stray[0].ast) if stray else F.loc())
        seen_vars = {n.ast.value.args[0].id for n in disc}
        ctx.require(bool(seen_vars & set(succ_vars)), "R4", f"{F.short}: successors are classified when discovered",
                    f"classified: {sorted(seen_vars)}", f"only {sorted(seen_vars)} are classified at discovery (successors: {sorted(succ_vars)})", F.loc())
    if not coll and not disc:
        # the traversal may hand every visited node to its caller (`yield node`), which keeps the leaf accumulators:
        # `{n for n in walk(...) if <kind test on n>}`
        yields = [n for n in cfg.stmt_nodes() if n.kind == "stmt" and isinstance(n.ast, ast.Expr) and isinstance(n.ast.value, ast.Yield) and isinstance(n.ast.value.value, ast.Name)
                  and n.ast.value.value.id == cursor]
        unconditional = all(not [t for t, _ in cfg.guards_of(n) if t.kind == "test" and isinstance(t.ast, ast.If) and cursor in names_read(t.ast.test)] for n in yields)
        if yields and unconditional:
            for g_ in index.all_functions("torchjd.autojac"):
                for c_ in ast.walk(g_.node):
                    if isinstance(c_, (ast.SetComp, ast.ListComp, ast.GeneratorExp)) and len(c_.generators) == 1 and isinstance(c_.generators[0].iter, ast.Call) \
                            and isinstance(c_.generators[0].iter.func, ast.Name) and c_.generators[0].iter.func.id == F.name and isinstance(c_.generators[0].target, ast.Name):
                        v_ = c_.generators[0].target.id
                        okc = isinstance(c_.elt, ast.Name) and c_.elt.id == v_ and len(c_.generators[0].ifs) == 1 and _kind_test(index, g_, c_.generators[0].ifs[0], v_)
                        n_coll += 1
                        ctx.require(okc, "R4", f"{g_.short}: collection of leaf accumulators", "every visited node is yielded; the consumer keeps those of the leaf-accumulator kind",
                                    f"`{norm_text(c_)[:90]}` does not keep exactly the visited nodes whose kind is the leaf accumulator", g_.loc(c_))
    ctx.floor("collection sites", n_coll, 1)
    _variable_mapping(index, ctx, F)


def _variable_mapping(index, ctx, F):
    fns = [f for f in index.all_functions("torchjd.autojac") if f.parent is None]
    calls = lambda f, name: any(isinstance(x, ast.Call) and isinstance(x.func, ast.Name) and x.func.id == name for x in ast.walk(f.node))
    callers = [f for f in fns if calls(f, F.name) and f is not F]
    # ... or the callers of those (the traversal may sit two helpers deep)
    reach, work = list(callers), list(callers)
    while work and len(reach) < 8:
        g = work.pop()
        for f in fns:
            if f is not F and f not in reach and calls(f, g.name) and f.module is F.module:
                reach.append(f)
                work.append(f)
    has = lambda f: any((isinstance(x, ast.Attribute) and x.attr == "variable") or (isinstance(x, ast.Constant) and x.value == "variable") for x in ast.walk(f.node))
    ok = has(F) or any(has(f) for f in reach)
    # ... every collected node gives its variable: the mapping is not filtered
    for f in [F] + reach:
        for c in ast.walk(f.node):
            if isinstance(c, (ast.SetComp, ast.ListComp, ast.GeneratorExp)) and any(isinstance(x, ast.Attribute) and x.attr == "variable" for x in ast.walk(c.elt)) \
                    and any(g.ifs for g in c.generators):
                cond = next(i_ for g in c.generators for i_ in g.ifs)
                ctx.violated("R4", f"{f.short}: every collected leaf accumulator gives its variable",
                             f"`{norm_text(c)[:90]}` drops the leaves for which `{norm_text(cond)}` is false: they are not discovered, so the defaulted call leaves their .grad untouched where the "
                             "explicit call writes it", f.loc(c))
            if isinstance(c, ast.DictComp) and any(isinstance(x, ast.Attribute) and x.attr == "variable" for x in ast.walk(c.value)):
                loop_vars = {t.id for g in c.generators for t in ast.walk(g.target) if isinstance(t, ast.Name)}
                same = norm_text(c.key) == norm_text(c.value) or (isinstance(c.key, ast.Name) and c.key.id in loop_vars)
                if not same:
                    ctx.violated("R4", f"{f.short}: one leaf per collected leaf accumulator",
                                 f"`{norm_text(c)[:90]}` keys the discovered leaves by `{norm_text(c.key)[:50]}`: distinct leaves with the same key (views of one buffer, empty tensors) are merged "
                                 "into one, so the defaulted call leaves the .grad of the others untouched where the explicit call writes it", f.loc(c))
    ctx.require(ok, "R4", "leaves are the collected nodes' .variable", "mapping present", "the collected AccumulateGrad nodes are not mapped to their .variable", callers[0].loc() if callers else F.loc())


def _kind_test(index, F, e, cursor):
    """The expression (or the one-line predicate it calls on the cursor) looks at the node's class name only."""
    if "AccumulateGrad" in norm_text(e) and cursor in names_read(e):
        return True
    if isinstance(e, ast.Call) and isinstance(e.func, ast.Name) and len(e.args) == 1 and isinstance(e.args[0], ast.Name) and e.args[0].id == cursor and not e.keywords:
        callee = index.resolve_name(F.module, e.func.id)
        from ..index import FunctionInfo

        if isinstance(callee, FunctionInfo) and len(callee.node.args.args) == 1:
            rets = [r for r in ast.walk(callee.node) if isinstance(r, ast.Return) and r.value is not None]
            return bool(rets) and all("AccumulateGrad" in norm_text(r.value) for r in rets)
    return False


def frontier_form(ctx, F, fn, succ_vars, implied_conditions_fn, kind_ok) -> bool:
    """Level-synchronous breadth-first walk over sets:  frontier = roots - closed;  while frontier: for node in frontier: <collect>; for child in
    node.next_functions: if child is not None: nxt.add(child);  nxt -= closed; closed |= nxt; frontier = nxt.  Returns False when the code is not of
    this shape (nothing reported); otherwise reports the obligations of R4 and returns True."""
    whiles = [w for w in ast.walk(fn) if isinstance(w, ast.While) and isinstance(w.test, ast.Name)]
    if len(whiles) != 1:
        return False
    w = whiles[0]
    fr = w.test.id
    fors = [f for f in w.body if isinstance(f, ast.For) and isinstance(f.iter, ast.Name) and f.iter.id == fr and isinstance(f.target, ast.Name)]
    reassign = [s_ for s_ in w.body if isinstance(s_, ast.Assign) and isinstance(s_.targets[0], ast.Name) and s_.targets[0].id == fr and isinstance(s_.value, ast.Name)]
    if len(fors) != 1 or len(reassign) != 1 or w.body[-1] is not reassign[0]:
        return False
    cursor = fors[0].target.id
    nxt = reassign[0].value.id
    key = f"{F.short}: frontier walk"
    # children pushed into `nxt`
    adds = [c for c in ast.walk(fors[0]) if isinstance(c, ast.Call) and isinstance(c.func, ast.Attribute) and c.func.attr in ("add", "update") and base_name(c.func.value) == nxt]
    if not adds:
        return False  # not the set-based form (successors may be pushed one by one: the worklist reading handles that)
    from ..cfg import cfg_of as _cfg_of

    cfg = _cfg_of(fn)
    for c in adds:
        arg = c.args[0] if c.args else None
        var = arg.id if isinstance(arg, ast.Name) else None
        node_ = next((n for n in cfg.stmt_nodes() if any(x is c for e in ([n.ast] if n.kind == "stmt" else []) for x in ast.walk(e))), None)
        conds = []
        if node_ is not None:
            for t, lbl in cfg.guards_of(node_):
                test = t.ast.test if t.kind == "test" and hasattr(t.ast, "test") else None
                if test is not None:
                    conds += implied_conditions_fn(test, lbl)
        not_none = var is not None and var in succ_vars and any(
            isinstance(cc, ast.Compare) and isinstance(cc.left, ast.Name) and cc.left.id == var and isinstance(cc.comparators[0], ast.Constant) and cc.comparators[0].value is None
            and ((isinstance(cc.ops[0], ast.IsNot) and tr) or (isinstance(cc.ops[0], ast.Is) and not tr)) for cc, tr in conds)
        ctx.require(not_none, "R4", f"{F.short}: successor `{var}` joins the next frontier", "guarded by `is not None`",
                    f"`{norm_text(c)}`: a successor is put on the next frontier without the `is not None` test (or it is not a successor of the current node)", F.loc(c))
    # after the inner loop:  nxt -= closed ; closed |= nxt   (in this order, before `frontier = nxt`)
    tail = w.body[w.body.index(fors[0]) + 1:]

    def is_sub(s_):
        if isinstance(s_, ast.AugAssign) and isinstance(s_.op, ast.Sub) and isinstance(s_.target, ast.Name) and s_.target.id == nxt and isinstance(s_.value, ast.Name):
            return s_.value.id
        if isinstance(s_, ast.Assign) and isinstance(s_.targets[0], ast.Name) and s_.targets[0].id == nxt:
            v = s_.value
            if isinstance(v, ast.BinOp) and isinstance(v.op, ast.Sub) and isinstance(v.left, ast.Name) and v.left.id == nxt and isinstance(v.right, ast.Name):
                return v.right.id
            if isinstance(v, ast.Call) and isinstance(v.func, ast.Attribute) and v.func.attr == "difference" and base_name(v.func.value) == nxt and v.args and isinstance(v.args[0], ast.Name):
                return v.args[0].id
        if isinstance(s_, ast.Expr) and isinstance(s_.value, ast.Call) and isinstance(s_.value.func, ast.Attribute) and s_.value.func.attr == "difference_update" and base_name(s_.value.func.value) == nxt \
                and s_.value.args and isinstance(s_.value.args[0], ast.Name):
            return s_.value.args[0].id
        return None

    def is_mark(s_, closed):
        if isinstance(s_, ast.AugAssign) and isinstance(s_.op, ast.BitOr) and isinstance(s_.target, ast.Name) and s_.target.id == closed and isinstance(s_.value, ast.Name) and s_.value.id == nxt:
            return True
        return isinstance(s_, ast.Expr) and isinstance(s_.value, ast.Call) and isinstance(s_.value.func, ast.Attribute) and s_.value.func.attr == "update" and base_name(s_.value.func.value) == closed \
            and s_.value.args and isinstance(s_.value.args[0], ast.Name) and s_.value.args[0].id == nxt

    subs = [(i, is_sub(s_)) for i, s_ in enumerate(tail) if is_sub(s_)]
    closed = subs[0][1] if subs else None
    marks = [i for i, s_ in enumerate(tail) if closed and is_mark(s_, closed)]
    ok = bool(subs) and bool(marks) and subs[0][0] < marks[0]
    ctx.require(ok, "R4", f"{F.short}: next frontier is filtered by and added to the visited set", f"`{nxt} -= {closed}` then `{closed} |= {nxt}`",
                f"the next frontier `{nxt}` is not reduced by the visited/excluded set and then recorded in it before it becomes the frontier (nodes would be revisited / excluded nodes entered)", F.loc(w))
    if closed:
        params_ = {a.arg for a in fn.args.args}
        vinit = [x for x in ast.walk(fn) if isinstance(x, ast.Assign) and isinstance(x.targets[0], ast.Name) and x.targets[0].id == closed and not any(x is y for y in ast.walk(w))]
        okv = closed in params_ or any(names_read(x.value) & params_ for x in vinit)
        ctx.require(okv, "R4", f"{F.short}: visited set `{closed}` starts from the excluded nodes", "initialised from the parameter", f"`{closed}` is not initialised from the excluded nodes", F.loc(vinit[0]) if vinit else F.loc())
        finit = [x for x in ast.walk(fn) if isinstance(x, ast.Assign) and isinstance(x.targets[0], ast.Name) and x.targets[0].id == fr and not any(x is y for y in ast.walk(w))]
        okf = bool(finit) and any((isinstance(x, ast.BinOp) and isinstance(x.op, ast.Sub)) or (isinstance(x, ast.Call) and isinstance(x.func, ast.Attribute) and x.func.attr == "difference")
                                  for x in ast.walk(finit[0].value)) and closed in names_read(finit[0].value)
        ctx.require(okf, "R4", f"{F.short}: traversal starts from the roots minus the excluded nodes", f"`{norm_text(finit[0]) if finit else ''}`",
                    f"frontier initialisation `{norm_text(finit[0]) if finit else '?'}` does not subtract the excluded nodes from the roots", F.loc(finit[0]) if finit else F.loc())
    # collection depends on the node kind only
    coll = [c for c in ast.walk(fors[0]) if isinstance(c, ast.Call) and isinstance(c.func, ast.Attribute) and c.func.attr == "add" and c.args and isinstance(c.args[0], (ast.Name, ast.Attribute))
            and (c.args[0].id if isinstance(c.args[0], ast.Name) else base_name(c.args[0])) == cursor and base_name(c.func.value) != nxt]
    for c in coll:
        node_ = next((n for n in cfg.stmt_nodes() if n.kind == "stmt" and any(x is c for x in ast.walk(n.ast))), None)
        tests = [t for t, _ in cfg.guards_of(node_) if t.kind == "test" and isinstance(t.ast, ast.If)] if node_ is not None else []
        ctx.require(len(tests) == 1 and kind_ok(tests[0].ast.test, cursor), "R4", f"{F.short}: collection of leaf accumulators", "conditional on the node kind only",
                    f"`{norm_text(c)}` is guarded by {[norm_text(t.ast.test) for t in tests]}", F.loc(c))
    ctx.floor("collection sites", len(coll), 1)
    return True


def enclosing_siblings(fn, stmt):
    """Statements of the block holding `stmt` and of the blocks holding the `if` statements around it (up to the loop it sits in)."""
    out, cur = [], stmt
    for _ in range(4):
        blk = siblings(fn, cur)
        out += blk
        parent = next((n for n in ast.walk(fn) if any(isinstance(getattr(n, f, None), list) and cur in getattr(n, f) for f in ("body", "orelse"))), None)
        if not isinstance(parent, ast.If):
            break
        cur = parent
    return out


def siblings(fn, stmt):
    for n in ast.walk(fn):
        for fld in ("body", "orelse"):
            blk = getattr(n, fld, None)
            if isinstance(blk, list) and stmt in blk:
                return blk
    return []
