"""C05 — with linear aggregators, Jacobian descent coincides with autograd: structural conditions (DESIGN.md 5/C05).

By linearity, backward(T, A) with A(J) = w^T J equals autograd.backward(T, grad_tensors=w) iff (i) row r of J is the VJP
of the one-hot cotangent e_r (pipeline conditions shared with C01/C02) and (ii) the aggregator really is J -> w^T J with
the stated w (closed forms).  That autograd's own .grad equals these VJPs numerically is NOT decided."""

from __future__ import annotations

from . import _c05agg, _layout, _pipe
from .C01 import cotangent_rule, stage_rule


def check(index, ctx):
    ctx.rule("A1", "Constant/Sum/Mean inherit forward/combine, whose value path is the single contraction weights @ matrix over the row axis and nothing else")
    ctx.rule("A2", "closed-form weights: Constant returns the constructor's vector unmodified; Sum the constant 1 and Mean the constant 1/m for each of the m rows; none reads the values of the matrix or any state")
    ctx.rule("P", "pipeline conditions: cotangents are ones, diagonalised one row per scalar in the order given; every sweep differentiates exactly the requested tensors w.r.t. the requested "
             "parameters with cotangents paired; the aggregator is applied exactly once to the united Jacobian on every non-empty path; task gradients use the ones cotangent of their own loss")
    _c05agg.check_linear(index, ctx)
    A, _ = _c05agg._agg.analysis(index)
    # statelessness of the three weightings (history independence is part of 'coincides with autograd')
    for name in ("Constant", "Sum", "Mean"):
        for run in _c05agg._agg.analysis(index)[1][name]:
            for r in run.results:
                for e in r.events:
                    if e["kind"] == "self_write":
                        ctx.violated("A2", f"{name}: {e['function'].split('.')[-1]}: {e['text']}", f"the weighting stores to self.{e.get('attr')}: weights depend on earlier calls", e["loc"])
    entry = index.get_function("torchjd.autojac.backward.backward")
    P, rs = _pipe.runs(index)
    # torch.autograd.backward(tensors, inputs=[a, a]) accepts a tensor listed twice (and accumulates once): so must backward()
    dup = None
    for run in rs:
        if run.entry != "backward" or dup is not None:
            continue
        for res in run.raising():
            for e in res.events:
                if e["kind"] == "decision" and not e.get("forced") and e.get("outcome") is not None and "len*[inputs]" in (e.get("key") or "") and res.exc.exc_name == "ValueError" \
                        and res.events[-1].get("loc") and e is [x for x in res.events if x["kind"] == "decision"][-1]:
                    dup = (run, res, e)
    ctx.require(dup is None, "P", "backward: a tensor listed twice in `inputs` is accepted (as torch.autograd.backward does)", "the requested inputs are collapsed into a set before they become dictionary keys",
                (f"on path [{dup[1].describe_path()[-100:]}] of {dup[0].label} the call raises ValueError because `inputs` holds the same tensor twice (`{dup[2]['test']}` at {dup[2]['loc']}): "
                 "torch.autograd.backward(tensors, inputs=[a, a]) succeeds and accumulates once") if dup else "", dup[2]["loc"] if dup else entry.loc(), nontrivial=False)
    n = 0
    for run in rs:
        for res in _pipe.main_paths(run):
            n += 1
            if run.entry == "backward":
                cols = "inputs" if run.variant["inputs"] else "leaves(tensors)"
                if stage_rule(ctx, run, res, "P", "tensors", cols, entry):
                    cotangent_rule(ctx, res, "P", "tensors", entry)
            else:
                if _pipe.blocking(res):
                    ctx.undecided("P", run.label, "constructs outside the analysed subset", "")
                    continue
                agg = _pipe.evs(res, "aggregator_call")
                for _b in _pipe.evs(res, "aggregator_bypass"):
                    ctx.violated("P", f"{_layout.short_fn(_b)}: aggregator applied through forward()", "the aggregator's forward() is called directly instead of aggregator(matrix): hooks registered on the aggregator (nn.Module.__call__) are skipped, so what is deposited is not aggregator(J)", _b["loc"])
                ones = [c for c in _pipe.evs(res, "create") if c["fn"] == "ones_like" and c["like"] == ["losses[i]"]]
                task = [e for e in _pipe.evs(res, "autograd") if isinstance(e["outputs"], dict) and e["outputs"].get("atoms") == ["losses[i]"]]
                ok = len(agg) == 1 and bool(ones) and bool(task)
                ctx.require(ok, "P", f"{run.label} path[{res.describe_path()[-60:]}]" if ok else "mtl_backward: ones cotangent per loss, one aggregation",
                            "task gradient = grad(loss_i, cotangent ones); shared Jacobian aggregated once",
                            f"aggregator calls: {len(agg)}, ones cotangents: {len(ones)}, task sweeps: {len(task)}", "")
    ctx.floor("non-empty returning paths", n, 8)
    _c05agg._agg.common_evidence(ctx, index)
    _pipe.common_evidence(ctx, index)
    ctx.assumptions.append("that torch.autograd's own .grad equals these vector-Jacobian products numerically is NOT decided")
