"""C19 — NashMTL's state: reset() means fresh, weights are reused as scheduled (DESIGN.md 5/C19).

Decided: constructor/reset agreement for every state field, the step schedule, that reused calls depend on no other
cached state, and kind consistency (tensor vs ndarray) of the weights on all paths.  Not decided: ||result|| <= max_norm
numerically, solver convergence."""

from __future__ import annotations

import ast

from .. import AnalysisError
from ..cfg import cfg_of, own_exprs
from ..report import norm_text


def self_attr(n):
    return n.attr if isinstance(n, ast.Attribute) and isinstance(n.value, ast.Name) and n.value.id == "self" else None


def stores(fn_node) -> dict[str, list]:
    """self.X stores (plain / augmented / annotated) in a function: attr -> [(stmt, value expr or None)]."""
    out: dict[str, list] = {}
    for n in ast.walk(fn_node):
        if isinstance(n, ast.Assign):
            for t in n.targets:
                for e in (t.elts if isinstance(t, (ast.Tuple, ast.List)) else [t]):
                    a = self_attr(e)
                    if a:
                        out.setdefault(a, []).append((n, n.value if len(n.targets) == 1 and not isinstance(t, (ast.Tuple, ast.List)) else None))
        elif isinstance(n, ast.AugAssign):
            a = self_attr(n.target)
            if a:
                out.setdefault(a, []).append((n, None))
        elif isinstance(n, ast.AnnAssign):
            a = self_attr(n.target)
            if a:
                out.setdefault(a, []).append((n, n.value))
    return out


def loads(node) -> set[str]:
    return {n.attr for n in ast.walk(node) if isinstance(n, ast.Attribute) and isinstance(n.ctx, ast.Load) and isinstance(n.value, ast.Name) and n.value.id == "self"}


def expr_kind(e, field_kinds, cls, depth=0, local=None) -> str | None:
    """tensor / ndarray / None(unknown) of an expression, by construction form. `local`: name -> kind, for the parameters of a helper."""
    if depth > 6:
        return None
    if isinstance(e, ast.Name) and local and e.id in local:
        return local[e.id]
    if isinstance(e, ast.Call):
        f = e.func
        txt = norm_text(f)
        helper = cls.module.functions.get(f.id) if isinstance(f, ast.Name) and getattr(cls, "module", None) is not None else None
        if helper is not None and not e.keywords and not any(isinstance(a_, ast.Starred) for a_ in e.args):
            # a function of the same module: the kind of what it returns, its parameters bound to the kinds of the arguments,
            # its locals (bound once) read through
            hp = [a_.arg for a_ in helper.node.args.args]
            loc2 = {p_: expr_kind(a_, field_kinds, cls, depth + 1, local) for p_, a_ in zip(hp, e.args)}
            for nm, ve in _single_defs(helper.node).items():
                if nm not in loc2:
                    loc2[nm] = expr_kind(ve, field_kinds, cls, depth + 1, loc2)
            rets = [s_ for s_ in ast.walk(helper.node) if isinstance(s_, ast.Return) and s_.value is not None]
            kinds = {expr_kind(s_.value, field_kinds, cls, depth + 1, loc2) for s_ in rets}
            return kinds.pop() if len(kinds) == 1 else None
        if txt.startswith(("torch.", "F.")):
            return "tensor"
        if txt.startswith(("np.", "numpy.")):
            return "ndarray"
        if isinstance(f, ast.Attribute):
            if f.attr == "numpy":
                return "ndarray"
            if f.attr in ("new_tensor", "new_zeros", "new_ones", "new_empty", "new_full"):
                return "tensor"  # (methods of torch tensors only: numpy arrays have none of them)
            if f.attr in ("to", "cpu", "detach", "clone", "reshape", "astype", "copy", "float", "double", "contiguous", "squeeze", "unsqueeze", "view"):
                return expr_kind(f.value, field_kinds, cls, depth + 1, local)
            if isinstance(f.value, ast.Name) and f.value.id == "self":
                r = cls.lookup(f.attr)
                if r is not None:
                    kinds = {expr_kind(s.value, field_kinds, cls, depth + 1) for s in ast.walk(r[1].node) if isinstance(s, ast.Return) and s.value is not None}
                    return kinds.pop() if len(kinds) == 1 else None
        return None
    a = self_attr(e)
    if a:
        return field_kinds.get(a)
    if isinstance(e, ast.BinOp):
        l, r = expr_kind(e.left, field_kinds, cls, depth + 1, local), expr_kind(e.right, field_kinds, cls, depth + 1, local)
        return l or r
    return None


def expr_aliases_state(e, depth=0) -> bool:
    """The value may share memory with a self.<field> array (from_numpy / .to / views keep the storage)."""
    if depth > 6:
        return False
    if self_attr(e):
        return True
    if isinstance(e, ast.Call):
        f = e.func
        txt = norm_text(f)
        if txt in ("torch.from_numpy", "torch.as_tensor", "np.asarray", "numpy.asarray", "np.asanyarray") and e.args:
            return expr_aliases_state(e.args[0], depth + 1)
        if isinstance(f, ast.Attribute) and f.attr in ("to", "cpu", "detach", "numpy", "view", "reshape", "squeeze", "unsqueeze", "contiguous", "float", "double", "type", "astype", "ravel", "flatten"):
            if f.attr == "astype" and not any(k.arg == "copy" and isinstance(k.value, ast.Constant) and k.value.value is False for k in e.keywords):
                return False
            return expr_aliases_state(f.value, depth + 1)
        return False
    if isinstance(e, ast.Subscript):
        return expr_aliases_state(e.value, depth + 1)
    return False


def reaching_defs(cfg, var: str):
    """node -> set of CFG nodes whose (plain) assignment to ``var`` may reach the node's entry."""
    def defines(n):
        a = n.ast
        if n.kind == "stmt" and isinstance(a, ast.Assign):
            return any(isinstance(t, ast.Name) and t.id == var for t in a.targets)
        if n.kind == "stmt" and isinstance(a, ast.AugAssign):
            return isinstance(a.target, ast.Name) and a.target.id == var
        return False

    IN = {n: set() for n in cfg.nodes}
    changed = True
    while changed:
        changed = False
        for n in cfg.nodes:
            new = set()
            for p, _ in cfg.pred[n]:
                new |= ({p} if defines(p) else IN[p])
            if new != IN[n]:
                IN[n] = new
                changed = True
    return IN


# ---------------------------------------------------------------------------------------------------- R4: the max_norm cap
def _single_defs(fn_node):
    d = {}
    for a in ast.walk(fn_node):
        if isinstance(a, ast.Assign) and len(a.targets) == 1 and isinstance(a.targets[0], ast.Name):
            d.setdefault(a.targets[0].id, []).append(a.value)
    return {k: v[0] for k, v in d.items() if len(v) == 1}


def norm_power(e, defs, depth=0):
    """(text of the vector, p) when `e` is ||v||^p for a recognisable spelling (norm calls, dot(v, v), (v*v).sum(), sqrt, ** 2, locals
    bound once), else None."""
    if depth > 6:
        return None
    if isinstance(e, ast.Name) and e.id in defs:
        return norm_power(defs[e.id], defs, depth + 1)
    if isinstance(e, ast.Call):
        f = norm_text(e.func)
        last = f.split(".")[-1]
        kws = {k.arg: k.value for k in e.keywords}
        ordv = kws.get("ord", kws.get("p"))
        two = ordv is None or (isinstance(ordv, ast.Constant) and ordv.value == 2)
        if last in ("norm", "vector_norm") and two:
            arg = e.args[0] if (e.args and f.startswith(("torch.", "np.", "numpy.", "linalg."))) else (e.func.value if isinstance(e.func, ast.Attribute) and not e.args else None)
            if arg is not None and len(e.args) <= 1:
                return (norm_text(inline(arg, defs)), 1.0)
        if last in ("dot", "vdot", "inner") and len(e.args) == 2 and norm_text(inline(e.args[0], defs)) == norm_text(inline(e.args[1], defs)):
            return (norm_text(inline(e.args[0], defs)), 2.0)
        if last == "dot" and isinstance(e.func, ast.Attribute) and len(e.args) == 1 and norm_text(inline(e.func.value, defs)) == norm_text(inline(e.args[0], defs)):
            return (norm_text(inline(e.args[0], defs)), 2.0)
        if last == "sum" and isinstance(e.func, ast.Attribute) and not e.args:
            v = e.func.value
            if isinstance(v, ast.BinOp) and isinstance(v.op, ast.Mult) and norm_text(inline(v.left, defs)) == norm_text(inline(v.right, defs)):
                return (norm_text(inline(v.left, defs)), 2.0)
            if isinstance(v, ast.Call) and isinstance(v.func, ast.Attribute) and (v.func.attr == "square" or (v.func.attr == "pow" and v.args and isinstance(v.args[0], ast.Constant) and v.args[0].value == 2)):
                return (norm_text(inline(v.func.value, defs)), 2.0)
        if last == "sqrt":
            inner = e.args[0] if e.args else (e.func.value if isinstance(e.func, ast.Attribute) else None)
            r = norm_power(inner, defs, depth + 1) if inner is not None else None
            return (r[0], r[1] / 2) if r else None
        if last in ("item", "float") and isinstance(e.func, ast.Attribute) and not e.args:
            return norm_power(e.func.value, defs, depth + 1)
    if isinstance(e, ast.BinOp) and isinstance(e.op, ast.MatMult) and norm_text(inline(e.left, defs)) == norm_text(inline(e.right, defs)):
        return (norm_text(inline(e.left, defs)), 2.0)
    if isinstance(e, ast.BinOp) and isinstance(e.op, ast.Pow) and isinstance(e.right, ast.Constant) and isinstance(e.right.value, (int, float)):
        r = norm_power(e.left, defs, depth + 1)
        return (r[0], r[1] * e.right.value) if r else None
    if isinstance(e, ast.BinOp) and isinstance(e.op, ast.Mult) and norm_text(e.left) == norm_text(e.right):
        r = norm_power(e.left, defs, depth + 1)
        return (r[0], r[1] * 2) if r else None
    return None


def inline(e, defs, depth=0):
    """Locals bound once replaced by their definitions (bounded)."""
    import copy

    if depth > 4:
        return e

    class T(ast.NodeTransformer):
        def visit_Name(self, n):
            if isinstance(n.ctx, ast.Load) and n.id in defs and not isinstance(defs[n.id], ast.Name):
                return inline(copy.deepcopy(defs[n.id]), defs, depth + 1)
            return n

    return T().visit(copy.deepcopy(e))


def bound_power(e, defs):
    """p when `e` is max_norm^p (self.max_norm, ** 2, x * x, a local bound once to one of these)."""
    if isinstance(e, ast.Name) and e.id in defs:
        return bound_power(defs[e.id], defs)
    if self_attr(e) == "max_norm":
        return 1.0
    if isinstance(e, ast.BinOp) and isinstance(e.op, ast.Pow) and isinstance(e.right, ast.Constant) and isinstance(e.right.value, (int, float)):
        b = bound_power(e.left, defs)
        return b * e.right.value if b else None
    if isinstance(e, ast.BinOp) and isinstance(e.op, ast.Mult) and norm_text(e.left) == norm_text(e.right):
        b = bound_power(e.left, defs)
        return b * 2 if b else None
    return None


def num_eval(e, defs, vals, weight_name, depth=0):
    """Value of a rescaling expression at a sample point: the weights stand for 1.0, every ||v||^p for n**p, max_norm for M."""
    import math

    if depth > 8:
        return None
    np_ = norm_power(e, defs)
    if np_ is not None:
        return vals["n"] ** np_[1]
    bp = bound_power(e, defs)
    if bp is not None:
        return vals["M"] ** bp
    if isinstance(e, ast.Name):
        if e.id == weight_name:
            return 1.0
        return num_eval(defs[e.id], defs, vals, weight_name, depth + 1) if e.id in defs else None
    if isinstance(e, ast.Constant) and isinstance(e.value, (int, float)) and not isinstance(e.value, bool):
        return float(e.value)
    if isinstance(e, ast.UnaryOp) and isinstance(e.op, ast.USub):
        v = num_eval(e.operand, defs, vals, weight_name, depth + 1)
        return -v if v is not None else None
    if isinstance(e, ast.BinOp) and isinstance(e.op, (ast.Add, ast.Sub, ast.Mult, ast.Div, ast.Pow)):
        a, b = num_eval(e.left, defs, vals, weight_name, depth + 1), num_eval(e.right, defs, vals, weight_name, depth + 1)
        if a is None or b is None:
            return None
        try:
            return {ast.Add: a + b, ast.Sub: a - b, ast.Mult: a * b, ast.Div: a / b if b else None, ast.Pow: a ** b}[type(e.op)]
        except (OverflowError, ZeroDivisionError, ValueError):
            return None
    ev_ = lambda x: num_eval(x, defs, vals, weight_name, depth + 1)
    if isinstance(e, ast.Compare) and len(e.ops) == 1:
        a, b = ev_(e.left), ev_(e.comparators[0])
        if a is None or b is None:
            return None
        import operator as _op

        f_ = {ast.Gt: _op.gt, ast.GtE: _op.ge, ast.Lt: _op.lt, ast.LtE: _op.le}.get(type(e.ops[0]))
        return float(f_(a, b)) if f_ else None
    if isinstance(e, ast.IfExp):
        c = ev_(e.test)
        return None if c is None else (ev_(e.body) if c else ev_(e.orelse))
    if isinstance(e, ast.Call):
        last = norm_text(e.func).split(".")[-1]
        lib = norm_text(e.func).startswith(("torch.", "np.", "numpy.", "math.")) or isinstance(e.func, ast.Name)
        args = list(e.args) if lib else ([e.func.value] + list(e.args) if isinstance(e.func, ast.Attribute) else list(e.args))
        kw = {k.arg: k.value for k in e.keywords}
        if last == "where" and lib and len(args) == 3:
            c = ev_(args[0])
            return None if c is None else (ev_(args[1]) if c else ev_(args[2]))
        if last == "where" and not lib and len(args) == 3:  # x.where(cond, other)
            c = ev_(args[1])
            return None if c is None else (ev_(args[0]) if c else ev_(args[2]))
        if last in ("minimum", "maximum", "min", "max", "fmin", "fmax") and len(args) == 2:
            a, b = ev_(args[0]), ev_(args[1])
            if a is None or b is None:
                return None
            return min(a, b) if last in ("minimum", "min", "fmin") else max(a, b)
        if last in ("clamp", "clip", "clamp_max", "clamp_min") and args:
            x = ev_(args[0])
            lo = kw.get("min", args[1] if len(args) > 1 and last in ("clamp", "clip", "clamp_min") else None)
            hi = kw.get("max", args[2] if len(args) > 2 else (args[1] if len(args) > 1 and last == "clamp_max" else None))
            if x is None:
                return None
            for bnd, f_ in ((lo, max), (hi, min)):
                if bnd is not None and not (isinstance(bnd, ast.Constant) and bnd.value is None):
                    bv = ev_(bnd)
                    if bv is None:
                        return None
                    x = f_(x, bv)
            return x
        if last in ("tensor", "as_tensor", "float", "item", "to", "detach", "clone", "squeeze", "unsqueeze") and args:
            return ev_(args[0])
    if isinstance(e, ast.Call) and norm_text(e.func).split(".")[-1] in ("mul", "div", "true_divide", "multiply", "divide") and isinstance(e.func, ast.Attribute) and len(e.args) == 1 \
            and not norm_text(e.func).startswith(("torch.", "np.")):
        a, b = num_eval(e.func.value, defs, vals, weight_name, depth + 1), num_eval(e.args[0], defs, vals, weight_name, depth + 1)
        if a is None or b is None:
            return None
        return a * b if norm_text(e.func).split(".")[-1] in ("mul", "multiply") else (a / b if b else None)
    return None


def cap_rule(index, ctx, cls, fwd):
    """R4 (shape of the max_norm cap): inside the branch guarded by `max_norm > 0`, ||weights @ matrix||^p is compared with
    max_norm^p for the same p, and on the exceeding side the weights are multiplied by max_norm / ||weights @ matrix||."""
    from ..guards import oriented

    ctx.rule("R4", "the cap of the returned vector: under `max_norm > 0` the quantity compared with the bound is a power of ||weights·matrix|| compared with the same power of "
                   "max_norm, and where it exceeds the bound the weights are multiplied by max_norm / ||weights·matrix|| (the extracted rescaling expression is evaluated at sample "
                   "points); only this shape is decided, not floating-point behaviour")
    hosts = [fwd] + [cls.methods[c.func.attr] for c in ast.walk(fwd.node) if isinstance(c, ast.Call) and isinstance(c.func, ast.Attribute) and isinstance(c.func.value, ast.Name)
                     and c.func.value.id == "self" and c.func.attr in cls.methods]
    found = 0
    from ..normalize import split_walrus

    # the bound handed to a helper as a PARAMETER (`def _cap(self, w, matrix, max_norm=1.0)`): the helper is read with the parameter standing for
    # self.max_norm, and every call of it must pass exactly self.max_norm there — a call that omits it caps at the default instead
    import copy as _cp
    import dataclasses as _dc

    hosts2 = []
    for H in hosts:
        ps = [a.arg for a in H.node.args.args[1:]]
        if H is not fwd and "max_norm" in ps and _dc.is_dataclass(H):
            pos = ps.index("max_norm")
            for m_ in cls.methods.values():
                for c in ast.walk(m_.node):
                    if isinstance(c, ast.Call) and self_attr(c.func) == H.name:
                        arg = next((k.value for k in c.keywords if k.arg == "max_norm"), c.args[pos] if pos < len(c.args) else None)
                        ctx.require(arg is not None and self_attr(arg) == "max_norm", "R4", f"{m_.short}: `{norm_text(c)[:70]}` passes self.max_norm as the bound",
                                    "the bound of this call is the configured max_norm",
                                    f"`{norm_text(c)[:80]}` " + ("does not pass the bound: the helper's default is used" if arg is None else f"passes `{norm_text(arg)[:30]}` as the bound")
                                    + " — on this path the returned vector is capped at another value than max_norm (longer than max_norm when max_norm is smaller, rescaled although "
                                    "the cap is disabled when max_norm <= 0)", m_.loc(c))

            class P2(ast.NodeTransformer):
                def visit_Name(self, n):
                    if n.id == "max_norm" and isinstance(n.ctx, ast.Load):
                        return ast.copy_location(ast.Attribute(value=ast.Name(id="self", ctx=ast.Load()), attr="max_norm", ctx=ast.Load()), n)
                    return n

            H = _dc.replace(H, node=ast.fix_missing_locations(P2().visit(_cp.deepcopy(H.node))))
        hosts2.append(H)
    hosts = hosts2
    for H in hosts:
        hnode = split_walrus(H.node)  # `if max_norm > 0 and (norm := ...) > max_norm:` read as the two nested tests it abbreviates
        defs = _single_defs(hnode)
        for outer in [n for n in ast.walk(hnode) if isinstance(n, ast.If)]:
            o = oriented(outer.test, lambda e: self_attr(e) == "max_norm") if isinstance(outer.test, ast.Compare) and len(outer.test.ops) == 1 else None
            if not (o and o[1] is ast.Gt and isinstance(o[2], ast.Constant) and o[2].value == 0):
                continue
            for inner in [n for b_ in outer.body for n in ast.walk(b_) if isinstance(n, ast.If) and isinstance(n.test, ast.Compare) and len(n.test.ops) == 1]:
                l_, r_ = inner.test.left, inner.test.comparators[0]
                sides = [(norm_power(l_, defs), bound_power(r_, defs), type(inner.test.ops[0])), (norm_power(r_, defs), bound_power(l_, defs), {ast.Gt: ast.Lt, ast.Lt: ast.Gt, ast.GtE: ast.LtE, ast.LtE: ast.GtE}.get(type(inner.test.ops[0])))]
                side = next((x for x in sides if x[1] is not None), None)
                if side is None:
                    continue
                found += 1
                npow, bpow, op = side
                key = f"{H.short}: `{norm_text(inner.test)}`"
                if npow is None:
                    ctx.undecided("R4", key, "the quantity compared with max_norm is not a recognised spelling of a power of a vector norm", H.loc(inner))
                    continue
                ctx.require(abs(npow[1] - bpow) < 1e-9 and op in (ast.Gt, ast.GtE), "R4", key if abs(npow[1] - bpow) < 1e-9 else f"{H.short}: the cap compares like with like",
                            f"||{npow[0]}||^{npow[1]:g} against max_norm^{bpow:g}",
                            f"`{norm_text(inner.test)}` compares ||{npow[0]}||^{npow[1]:g} with max_norm^{bpow:g}: for max_norm < 1 (resp. > 1) vectors whose norm lies between max_norm and "
                            f"max_norm^{bpow / npow[1]:g} are returned unscaled (resp. scaled although within the bound)", H.loc(inner))
                # the rescaling on the exceeding side
                body = inner.body if op in (ast.Gt, ast.GtE) else inner.orelse
                outs = [(s_.targets[0].id, s_.value, s_) for b_ in body for s_ in ast.walk(b_) if isinstance(s_, ast.Assign) and len(s_.targets) == 1 and isinstance(s_.targets[0], ast.Name)
                        and s_.targets[0].id in {x.id for x in ast.walk(s_.value) if isinstance(x, ast.Name)}]
                outs += [(None, s_.value, s_) for b_ in body for s_ in ast.walk(b_) if isinstance(s_, ast.Return) and s_.value is not None]
                if len(outs) != 1:
                    ctx.undecided("R4", f"{H.short}: rescaling of the weights", f"expected one rescaling statement on the exceeding side, found {len(outs)}", H.loc(inner))
                    continue
                wname, val, stmt = outs[0]
                if wname is None:
                    params = [a.arg for a in H.node.args.args[1:]]
                    used = [x.id for x in ast.walk(val) if isinstance(x, ast.Name) and x.id in params and norm_power(x, defs) is None]
                    wname = next((u for u in used if u != "matrix"), None)
                defs2 = {k_: v_ for k_, v_ in defs.items() if k_ != wname}
                good, evaluated = True, True
                for n_, M_ in ((3.0, 0.5), (0.7, 0.25), (5.0, 2.0)):
                    got = num_eval(val, defs2, {"n": n_, "M": M_}, wname)
                    if got is None:
                        evaluated = False
                        break
                    good = good and abs(got - M_ / n_) < 1e-9 * max(1.0, M_ / n_)
                if not evaluated:
                    ctx.undecided("R4", f"{H.short}: `{norm_text(stmt)[:80]}`", "the rescaling expression is not built from the weights, the norm and max_norm with + - * / ** sqrt", H.loc(stmt))
                else:
                    ctx.require(good, "R4", f"{H.short}: `{norm_text(stmt)[:80]}`", "weights · max_norm / ||weights·matrix|| at 3 sample points",
                                f"`{norm_text(stmt)[:80]}` does not multiply the weights by max_norm / ||weights·matrix||: the returned vector does not have norm max_norm when the bound is exceeded", H.loc(stmt))
    if not found:
        # the cap written as one expression (torch.where / clamp / minimum): evaluated in both regimes — exceeding (expected factor max_norm/n) and
        # within the bound (expected factor 1)
        for H in hosts:
            hnode = split_walrus(H.node)
            defs = _single_defs(hnode)
            for outer in [n for n in ast.walk(hnode) if isinstance(n, ast.If)]:
                o = oriented(outer.test, lambda e: self_attr(e) == "max_norm") if isinstance(outer.test, ast.Compare) and len(outer.test.ops) == 1 else None
                if not (o and o[1] is ast.Gt and isinstance(o[2], ast.Constant) and o[2].value == 0):
                    continue
                for st_ in [x for b_ in outer.body for x in ast.walk(b_) if isinstance(x, ast.Assign) and len(x.targets) == 1 and isinstance(x.targets[0], ast.Name)]:
                    wname = st_.targets[0].id
                    if wname not in {x.id for x in ast.walk(st_.value) if isinstance(x, ast.Name)}:
                        continue
                    if not any(isinstance(c, ast.Call) and norm_text(c.func).split(".")[-1] in ("where", "clamp", "clip", "minimum", "min", "clamp_max", "fmin") for c in ast.walk(st_.value)) \
                            and not any(isinstance(c, ast.IfExp) for c in ast.walk(st_.value)):
                        continue
                    found += 1
                    defs2 = {k_: v_ for k_, v_ in defs.items() if k_ != wname}
                    bad = None
                    for n_, M_ in ((3.0, 0.5), (0.7, 0.25), (5.0, 2.0), (0.3, 0.5), (1.5, 2.5), (0.1, 4.0)):
                        got = num_eval(st_.value, defs2, {"n": n_, "M": M_}, wname)
                        if got is None:
                            bad = "?"
                            break
                        want = M_ / n_ if n_ > M_ else 1.0
                        if abs(got - want) > 1e-9 * max(1.0, want):
                            bad = f"with ||weights·matrix|| = {n_:g} and max_norm = {M_:g} the weights are multiplied by {got:g}, expected {want:g}"
                            break
                    key = f"{H.short}: `{norm_text(st_)[:80]}`"
                    if bad == "?":
                        ctx.undecided("R4", key, "the capping expression is not built from the weights, the norm and max_norm with + - * / ** where/clamp/minimum", H.loc(st_))
                    else:
                        ctx.require(bad is None, "R4", key, "factor max_norm/||weights·matrix|| above the bound and 1 within it, at 6 sample points",
                                    f"{bad}: the returned vector is not the capped one", H.loc(st_))
    if not found:
        ctx.undecided("R4", "forward: the max_norm cap", "no `if <norm> > max_norm` under `if self.max_norm > 0` was found in forward or the methods it calls", fwd.loc())
    else:
        # every returning path of forward goes through the cap (in forward itself, or through a call of the method that holds it)
        cap_hosts = set()
        for H in hosts:
            for outer in [n for n in ast.walk(H.node) if isinstance(n, ast.If)]:
                if any(self_attr(x) == "max_norm" for x in ast.walk(outer.test)):
                    cap_hosts.add(H.name)
        fcfg = cfg_of(fwd.node)

        def passes_cap(nd):
            if nd.kind == "test" and hasattr(nd.ast, "test") and any(self_attr(x) == "max_norm" for x in ast.walk(nd.ast.test)):
                return True
            from ..cfg import own_exprs

            return any(isinstance(c, ast.Call) and self_attr(c.func) in (cap_hosts - {fwd.name}) for e_ in own_exprs(nd) for c in ast.walk(e_))

        rets = [p_ for p_ in fcfg.acyclic_paths() if p_ and isinstance(getattr(p_[-1], "ast", None), ast.Return) or any(isinstance(getattr(n_, "ast", None), ast.Return) for n_ in p_)]
        missing = [p_ for p_ in rets if not any(passes_cap(n_) for n_ in p_)]
        if rets:
            wit = next((n_ for n_ in (missing[0] if missing else []) if isinstance(getattr(n_, "ast", None), ast.Return)), None)
            ctx.require(not missing, "R4", "forward: every returning path applies the cap", f"{len(rets)} returning paths all pass the max_norm test",
                        f"{len(missing)} of {len(rets)} returning paths of forward hand back weights without passing the max_norm test"
                        + (f" (`{norm_text(wit.ast)[:70]}`)" if wit is not None else "") + ": those calls return vectors longer than max_norm", fwd.loc(wit.ast) if wit is not None else fwd.loc())


# ---------------------------------------------------------------------------------------------------- R6: tensors handed to numpy
_VIEWLIKE = {"cpu", "to", "clone", "reshape", "view", "float", "double", "contiguous", "squeeze", "unsqueeze", "t", "flatten", "type", "half"}
_DETACHING = {"detach", "item", "tolist", "detach_"}


def numpy_crossing_rule(ctx, cls, fwd, fcfg):
    ctx.rule("R6", "every tensor handed to numpy (`.numpy()`, `np.asarray` / `np.array` of a tensor) that is computed from forward's input passes through detach() first: "
                   "the matrix may be part of an autograd graph, and numpy refuses a tensor that requires grad — such a call would not succeed")
    params_t = {a.arg for a in fwd.node.args.args[1:]}
    rd_cache: dict = {}

    def rd(var):
        if var not in rd_cache:
            rd_cache[var] = reaching_defs(fcfg, var)
        return rd_cache[var]

    def comb(xs):
        xs = list(xs)
        return "attached" if "attached" in xs else ("unknown" if "unknown" in xs else "detached")

    def status(e, n, seen, depth=0):
        """attached: computed from the input without detach() / detached: cut from the graph (or no tensor of the graph at all) / unknown"""
        if depth > 12:
            return "unknown"
        if isinstance(e, ast.Constant):
            return "detached"
        if isinstance(e, ast.Name):
            defs = rd(e.id).get(n, set()) if n is not None else set()
            if not defs:
                return "attached" if e.id in params_t else "unknown"
            out = []
            for d in defs:
                if (e.id, d) in seen:
                    continue
                s2 = seen | {(e.id, d)}
                if isinstance(d.ast, ast.Assign):
                    out.append(status(d.ast.value, d, s2, depth + 1))
                else:
                    out.append(comb([status(ast.Name(id=e.id, ctx=ast.Load()), d, s2, depth + 1), status(d.ast.value, d, s2, depth + 1)]))
            return comb(out) if out else "detached"
        if isinstance(e, ast.Attribute):
            if e.attr == "data":
                return "detached"
            if self_attr(e):
                return "unknown"
            return status(e.value, n, seen, depth + 1)
        if isinstance(e, ast.Call):
            f = e.func
            if isinstance(f, ast.Attribute) and f.attr in _DETACHING:
                return "detached"
            args = list(e.args) + [k.value for k in e.keywords]
            if isinstance(f, ast.Attribute) and not norm_text(f).startswith(("torch.", "F.", "np.", "numpy.")):
                return comb([status(f.value, n, seen, depth + 1)] + ([status(a, n, seen, depth + 1) for a in args] if f.attr not in _VIEWLIKE else []))
            if norm_text(f).startswith(("torch.", "F.")):
                return comb(status(a, n, seen, depth + 1) for a in args) if args else "detached"
            return "unknown"
        if isinstance(e, ast.BinOp):
            return comb([status(e.left, n, seen, depth + 1), status(e.right, n, seen, depth + 1)])
        if isinstance(e, ast.UnaryOp):
            return status(e.operand, n, seen, depth + 1)
        if isinstance(e, ast.Subscript):
            return status(e.value, n, seen, depth + 1)
        return "unknown"

    def in_no_grad(node):
        for w in ast.walk(fwd.node):
            if isinstance(w, ast.With) and any("no_grad" in norm_text(i.context_expr) for i in w.items) and any(x is node for x in ast.walk(w)):
                return True
        return False

    n_sites = 0
    for n in fcfg.stmt_nodes():
        for ex in own_exprs(n):
            for c in ast.walk(ex):
                if not isinstance(c, ast.Call):
                    continue
                operand = None
                if isinstance(c.func, ast.Attribute) and c.func.attr == "numpy" and not c.args:
                    operand = c.func.value
                elif norm_text(c.func) in ("np.asarray", "np.array", "np.asanyarray", "numpy.asarray", "numpy.array", "np.ascontiguousarray") and c.args:
                    operand = c.args[0]
                if operand is None:
                    continue
                st_ = status(operand, n, frozenset())
                if st_ == "unknown" and not (isinstance(c.func, ast.Attribute) and c.func.attr == "numpy"):
                    continue  # np.array of something that is not visibly a tensor of the graph
                n_sites += 1
                if in_no_grad(c):
                    st_ = "detached" if st_ != "attached" or not isinstance(operand, ast.Name) else st_
                ctx.require(st_ != "attached", "R6", f"forward: `{norm_text(c)[:70]}` receives a detached tensor",
                            f"`{norm_text(operand)[:70]}`: {st_}",
                            f"`{norm_text(operand)[:80]}` is computed from forward's input with no detach() on the way: when the matrix requires grad or is the result of an "
                            "operation (which is how Jacobians reach an aggregator inside a training loop), numpy refuses it and the call raises instead of returning weights",
                            fwd.loc(c))
    ctx.extra["numpy_crossings_in_forward"] = n_sites



def stored_is_returned_rule(ctx, cls):
    """R2 (second half): what the optimiser stores for reuse is what it hands back — `self.prvs_alpha = X ... return Y` must name the same value."""
    for f in cls.methods.values():
        if f.name == "forward":
            continue  # forward hands back the tensor conversion of the weights; that the reuse path reads the stored field is decided with the schedule rules
        stores_ = [s_ for s_ in ast.walk(f.node) if isinstance(s_, ast.Assign) and len(s_.targets) == 1 and self_attr(s_.targets[0]) == "prvs_alpha" and f.name not in ("__init__", "reset")]
        rets = [r for r in ast.walk(f.node) if isinstance(r, ast.Return) and r.value is not None]
        if not stores_ or not rets:
            continue
        last = stores_[-1]
        defs = _single_defs(f.node)
        through = lambda e: defs[e.id] if isinstance(e, ast.Name) and e.id in defs and isinstance(defs[e.id], (ast.Name, ast.Attribute)) else e  # `r = self.prvs_alpha; return r`
        same = all(norm_text(through(r.value)) in (norm_text(last.value), norm_text(through(last.value)), "self.prvs_alpha") for r in rets)
        ctx.require(same, "R2", f"{f.short}: the weights stored for reuse are the weights returned", f"`{norm_text(last)}` and `return {norm_text(rets[-1].value)}`",
                    f"`{norm_text(last)}` stores one value and `return {norm_text(rets[-1].value)}` hands back another: the calls that reuse the stored weights do not return what the recomputing call returned",
                    f.loc(last))
        # ... on EVERY returning path: a return that hands back a local must come after a store of that local (an early `return alpha_t` out of the
        # loop leaves the stored weights of the previous recomputation — or the initial ones — for the reusing calls)
        g = cfg_of(f.node)
        for r in rets:
            v = through(r.value)
            if norm_text(v) == "self.prvs_alpha" or not isinstance(v, ast.Name):
                continue
            rn = g.node_of(r)
            doms = [g.node_of(s_) for s_ in stores_ if norm_text(through(s_.value)) == norm_text(v)]
            ok_r = any(g.dominates(d_, rn) for d_ in doms)
            ctx.require(ok_r, "R2", f"{f.short}: `{norm_text(r)}` comes after the weights were stored", "a store of the returned value precedes the return on every path",
                        f"`{norm_text(r)}` can be reached without `self.prvs_alpha = {norm_text(v)}` having been executed: the recomputing call returns the new weights, the calls that reuse "
                        "stored weights return the old ones", f.loc(r))


class _ClsView:
    """The weighting class with its state object flattened (see flatten_state_object): same interface as ClassInfo for what this module uses."""

    def __init__(self, cls, methods):
        self._cls, self.methods = cls, methods

    def lookup(self, name):
        if name in self.methods:
            return (self, self.methods[name])
        r = self._cls.lookup(name)
        return r

    def __getattr__(self, name):
        return getattr(self._cls, name)


def flatten_state_object(index, cls, _no_config=False):
    """`self.S = D(args)` in BOTH __init__ and reset(), D a small class of the same module (a dataclass, or a class with a plain __init__) holding the mutable
    fields: the methods are read as if the fields of S were attributes of the weighting itself — `self.S.f` and `alias.f` (after `alias = self.S`) become
    `self.f`, and the statement `self.S = D(args)` becomes the field initialisations D performs. Returns a view of the class, or the class itself."""
    import copy
    import dataclasses

    ini, rst = cls.methods.get("__init__"), cls.methods.get("reset")
    if ini is None or rst is None:
        return cls

    def holder_stmt(fn_node):
        out = [s_ for s_ in ast.walk(fn_node) if isinstance(s_, ast.Assign) and len(s_.targets) == 1 and self_attr(s_.targets[0]) and isinstance(s_.value, ast.Call)
               and isinstance(s_.value.func, ast.Name) and s_.value.func.id in cls.module.classes]
        return out

    hi, hr = holder_stmt(ini.node), holder_stmt(rst.node)
    cand = [(a, b) for a in hi for b in hr if self_attr(a.targets[0]) == self_attr(b.targets[0]) and a.value.func.id == b.value.func.id]
    if len(cand) != 1 and not _no_config:
        # a CONFIGURATION object: `self.cfg = C(...)` in __init__ only, never re-assigned and none of its fields ever stored — its fields are read as
        # attributes of the weighting set by the constructor (properties that merely forward `self.cfg.x` as `self.x` disappear)
        def frozen(a):
            S_ = self_attr(a.targets[0])
            for f_ in cls.methods.values():
                for st_ in ast.walk(f_.node):
                    if isinstance(st_, (ast.Assign, ast.AugAssign, ast.AnnAssign)):
                        for t_ in (st_.targets if isinstance(st_, ast.Assign) else [st_.target]):
                            if st_ is not a and (self_attr(t_) == S_ or (isinstance(t_, ast.Attribute) and self_attr(t_.value) == S_)):
                                return False
            return True

        cfgs = [a for a in hi if not any(self_attr(a.targets[0]) == self_attr(b.targets[0]) for b in hr) and frozen(a)]
        if len(cfgs) == 1:
            cand = [(cfgs[0], None)]
    if len(cand) != 1:
        return cls
    S = self_attr(cand[0][0].targets[0])
    D = cls.module.classes[cand[0][0].value.func.id]
    is_dc = any("dataclass" in ast.unparse(d) for d in D.node.decorator_list)
    fields = []  # (name, expr using D's own `self.x` / init parameter names)
    params = []
    if is_dc:
        for st in D.node.body:
            if isinstance(st, ast.AnnAssign) and isinstance(st.target, ast.Name):
                v = st.value
                if v is None:
                    params.append(st.target.id)
                    fields.append((st.target.id, ast.Name(id=st.target.id, ctx=ast.Load())))
                elif isinstance(v, ast.Call) and norm_text(v.func).split(".")[-1] == "field":
                    kw = {k.arg: k.value for k in v.keywords}
                    if "default_factory" in kw and isinstance(kw["default_factory"], ast.Lambda):
                        fields.append((st.target.id, kw["default_factory"].body))
                    elif "default" in kw:
                        fields.append((st.target.id, kw["default"]))
                    elif not (isinstance(kw.get("init"), ast.Constant) and kw["init"].value is False):
                        return cls
                else:
                    fields.append((st.target.id, v))
        post = D.methods.get("__post_init__")
        if post is not None:
            for st in post.node.body:
                if isinstance(st, ast.Assign) and len(st.targets) == 1 and self_attr(st.targets[0]):
                    fields.append((self_attr(st.targets[0]), st.value))
                elif not (isinstance(st, ast.Expr) and isinstance(st.value, ast.Constant)):
                    return cls
    else:
        di = D.methods.get("__init__")
        if di is None:
            return cls
        params = [a.arg for a in di.node.args.args[1:]]
        for st in di.node.body:
            if isinstance(st, ast.Assign) and len(st.targets) == 1 and self_attr(st.targets[0]):
                fields.append((self_attr(st.targets[0]), st.value))
            elif not (isinstance(st, ast.Expr) and isinstance(st.value, ast.Constant)):
                return cls
    names = {f for f, _ in fields}
    own_fields = set(stores(ini.node))

    def init_stmts(call, at):
        bind = dict(zip(params, call.args))
        bind.update({k.arg: k.value for k in call.keywords if k.arg})

        class B(ast.NodeTransformer):
            def visit_Name(self, n):
                return copy.deepcopy(bind[n.id]) if n.id in bind and isinstance(n.ctx, ast.Load) else n

        out = []
        for f, e in fields:
            if f in params and f in own_fields:
                continue  # the holder keeps a copy of a constructor argument the weighting stores itself: one field, already initialised
            e2 = B().visit(copy.deepcopy(e))
            a_ = ast.Assign(targets=[ast.Attribute(value=ast.Name(id="self", ctx=ast.Load()), attr=f, ctx=ast.Store())], value=e2)
            out.append(ast.copy_location(a_, at))
        return out

    def rewrite(fn_node):
        node = copy.deepcopy(fn_node)
        aliases = {a.targets[0].id for a in ast.walk(node) if isinstance(a, ast.Assign) and len(a.targets) == 1 and isinstance(a.targets[0], ast.Name) and self_attr(a.value) == S}

        class R(ast.NodeTransformer):
            def visit_Attribute(self, n):
                self.generic_visit(n)
                base = n.value
                if n.attr in names and ((isinstance(base, ast.Attribute) and self_attr(base) == S) or (isinstance(base, ast.Name) and base.id in aliases)):
                    return ast.copy_location(ast.Attribute(value=ast.Name(id="self", ctx=ast.Load()), attr=n.attr, ctx=n.ctx), n)
                return n

        def splice(stmts):
            out = []
            for st in stmts:
                if isinstance(st, ast.Assign) and len(st.targets) == 1 and self_attr(st.targets[0]) == S and isinstance(st.value, ast.Call):
                    out.extend(init_stmts(st.value, st))
                    continue
                if isinstance(st, ast.Assign) and len(st.targets) == 1 and isinstance(st.targets[0], ast.Name) and st.targets[0].id in aliases and self_attr(st.value) == S:
                    continue
                for fld in ("body", "orelse", "finalbody"):
                    blk = getattr(st, fld, None)
                    if isinstance(blk, list) and blk and isinstance(blk[0], ast.stmt):
                        setattr(st, fld, splice(blk))
                out.append(st)
            return out

        node.body = splice(node.body)
        node = R().visit(node)
        return ast.fix_missing_locations(node)

    methods = {}
    for mname, f in cls.methods.items():
        methods[mname] = dataclasses.replace(f, node=rewrite(f.node)) if dataclasses.is_dataclass(f) else f
    for mname, f in list(methods.items()):
        body = [s_ for s_ in f.node.body if not (isinstance(s_, ast.Expr) and isinstance(s_.value, ast.Constant))]
        if any("property" in ast.unparse(d) for d in f.node.decorator_list) and len(body) == 1 and isinstance(body[0], ast.Return) and self_attr(body[0].value) == mname:
            del methods[mname]  # `@property def x(self): return self.cfg.x`, now `return self.x`: the field itself
    view = _ClsView(cls, methods)
    if cand[0][1] is None:
        return flatten_state_object(index, view, _no_config=True) if isinstance(view, _ClsView) else view  # (a state object may sit next to the configuration object)
    return view


def _flatten_attribute_objects(index, cls):
    """An attribute of the weighting that holds a small helper object of the same module (`self.calls = _CallCounter()` in __init__ only), whose
    methods the weighting calls (`self.calls.advance(k)`, `self.calls.restart()`): the object's fields are read as fields of the weighting
    and its constructor, methods and one-line properties are expanded in place. Returns a view of the class, or the class itself."""
    import copy
    import dataclasses

    from ..normalize import inline_local_objects

    ini = cls.methods.get("__init__")
    if ini is None or not dataclasses.is_dataclass(ini):
        return cls
    holders = {}
    for a in ast.walk(ini.node):
        if isinstance(a, ast.Assign) and len(a.targets) == 1 and self_attr(a.targets[0]) and isinstance(a.value, ast.Call) and isinstance(a.value.func, ast.Name) \
                and a.value.func.id in cls.module.classes:
            D = cls.module.classes[a.value.func.id]
            calls_methods = any(isinstance(x, ast.Call) and isinstance(x.func, ast.Attribute) and self_attr(x.func.value) == self_attr(a.targets[0]) and x.func.attr in D.methods
                                for m in cls.methods.values() for x in ast.walk(m.node))
            restored = any(isinstance(s_, ast.Assign) and len(s_.targets) == 1 and self_attr(s_.targets[0]) == self_attr(a.targets[0]) for m, f in cls.methods.items() if m != "__init__" for s_ in ast.walk(f.node))
            if calls_methods and not restored and "__init__" in D.methods and not any("dataclass" in ast.unparse(d) for d in D.node.decorator_list):
                holders[self_attr(a.targets[0])] = D
    if not holders:
        return cls
    methods = dict(cls.methods)
    for S, D in holders.items():
        var = f"{S}__obj"
        fields = {self_attr(t) for s_ in ast.walk(D.methods["__init__"].node) if isinstance(s_, (ast.Assign, ast.AugAssign, ast.AnnAssign))
                  for t in (s_.targets if isinstance(s_, ast.Assign) else [s_.target]) if self_attr(t)}
        if fields & set(stores(ini.node)):
            return cls  # a field of the helper has the name of a field of the weighting: not flattened

        class Pre(ast.NodeTransformer):
            def visit_Attribute(self, n):
                self.generic_visit(n)
                if self_attr(n) == S:
                    return ast.copy_location(ast.Name(id=var, ctx=n.ctx), n)
                return n

        class Post(ast.NodeTransformer):
            def visit_Name(self, n):
                if n.id.startswith(var + "__") and n.id[len(var) + 2:] in fields:
                    return ast.copy_location(ast.Attribute(value=ast.Name(id="self", ctx=ast.Load()), attr=n.id[len(var) + 2:], ctx=n.ctx), n)
                return n

        for mname, f in list(methods.items()):
            if not dataclasses.is_dataclass(f):
                continue
            node = Pre().visit(copy.deepcopy(f.node))
            if not any(isinstance(x, ast.Name) and x.id == var for x in ast.walk(node)):
                continue
            node = inline_local_objects(f, index, node, known={var: D})
            node = ast.fix_missing_locations(Post().visit(node))
            if any(isinstance(x, ast.Name) and x.id == var for x in ast.walk(node)):
                return cls  # the object itself is still used somewhere (handed on, compared): not flattened
            methods[mname] = dataclasses.replace(f, node=node)
    return _ClsView(cls, methods)


def _inline_field_aliases(cls):
    """Locals bound once to `self.X`, X an attribute that no method but __init__ stores: every load of the local is a load of the attribute."""
    import copy
    import dataclasses

    stored_outside = {a for m, f in cls.methods.items() if m != "__init__" for a in stores(f.node)}
    methods, changed = {}, False
    for mname, f in cls.methods.items():
        if not dataclasses.is_dataclass(f) or mname == "__init__":
            methods[mname] = f
            continue
        binds = {}
        for a in ast.walk(f.node):
            if isinstance(a, ast.Name) and isinstance(a.ctx, ast.Store):
                binds[a.id] = binds.get(a.id, 0) + 1
        alias = {a.targets[0].id: a for a in ast.walk(f.node) if isinstance(a, ast.Assign) and len(a.targets) == 1 and isinstance(a.targets[0], ast.Name)
                 and self_attr(a.value) and self_attr(a.value) not in stored_outside and binds.get(a.targets[0].id) == 1
                 and a.targets[0].id not in {p.arg for p in f.node.args.args}}
        if not alias:
            methods[mname] = f
            continue
        node = copy.deepcopy(f.node)
        drop = {norm_text(a) for a in alias.values()}

        class R(ast.NodeTransformer):
            def visit_Name(self, n):
                if isinstance(n.ctx, ast.Load) and n.id in alias:
                    return ast.copy_location(copy.deepcopy(alias[n.id].value), n)
                return n

        def strip(stmts):
            out = []
            for st in stmts:
                if isinstance(st, ast.Assign) and norm_text(st) in drop:
                    continue
                for fld in ("body", "orelse", "finalbody"):
                    blk = getattr(st, fld, None)
                    if isinstance(blk, list) and blk and isinstance(blk[0], ast.stmt):
                        setattr(st, fld, strip(blk) or [ast.Pass()])
                out.append(st)
            return out

        node.body = strip(node.body)
        node = ast.fix_missing_locations(R().visit(node))
        methods[mname] = dataclasses.replace(f, node=node)
        changed = True
    return _ClsView(cls, methods) if changed else cls


def check(index, ctx):
    ctx.rule("R1", "every attribute stored outside __init__ is either re-assigned by reset() on every path with the constructor's expression, or rebuilt unconditionally by a "
             "method that forward calls under a guard 'field has its initial value' that comes first in forward; constructor parameters are never re-assigned; NashMTL.reset delegates")
    ctx.rule("R2", "every path of forward increments step exactly once by 1, after the schedule test step % update_weights_every == 0; the True branch runs the optimiser (the only writer "
             "of prvs_alpha); statements executed on the reuse path read no mutable state besides step and prvs_alpha")
    ctx.rule("R3", "at every binary operation mixing the weights with the input tensor, the weights have the same kind (torch tensor) on all reaching definitions")
    from . import _agg as _agg_

    cls = _agg_.weighting_of(index, "NashMTL")
    outer = index.find_class("torchjd.aggregation.nash_mtl.NashMTL")
    if cls is None or outer is None:
        raise AnalysisError("anchor vanished: NashMTL / _NashMTLWeighting")
    cls = _flatten_attribute_objects(index, cls)  # `self.calls = _CallCounter()` with the counter's methods called from forward / reset: read as the code they stand for
    cls = flatten_state_object(index, cls)  # mutable fields kept in a helper object that __init__ and reset() both re-create are read as fields of the weighting
    cls = _inline_field_aliases(cls)  # `max_norm = self.max_norm` (a field only the constructor writes) read in place
    need = {}
    for mname in ("__init__", "reset", "forward"):
        r = cls.lookup(mname)
        if r is None or r[0] is not cls:
            raise AnalysisError(f"anchor vanished: _NashMTLWeighting.{mname}")
        need[mname] = r[1]
    init, reset, fwd = need["__init__"], need["reset"], need["forward"]
    ctx.analysed(*(f.qualname for f in cls.methods.values()))

    def self_calls(fn_node):
        return {self_attr(n.func) for n in ast.walk(fn_node) if isinstance(n, ast.Call) and self_attr(n.func) and self_attr(n.func) in cls.methods}

    callers: dict[str, set] = {m: set() for m in cls.methods}
    for mname, f in cls.methods.items():
        for c in self_calls(f.node):
            callers[c].add(mname)
    # helpers reachable only from the constructor and reset() are part of them (e.g. a shared `_set_initial_state`)
    setup_helpers = set()
    changed = True
    while changed:
        changed = False
        for mname in cls.methods:
            if mname in ("__init__", "reset", "forward") or mname in setup_helpers:
                continue
            if callers[mname] and callers[mname] <= ({"__init__", "reset"} | setup_helpers):
                setup_helpers.add(mname)
                changed = True

    def expanded(fn_node, depth=3):
        """Copy of the function with statements `self.<setup helper>()` replaced by the helper's body."""
        import copy

        def splice(stmts, d):
            out = []
            for st in stmts:
                if d > 0 and isinstance(st, ast.Expr) and isinstance(st.value, ast.Call) and self_attr(st.value.func) in setup_helpers and not st.value.args and not st.value.keywords:
                    h = cls.methods[self_attr(st.value.func)].node
                    if len(h.args.args) == 1 and not any(isinstance(x, ast.Return) and x.value is not None for x in ast.walk(h)):
                        out.extend(splice(copy.deepcopy(h.body), d - 1))
                        continue
                for fld in ("body", "orelse", "finalbody"):
                    blk = getattr(st, fld, None)
                    if isinstance(blk, list) and blk and isinstance(blk[0], ast.stmt):
                        setattr(st, fld, splice(blk, d))
                out.append(st)
            return out

        node = copy.deepcopy(fn_node)
        node.body = splice(node.body, depth)
        return ast.fix_missing_locations(node)

    init_node, reset_node = expanded(init.node), expanded(reset.node)
    init_st = stores(init_node)
    params = {a.arg for a in init.node.args.args[1:]}
    param_fields = {a for a, ss in init_st.items() if any(isinstance(v, ast.Name) and v.id in params for _, v in ss)}
    init_expr = {a: ss[-1][1] for a, ss in init_st.items()}
    # state fields: stored outside __init__
    state: dict[str, list] = {}
    for mname, f in cls.methods.items():
        if mname == "__init__" or mname in setup_helpers:
            continue
        for a, ss in stores(reset_node if mname == "reset" else f.node).items():
            state.setdefault(a, []).extend((mname, s) for s, _ in ss)
        if mname != "reset":
            # ... or changed in place: an iterator advanced with next(), a container grown / emptied, an element stored
            MUT = {"append", "appendleft", "extend", "pop", "popleft", "clear", "add", "update", "remove", "discard", "insert", "send", "__next__", "sort", "reverse", "setdefault", "popitem"}
            for x in ast.walk(f.node):
                a_ = None
                if isinstance(x, ast.Call) and isinstance(x.func, ast.Name) and x.func.id == "next" and x.args:
                    a_ = self_attr(x.args[0])
                elif isinstance(x, ast.Call) and isinstance(x.func, ast.Attribute) and x.func.attr in MUT:
                    a_ = self_attr(x.func.value)
                elif isinstance(x, (ast.Assign, ast.AugAssign)):
                    for t_ in (x.targets if isinstance(x, ast.Assign) else [x.target]):
                        if isinstance(t_, ast.Subscript) and self_attr(t_.value):
                            a_ = self_attr(t_.value)
                if a_:
                    state.setdefault(a_, []).append((mname, x))
    mutable = {a for a, ws in state.items() if any(m != "reset" for m, _ in ws)}
    reset_st = stores(reset_node)
    rcfg = cfg_of(reset_node)
    fcfg = cfg_of(fwd.node)
    ctx.paths += len(fcfg.acyclic_paths())

    # ---- guard at the top of forward
    guard_methods = {}  # method name -> (guard field, test node)
    first = fwd.node.body[0] if fwd.node.body else None
    body = [s for s in fwd.node.body if not (isinstance(s, ast.Expr) and isinstance(s.value, ast.Constant))]
    g = body[0] if body else None
    if isinstance(g, ast.If) and isinstance(g.test, ast.Compare) and len(g.test.ops) == 1 and not g.orelse:
        fld = self_attr(g.test.left)
        op, rhs = g.test.ops[0], g.test.comparators[0]
        if fld and isinstance(op, (ast.Eq, ast.Is)) and isinstance(rhs, ast.Constant) and fld in init_expr and isinstance(init_expr[fld], ast.Constant):
            iv = init_expr[fld].value
            same = (iv == rhs.value) and (type(iv) is type(rhs.value) or (isinstance(iv, (int, float)) and isinstance(rhs.value, (int, float))))
            if same:
                for s in g.body:
                    if isinstance(s, ast.Expr) and isinstance(s.value, ast.Call) and self_attr(s.value.func):
                        guard_methods[self_attr(s.value.func)] = (fld, g)

    def reset_restores(a) -> tuple[bool, str]:
        ws = reset_st.get(a)
        if not ws:
            return False, f"reset() does not assign self.{a}"
        node = None
        for n in rcfg.stmt_nodes():
            if n.ast is ws[-1][0]:
                node = n
        if node is None or not rcfg.postdominates(node, rcfg.entry) and not rcfg.dominates(node, rcfg.exit):
            return False, f"reset() assigns self.{a} only on some paths"
        e = ws[-1][1]
        if a not in init_expr or init_expr[a] is None or e is None:
            return False, f"self.{a} has no comparable constructor/reset expression"
        if ast.dump(e) != ast.dump(init_expr[a]):
            return False, f"reset() sets self.{a} = {norm_text(e)} but the constructor sets {norm_text(init_expr[a])}"
        return True, f"reset(): self.{a} = {norm_text(e)} (same as constructor)"

    # ---- lazy rebuild, wherever the guard sits: on every path of forward that is feasible right after reset() (the constant fields reset()
    # restores have their initial values), a method that assigns the field unconditionally is called before the field is read
    def reads_field(mname, a, seen=()):
        if mname in seen or mname not in cls.methods:
            return False
        f = cls.methods[mname].node
        return a in loads(f) or any(reads_field(c, a, seen + (mname,)) for c in self_calls(f))

    def known_after_reset():
        out = {}
        for fld, e in init_expr.items():
            if isinstance(e, ast.Constant) and isinstance(e.value, (int, float)) and not isinstance(e.value, bool) and reset_restores(fld)[0]:
                out[fld] = e.value
        return out

    def ev3(e, known):
        """Value of a test expression given the known field values; None = unknown."""
        if isinstance(e, ast.Constant) and isinstance(e.value, (int, float)):
            return e.value
        if self_attr(e) in known:
            return known[self_attr(e)]
        if isinstance(e, ast.UnaryOp) and isinstance(e.op, ast.Not):
            v = ev3(e.operand, known)
            return None if v is None else (not v)
        if isinstance(e, ast.BinOp) and isinstance(e.op, (ast.Mod, ast.Mult)) and ev3(e.left, known) == 0 and isinstance(e.op, (ast.Mod, ast.Mult)):
            return 0  # 0 % n and 0 * n
        if isinstance(e, ast.BoolOp):
            vs = [ev3(v, known) for v in e.values]
            if isinstance(e.op, ast.And):
                return False if any(v is not None and not v for v in vs) else (None if any(v is None for v in vs) else True)
            return True if any(v is not None and v for v in vs) else (None if any(v is None for v in vs) else False)
        if isinstance(e, ast.Compare) and len(e.ops) == 1:
            l, r_ = ev3(e.left, known), ev3(e.comparators[0], known)
            if l is None or r_ is None:
                return None
            import operator as _op

            f_ = {ast.Eq: _op.eq, ast.NotEq: _op.ne, ast.Lt: _op.lt, ast.LtE: _op.le, ast.Gt: _op.gt, ast.GtE: _op.ge, ast.Is: _op.eq, ast.IsNot: _op.ne}.get(type(e.ops[0]))
            return f_(l, r_) if f_ else None
        return None

    def lazily_rebuilt(a):
        from ..cfg import own_exprs

        builders = [m for m, f in cls.methods.items() if m not in ("__init__", "reset", "forward") and
                    any(any(self_attr(t) == a for t in (s_.targets if isinstance(s_, ast.Assign) else ([s_.target] if isinstance(s_, ast.AnnAssign) and s_.value is not None else []))) for s_ in f.node.body)]
        if not builders:
            return None
        base = known_after_reset()
        if not base:
            return None
        n_feasible = n_built = 0
        for path in fcfg.acyclic_paths():
            known = dict(base)
            built = False
            ok_path = True
            for nd, nxt in zip(path, path[1:] + [None]):
                exprs = own_exprs(nd)
                if nd.kind == "test" and hasattr(nd.ast, "test") and nxt is not None:
                    lbl = next((l for m_, l in fcfg.succ[nd] if m_ is nxt), None)
                    v = ev3(nd.ast.test, known)
                    if v is not None and lbl in ("True", "False") and bool(v) != (lbl == "True"):
                        ok_path = None  # infeasible right after reset()
                        break
                for e in exprs:
                    calls = [self_attr(c.func) for c in ast.walk(e) if isinstance(c, ast.Call) and self_attr(c.func) in cls.methods]
                    if not built and (a in loads(e) or any(reads_field(c, a) for c in calls if c not in builders)):
                        ok_path = False
                    if any(c in builders for c in calls):
                        built = True
                    for c in calls:
                        for fld in stores(cls.methods[c].node):
                            known.pop(fld, None)
                if isinstance(nd.ast, (ast.Assign, ast.AugAssign, ast.AnnAssign)):
                    for fld in stores(nd.ast):
                        known.pop(fld, None)
                if ok_path is False:
                    break
            if ok_path is None:
                continue
            n_feasible += 1
            if ok_path is False:
                return None
            n_built += built
        if n_feasible and n_built == n_feasible:
            return (f"rebuilt by {builders} before self.{a} is read on each of the {n_feasible} paths of forward that are feasible right after reset() "
                    f"(fields restored by reset(): {sorted(base)})")
        return None

    for a in sorted(mutable):
        writers = sorted({m for m, _ in state[a] if m != "reset"})
        if a in param_fields:
            ctx.violated("R1", f"_NashMTLWeighting.{a}", f"constructor parameter field self.{a} is re-assigned in {writers}", cls.loc())
            continue
        ok, why = reset_restores(a)
        if ok:
            ctx.ok("R1", f"_NashMTLWeighting.{a}", why + f"; written by {writers}", reset.loc())
            continue
        # rebuilt under the initial-value guard?
        rebuilt = None
        for gm, (fld, gnode) in guard_methods.items():
            r = cls.lookup(gm)
            if r is None:
                continue
            top = [s for s in r[1].node.body if any(self_attr(t) == a for t in (s.targets if isinstance(s, ast.Assign) else ([s.target] if isinstance(s, ast.AnnAssign) and s.value is not None else [])))]
            if top:
                fok, fwhy = reset_restores(fld)
                if fok:
                    rebuilt = f"rebuilt unconditionally by {gm}(), which forward calls first under `{norm_text(gnode.test)}`; self.{fld} is restored by reset()"
                else:
                    why = f"self.{a} is rebuilt by {gm}() under `{norm_text(gnode.test)}`, but {fwhy}"
        if not rebuilt:
            lz = lazily_rebuilt(a)
            if lz:
                rebuilt = lz
        if rebuilt:
            ctx.ok("R1", f"_NashMTLWeighting.{a}", rebuilt, fwd.loc())
        else:
            ctx.violated("R1", f"_NashMTLWeighting.{a}", f"state field self.{a} (written by {writers}) survives reset(): {why}", reset.loc())
    # reset() may be the first thing called on a fresh object: it only touches attributes the constructor has created
    lazily = sorted(a for a in loads(reset_node) if a not in init_st and a not in cls.methods and cls.lookup(a) is None and a in {x for m_, f_ in cls.methods.items() if m_ not in ("__init__", "reset") for x in stores(f_.node)})
    for a in lazily:
        site = next((n for n in ast.walk(reset_node) if isinstance(n, ast.Attribute) and self_attr(n) == a), None)
        ctx.violated("R1", f"_NashMTLWeighting.reset reads self.{a}", f"reset() uses self.{a}, which the constructor does not create (it is first stored by "
                     f"{sorted(m_ for m_, f_ in cls.methods.items() if m_ not in ('__init__', 'reset') and a in stores(f_.node))}): reset() on an object that has not been called yet raises AttributeError",
                     reset.loc(site) if site is not None else reset.loc())
    for a in sorted(set(reset_st) - mutable):
        ok, why = reset_restores(a)
        ctx.require(ok or a not in init_expr, "R1", f"_NashMTLWeighting.{a} (reset only)", why, why, reset.loc(), nontrivial=False)
    # delegation (or re-construction with the very same constructor arguments)
    r = outer.lookup("reset")
    deleg = r is not None and any(isinstance(n, ast.Call) and norm_text(n.func) == "self.weighting.reset" for n in ast.walk(r[1].node))
    rebuilt_ok, rebuilt_why = False, ""
    if r is not None and not deleg:
        ctor_params = [a.arg for a in init.node.args.args[1:]]
        for n in ast.walk(r[1].node):
            if isinstance(n, ast.Call) and isinstance(n.func, ast.Name) and n.func.id == cls.name:
                names = []
                for a in n.args:
                    names.append(a.attr if isinstance(a, ast.Attribute) else None)
                kw = {k.arg: (k.value.attr if isinstance(k.value, ast.Attribute) else None) for k in n.keywords}
                bad = [(p, got) for p, got in zip(ctor_params, names) if got != p] + [(k2, v) for k2, v in kw.items() if v != k2]
                covered = set(ctor_params[:len(names)]) | set(kw)
                rebuilt_ok = not bad and covered == set(ctor_params)
                rebuilt_why = f"re-construction passes {bad[0][1]!r} for parameter {bad[0][0]!r}" if bad else ("" if rebuilt_ok else "re-construction does not pass every constructor parameter")
    ctx.require(deleg or rebuilt_ok, "R1", "NashMTL.reset restores the weighting", "self.weighting.reset()" if deleg else "fresh weighting with the same parameters",
                "NashMTL.reset neither calls self.weighting.reset() nor rebuilds the weighting with the same constructor arguments" + (": " + rebuilt_why if rebuilt_why else ""), outer.loc())
    ctx.floor("state fields of _NashMTLWeighting", len(mutable), 4)

    # ---------------------------------------------------------------- R2 schedule
    incs = [n for n in fcfg.stmt_nodes() if isinstance(n.ast, ast.AugAssign) and self_attr(n.ast.target) == "step"]
    good_inc = all(isinstance(n.ast.op, ast.Add) and isinstance(n.ast.value, ast.Constant) and n.ast.value.value == 1 for n in incs)
    other_step = [s for m, s in state.get("step", []) if m not in ("reset",) and not isinstance(s, ast.AugAssign)]
    paths = fcfg.acyclic_paths()
    counts = {sum(1 for n in p if n in incs) for p in paths}
    ctx.require(counts == {1} and good_inc and not other_step, "R2", "forward: step advances by exactly one per call",
                f"{len(paths)} paths, each with one `self.step += 1`", f"`self.step += 1` executes {sorted(counts)} times depending on the path (or step is written otherwise)", fwd.loc())
    from ..guards import atoms as g_atoms, cfg_guards, implies, oriented

    def is_phase(e):
        return isinstance(e, ast.BinOp) and isinstance(e.op, ast.Mod) and self_attr(e.left) == "step" and self_attr(e.right) == "update_weights_every"

    def classify(t):
        """D = 'a recomputation is due': self.step % self.update_weights_every == 0."""
        if is_phase(t):
            return ("D", False)  # truthiness of the remainder
        o = oriented(t, is_phase)
        if o is not None and isinstance(o[2], ast.Constant) and o[2].value == 0 and not isinstance(o[2].value, bool):
            if o[1] is ast.Eq:
                return ("D", True)
            if o[1] in (ast.NotEq, ast.Gt):
                return ("D", False)
        return None

    # the schedule may be evaluated into a local first (`due = self.step % k == 0; self.step += 1; if due:`): the test is read with
    # such locals expanded, and "tested before step advances" is then about the statement that evaluates the remainder
    from ..astutil import inline_locals

    has_mod = lambda e: any(isinstance(x, ast.BinOp) and isinstance(x.op, ast.Mod) and "step" in loads(x) for x in ast.walk(e))
    test_of, eval_node = {}, {}
    for n in fcfg.nodes:
        if n.kind == "test" and isinstance(n.ast, ast.If):
            if has_mod(n.ast.test):
                test_of[n], eval_node[n] = n.ast.test, n
            else:
                t2 = inline_locals(n.ast.test, fwd.node)
                if has_mod(t2):
                    names = {x.id for x in ast.walk(n.ast.test) if isinstance(x, ast.Name)}
                    defs = [d for d in fcfg.stmt_nodes() if d.kind == "stmt" and isinstance(d.ast, ast.Assign) and isinstance(d.ast.targets[0], ast.Name) and d.ast.targets[0].id in names and has_mod(d.ast.value)]
                    if len(defs) == 1 and fcfg.dominates(defs[0], n):
                        test_of[n], eval_node[n] = t2, defs[0]
    mods = list(test_of)
    sched = [n for n in mods if "D" in g_atoms(test_of[n], classify)]
    if len(sched) != 1 or len(mods) != 1:
        if len(mods) == 1 and not sched:
            ctx.violated("R2", "forward: schedule test form", f"schedule test `{norm_text(test_of[mods[0]])}` is not `self.step % self.update_weights_every == 0`", fwd.loc(mods[0].ast))
        else:
            ctx.undecided("R2", "forward: schedule test", f"expected one `self.step % self.update_weights_every == 0` test, found {len(sched)}", fwd.loc())
        return
    st = sched[0]
    t = test_of[st]
    due = [lbl for lbl in (True, False) if implies([(t, lbl)], classify, "D", True)]
    idle = [lbl for lbl in (True, False) if implies([(t, lbl)], classify, "D", False)]
    if len(due) != 1 or len(idle) != 1:
        ctx.undecided("R2", "forward: schedule test", f"`{norm_text(t)}` mixes the schedule with other conditions: neither edge means exactly 'recomputation due'", fwd.loc(st.ast))
        return
    due_lbl, idle_lbl = str(due[0]), str(idle[0])
    ctx.ok("R2", "forward: schedule test form", f"`{norm_text(t)}`: edge {due_lbl} means step % update_weights_every == 0", fwd.loc(st.ast))
    ctx.require(all(fcfg.dominates(eval_node[st], n) and eval_node[st] is not n for n in incs), "R2", "forward: schedule is tested before step advances", "test dominates the increment",
                "`self.step += 1` can execute before the schedule test: recomputation would shift to calls k-1, 2k-1, ...", fwd.loc(st.ast))
    writers_pa = sorted({m for m, _ in state.get("prvs_alpha", []) if m != "reset"})
    ctx.require(len(writers_pa) == 1, "R2", "prvs_alpha has a single writer (the optimiser)", f"written by {writers_pa}", f"prvs_alpha is written by {writers_pa}", cls.loc())
    opt = writers_pa[0] if writers_pa else None
    true_nodes = {n for n in fcfg.stmt_nodes() if (st, due_lbl) in fcfg.guards_of(n)}
    false_nodes = {n for n in fcfg.stmt_nodes() if (st, idle_lbl) in fcfg.guards_of(n)}
    if opt == "forward":
        # forward itself remembers what the optimiser returned (`self.prvs_alpha = self.<optimiser>(...)`): the store sits on the due branch and the optimiser is the method it calls
        st_nodes = [n for n in fcfg.stmt_nodes() if n.kind == "stmt" and "prvs_alpha" in stores(n.ast)]
        called = {self_attr(x.func) for n in st_nodes for e in own_exprs(n) for x in ast.walk(e) if isinstance(x, ast.Call) and self_attr(x.func) in cls.methods}
        ctx.require(bool(st_nodes) and all(n in true_nodes for n in st_nodes) and len(called) == 1, "R2", "forward: the stored weights are written on the due branch only, from the optimiser's result",
                    f"`{norm_text(st_nodes[0].ast)[:70] if st_nodes else ''}` on the due branch", "prvs_alpha is stored by forward outside the branch where recomputation is due, or not from one optimiser call",
                    fwd.loc(st_nodes[0].ast) if st_nodes else fwd.loc())
        opt = next(iter(called)) if len(called) == 1 else None
    reaches_opt = {opt}
    grew = True
    while grew:  # methods that (transitively) call the optimiser
        grew = False
        for mname, f in cls.methods.items():
            if mname not in reaches_opt and mname not in ("forward", "__init__", "reset") and self_calls(f.node) & reaches_opt:
                reaches_opt.add(mname)
                grew = True
    calls_opt = lambda nodes: any(isinstance(x, ast.Call) and self_attr(x.func) in reaches_opt for n in nodes for e in own_exprs(n) for x in ast.walk(e))
    ctx.require(opt is not None and calls_opt(true_nodes) and not calls_opt(false_nodes), "R2", "forward: optimiser runs exactly on scheduled calls",
                f"{opt}() called on the due branch only", f"{opt}() is not called exactly on the branch where step % update_weights_every == 0", fwd.loc(st.ast))
    # reuse path: everything reachable from the False edge
    reach = set()
    work = [m for m, l in fcfg.succ[st] if l == idle_lbl]
    while work:
        n = work.pop()
        if n in reach:
            continue
        reach.add(n)
        work.extend(m for m, _ in fcfg.succ[n])
    allowed = {"step", "prvs_alpha"} | param_fields | {m for m in cls.methods}
    for n in sorted(reach, key=lambda x: x.id):
        if n in true_nodes:
            continue
        for e in own_exprs(n):
            for a in sorted(loads(e) - allowed):
                if a in mutable:
                    ctx.violated("R2", f"forward: reuse path reads self.{a}", f"`{norm_text(e)}` on the path that reuses the previous weights reads self.{a}, "
                                 f"state written by {sorted({m for m, _ in state[a]})} during an earlier call", fwd.loc(n.ast))
        wr = stores(n.ast) if n.kind == "stmt" else {}
        for a in wr:
            if a != "step" and n in false_nodes:
                ctx.violated("R2", f"forward: reuse branch writes self.{a}", f"`{norm_text(n.ast)}`", fwd.loc(n.ast))
    ctx.ok("R2", "forward: reuse path reads only step / prvs_alpha / constructor parameters", f"{len(reach)} CFG nodes inspected", fwd.loc())

    # ---------------------------------------------------------------- R3 kind consistency
    field_kinds = {}
    for a, e in init_expr.items():
        if e is not None:
            field_kinds[a] = expr_kind(e, {}, cls)
    params_t = {a.arg for a in fwd.node.args.args[1:]}
    n_sites = 0
    for n in fcfg.stmt_nodes():
        for e in own_exprs(n):
            for b in ast.walk(e):
                def _bare(o_):
                    # `matrix.T`, `matrix.t()`, `matrix.mT`: the transposed operand is still the input tensor
                    while (isinstance(o_, ast.Attribute) and o_.attr in ("T", "mT")) or (isinstance(o_, ast.Call) and isinstance(o_.func, ast.Attribute) and o_.func.attr == "t" and not o_.args):
                        o_ = o_.value if isinstance(o_, ast.Attribute) else o_.func.value
                    return o_
                pair_ = None
                if isinstance(b, ast.BinOp) and isinstance(b.op, (ast.MatMult,)):
                    pair_ = (b.left, b.right)
                elif isinstance(b, ast.Call) and isinstance(b.func, ast.Attribute) and b.func.attr in ("mv", "mm", "matmul", "dot", "inner", "tensordot") and not b.keywords:
                    if isinstance(b.func.value, ast.Name) and b.func.value.id == "torch" and len(b.args) == 2:
                        pair_ = (b.args[0], b.args[1])
                    elif len(b.args) == 1 and not (isinstance(b.func.value, ast.Name) and b.func.value.id in ("torch", "np", "numpy")):
                        pair_ = (b.func.value, b.args[0])
                if pair_ is not None:
                    pair_ = (_bare(pair_[0]), _bare(pair_[1]))
                    names = [(x, o) for x, o in (pair_, pair_[::-1]) if isinstance(x, ast.Name) and x.id not in params_t and isinstance(o, ast.Name) and o.id in params_t]
                    for x, o in names:
                        n_sites += 1
                        rd = reaching_defs(fcfg, x.id)[n]
                        kinds = {}
                        for d in rd:
                            if isinstance(d.ast, ast.Assign):
                                kinds[norm_text(d.ast)] = expr_kind(d.ast.value, field_kinds, cls)
                            else:
                                kinds[norm_text(d.ast)] = "same"
                        fixed = [(d, k_) for d in rd if isinstance(d.ast, ast.Assign)
                                 and not (isinstance(d.ast.value, ast.Call) and isinstance(d.ast.value.func, ast.Attribute) and d.ast.value.func.attr in ("to", "type", "type_as")
                                          and not any(kk.arg == "dtype" and isinstance(kk.value, ast.Attribute) and isinstance(kk.value.value, ast.Name) and kk.value.value.id == "torch" for kk in d.ast.value.keywords))
                                 for c_ in ast.walk(d.ast.value) if isinstance(c_, ast.Call) for k_ in c_.keywords
                                 if k_.arg == "dtype" and isinstance(k_.value, ast.Attribute) and isinstance(k_.value.value, ast.Name) and k_.value.value.id == "torch"]
                        if fixed:
                            ctx.violated("R3", f"forward: `{norm_text(b)}` operand dtype", f"`{x.id}` reaches the product with the input tensor from `{norm_text(fixed[0][0].ast)[:90]}`, which fixes its dtype to "
                                         f"`{norm_text(fixed[0][1].value)}` whatever the matrix's: for a matrix of another floating dtype (float64) the product raises RuntimeError, on every call", fwd.loc(b))
                            continue
                        bad = {k: v for k, v in kinds.items() if v not in ("tensor", "same")}
                        if bad and all(v is None for v in bad.values()):
                            ctx.undecided("R3", f"forward: `{norm_text(b)}` operand kinds", f"the kind (torch tensor / numpy array) of `{x.id}` could not be read off {sorted(bad)}", fwd.loc(b))
                            continue
                        ctx.require(not bad and bool(kinds), "R3", f"forward: `{norm_text(b)}` operand kinds",
                                    f"`{x.id}` is a torch tensor on all {len(kinds)} reaching definitions",
                                    f"`{x.id}` reaches `{norm_text(b)}` (other operand: the input tensor) as {bad}: numpy array @ torch tensor raises TypeError", fwd.loc(b),
                                    derivation=kinds)
    # ... the same through a helper method that forward hands both operands to (`self._cap(alpha, matrix)` with `alpha @ matrix` inside)
    for n in fcfg.stmt_nodes():
        for e in own_exprs(n):
            for c in ast.walk(e):
                if not (isinstance(c, ast.Call) and isinstance(c.func, ast.Attribute) and isinstance(c.func.value, ast.Name) and c.func.value.id == "self" and c.func.attr in cls.methods):
                    continue
                H = cls.methods[c.func.attr]
                hp = [a.arg for a in H.node.args.args[1:]]
                if len(hp) != len(c.args) or c.keywords or not all(isinstance(a, ast.Name) for a in c.args):
                    continue
                bound = dict(zip(hp, [a.id for a in c.args]))
                for b in ast.walk(H.node):
                    if isinstance(b, ast.BinOp) and isinstance(b.op, ast.MatMult):
                        for x, o in ((b.left, b.right), (b.right, b.left)):
                            if isinstance(x, ast.Name) and isinstance(o, ast.Name) and x.id in bound and o.id in bound and bound[o.id] in params_t and bound[x.id] not in params_t \
                                    and not any(isinstance(y, ast.Name) and y.id == x.id and isinstance(y.ctx, ast.Store) for y in ast.walk(H.node)):
                                n_sites += 1
                                actual = bound[x.id]
                                rd = reaching_defs(fcfg, actual)[n]
                                kinds = {norm_text(d.ast): (expr_kind(d.ast.value, field_kinds, cls) if isinstance(d.ast, ast.Assign) else "same") for d in rd}
                                bad = {k: v for k, v in kinds.items() if v not in ("tensor", "same")}
                                if bad and all(v is None for v in bad.values()):
                                    ctx.undecided("R3", f"forward: `{norm_text(b)}` in {H.name} operand kinds", f"the kind (torch tensor / numpy array) of `{actual}` could not be read off {sorted(bad)}", fwd.loc(c))
                                    continue
                                ctx.require(not bad and bool(kinds), "R3", f"forward: `{norm_text(b)}` in {H.name} (called with `{actual}`) operand kinds",
                                            f"`{actual}` is a torch tensor on all {len(kinds)} definitions reaching the call",
                                            f"`{actual}` reaches `{norm_text(b)}` in {H.name} (other operand: the input tensor) as {bad}: numpy array @ torch tensor raises TypeError", fwd.loc(c),
                                            derivation=kinds)
    ctx.floor("weights·matrix sites in forward", n_sites, 1)
    # in-place operations on a value that may share memory with stored state (stored weights must be reused unchanged)
    for n in fcfg.stmt_nodes():
        a = n.ast
        tgt = None
        if n.kind == "stmt" and isinstance(a, ast.AugAssign) and isinstance(a.target, (ast.Name, ast.Subscript)):
            tgt = a.target.id if isinstance(a.target, ast.Name) else (a.target.value.id if isinstance(a.target.value, ast.Name) else None)
        elif n.kind == "stmt" and isinstance(a, ast.Assign) and isinstance(a.targets[0], ast.Subscript) and isinstance(a.targets[0].value, ast.Name):
            tgt = a.targets[0].value.id
        elif n.kind == "stmt" and isinstance(a, (ast.Expr, ast.Assign, ast.Return)) and a.value is not None:
            # x.op_(...), also chained x.div_(a).mul_(b) and `y = x.mul_(c)`: every in-place method whose receiver chain starts at a name
            for c in ast.walk(a.value):
                if isinstance(c, ast.Call) and isinstance(c.func, ast.Attribute) and c.func.attr.endswith("_") and not c.func.attr.startswith("_"):
                    base = c.func.value
                    while isinstance(base, ast.Call) and isinstance(base.func, ast.Attribute):
                        base = base.func.value
                    if isinstance(base, ast.Name):
                        tgt = base.id
                        break
        if tgt is None or tgt in params_t:
            continue
        rd = reaching_defs(fcfg, tgt)[n]
        shared = [d for d in rd if isinstance(d.ast, ast.Assign) and expr_aliases_state(d.ast.value)]
        ctx.require(not shared, "R2", f"forward: `{norm_text(a)}` does not write into stored state", "target is a freshly computed value on every reaching definition",
                    f"`{norm_text(a)}` updates `{tgt}` in place, and `{tgt}` may share memory with stored state via `{norm_text(shared[0].ast) if shared else ''}` "
                    "(torch.from_numpy / .to() return views when no conversion is needed): the stored weights would not be reused unchanged", fwd.loc(a))
    cap_rule(index, ctx, cls, fwd)
    stored_is_returned_rule(ctx, cls)
    numpy_crossing_rule(ctx, cls, fwd, fcfg)
    ctx.assumptions += ["kinds are inferred from construction forms (torch.* -> tensor, np.* -> ndarray, .numpy() -> ndarray)",
                        "solver convergence is numerical and NOT decided; of `||result|| <= max_norm` only the shape of the cap is decided (R4)"]
