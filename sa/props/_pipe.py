"""Shared driver: abstract runs of backward / mtl_backward in every defaulted/explicit variant (cached per process)."""

from __future__ import annotations

from ..pipeline import PipeAnalysis

_CACHE: dict = {}

INTERNAL_CHECK_MODULES = ("tensor_dict",)  # shape-consistency checks that cannot fire for valid autograd results


class Run:
    def __init__(self, entry, label, variant, results):
        self.entry = entry
        self.label = label
        self.variant = variant
        self.results = results

    def returning(self):
        return [r for r in self.results if r.kind == "return"]

    def raising(self):
        return [r for r in self.results if r.kind == "raise"]


def runs(index, entries=("backward", "mtl_backward")):
    key = id(index)
    if key not in _CACHE:
        _CACHE.clear()
        _CACHE[key] = (PipeAnalysis(index), {})
        _STAGE.clear()
        _STAGE.update(stage_functions(index))
        if not _STAGE:
            from .. import AnalysisError

            raise AnalysisError("anchor vanished: no method of the transform package calls torch.autograd.grad")
    P, done = _CACHE[key]
    if "backward" in entries and "backward" not in done:
        out = []
        for inputs_given, chunk in ((True, True), (False, True), (True, False)):
            lab = f"backward(inputs={'given' if inputs_given else 'None'}, parallel_chunk_size={'k' if chunk else 'None'})"
            out.append(Run("backward", lab, {"inputs": inputs_given, "chunk": chunk}, P.run_backward(inputs_given, chunk)))
        out.append(Run("backward", "backward(tensors=<single Tensor>, inputs=None, parallel_chunk_size=None)", {"inputs": False, "chunk": False, "single": True}, P.run_backward(False, False, single=True)))
        done["backward"] = out
    if "mtl_backward" in entries and "mtl_backward" not in done:
        out = []
        for tg, sg, chunk in ((True, True, True), (False, False, True), (True, False, True), (False, True, True), (True, True, False)):
            lab = f"mtl_backward(tasks_params={'given' if tg else 'None'}, shared_params={'given' if sg else 'None'}, parallel_chunk_size={'k' if chunk else 'None'})"
            out.append(Run("mtl_backward", lab, {"tasks": tg, "shared": sg, "chunk": chunk}, P.run_mtl(tg, sg, chunk)))
        out.append(Run("mtl_backward", "mtl_backward(features=<single Tensor>, tasks_params=None, shared_params=None, parallel_chunk_size=None)",
                       {"tasks": False, "shared": False, "chunk": False, "single": True}, P.run_mtl(False, False, False, single=True)))
        done["mtl_backward"] = out
    return P, [r for e in entries for r in done[e]]


def oneshot_runs(index):
    """The entry points called with their differentiated collection handed over as a one-shot iterable (iterator, generator,
    filter object): such an object is always true and has no len(), so only a test on the materialised list says anything."""
    P, _ = runs(index, ())
    done = _CACHE[id(index)][1]
    if "oneshot" not in done:
        done["oneshot"] = [
            Run("backward", "backward(tensors=<one-shot iterable>, inputs=None, parallel_chunk_size=None)", {"inputs": False, "chunk": False, "oneshot": ("tensors",)},
                P.run_backward(False, False, oneshot=("tensors",))),
            Run("mtl_backward", "mtl_backward(features=<one-shot iterable>, tasks_params=None, shared_params=None, parallel_chunk_size=None)",
                {"tasks": False, "shared": False, "chunk": False, "oneshot": ("features",)}, P.run_mtl(False, False, False, oneshot=("features",))),
        ]
    return done["oneshot"]


def compute_method_name(index) -> str:
    """Name of the abstract method that Transform.__call__ runs after the key check (`_compute` today): found by its role."""
    import ast

    from .. import AnalysisError

    base = index.get_class("torchjd.autojac._transform.base.Transform")
    call = base.lookup("__call__")
    if call is None:
        raise AnalysisError("anchor vanished: Transform.__call__")
    abstract = {n for n, f in base.methods.items() if any("abstractmethod" in ast.unparse(d) for d in f.node.decorator_list)}
    names = [n.func.attr for n in ast.walk(call[1].node) if isinstance(n, ast.Call) and isinstance(n.func, ast.Attribute) and isinstance(n.func.value, ast.Name)
             and n.func.value.id == "self" and n.func.attr in abstract]
    if len(set(names)) != 1:
        raise AnalysisError(f"anchor vanished: the abstract method applied by Transform.__call__ (candidates {sorted(set(names))})")
    return names[0]


_STAGE: set = set()


def stage_functions(index) -> set:
    """Qualified names of the differentiation stages: the classes of the transform package one of whose methods reaches a call of
    torch.autograd.grad — in its own body, in a nested closure, or in a function of its module that it calls or hands to
    partial(). Every method of such a class, and every helper it calls, works on behalf of the stage."""
    import ast

    from ..index import FunctionInfo

    def direct(fi):
        return any(isinstance(n, ast.Call) and ast.unparse(n.func).endswith("autograd.grad") for n in ast.walk(fi.node))

    def reaches(fi, seen):
        if fi.qualname in seen:
            return False
        seen.add(fi.qualname)
        if direct(fi):
            return True
        for n in ast.walk(fi.node):
            if isinstance(n, ast.Name) and isinstance(n.ctx, ast.Load):
                c = index.resolve_name(fi.module, n.id)
                if isinstance(c, FunctionInfo) and c.cls is None and c.parent is None and c.module is fi.module and reaches(c, seen):
                    return True
                # ... or builds an instance of a class of its module one of whose methods does (a callable object instead of a closure)
                if getattr(c, "methods", None) is not None and getattr(c, "module", None) is fi.module and any(reaches(m_, seen) for m_ in c.methods.values()):
                    return True
        return False

    out = set()
    for fi in index.all_functions("torchjd.autojac._transform"):
        if fi.parent is None and fi.cls is not None and reaches(fi, set()):
            out.add(fi.cls.qualname)
    return out


def in_stage(e) -> bool:
    """The event was emitted by a differentiation stage or by a helper running on its behalf (generator of row blocks, ...)."""
    fns = [e["function"]] + list(e.get("stack", ()))
    return any(f == q or f.startswith(q + ".") for f in fns for q in _STAGE)


def evs(res, *kinds):
    return [e for e in res.events if e["kind"] in kinds]


_EMPTY_KEY = __import__("re").compile(r"^(Eq:len\*?\[[^\]]+\]|nonempty\?.+)$")


def is_empty_path(res) -> bool:
    """Paths on which there is legitimately nothing to differentiate / aggregate: some test decided that a key collection
    (or a dictionary built over one) is empty. Recognised by the question the test asks, not by where it is written."""
    for e in res.events:
        if e["kind"] != "decision" or e.get("outcome") is None or e.get("forced"):
            continue
        k = e.get("key") or ""
        if not _EMPTY_KEY.match(k) or "(&:" in k or k.startswith("nonempty?~") or "len~[" in k:
            continue  # (a filtered selection being empty is not the collection being empty)
        if "._transform." not in e["function"]:
            continue  # an early return of the entry point itself is not "nothing to do": it skips stages that do not depend on that collection
        truth = bool(e["outcome"]) ^ bool(e.get("key_neg"))
        if (k.startswith("Eq:len") and truth) or (k.startswith("nonempty?") and not truth):
            return True
    return False


def empty_atoms(res) -> set:
    """Key collections (atoms) that some test on this path decided to be empty — wherever the test is written."""
    out = set()
    for e in res.events:
        if e["kind"] != "decision" or e.get("outcome") is None:
            continue
        k = e.get("key") or ""
        if not k.startswith("nonempty?") or "(&:" in k or k.startswith("nonempty?~"):
            continue
        if not (bool(e["outcome"]) ^ bool(e.get("key_neg"))):
            txt = k[len("nonempty?"):]
            out.add(txt)
            for a in txt.split("+"):
                out.add(a)
    return out


def main_paths(run: Run):
    return [r for r in run.returning() if not is_empty_path(r)]


def blocking(res):
    return [e for e in res.events if e["kind"] in ("unknown", "unknown_call", "no_fixpoint", "lost_mutation", "opaque_op", "opaque_method", "attr_store_unknown", "subscript_store_unknown")]


def lost_paths(run: Run):
    """Paths on which the analysis lost track: they end in an exception that no `raise` statement of the source produces (a subscript /
    attribute / call on a value the interpreter could not model, after a construct outside the analysed subset). What the program
    really does there was not seen, so nothing can be said about it."""
    import ast

    out = []
    for r in run.raising():
        if isinstance(getattr(r.exc, "node", None), ast.Raise) or r.exc.exc_name not in ("IndexError", "TypeError", "AttributeError", "KeyError"):
            continue
        if blocking(r):
            out.append(r)
    return out


def common_evidence(ctx, index, entries=("backward", "mtl_backward")):
    P, rs = runs(index, entries)
    seen_lost = set()
    for run in rs:
        for r in lost_paths(run):
            e = blocking(r)[0]
            if (run.entry, e["loc"]) in seen_lost:
                continue
            seen_lost.add((run.entry, e["loc"]))
            ctx.rule("paths", "every path of the entry points is followed to its end: a path abandoned at a construct outside the analysed subset is reported, not ignored")
            ctx.undecided("paths", f"{run.entry}: path abandoned at {e['loc'].split('/')[-1]}", f"after `{e['text'][:70]}` ({e['loc']}) the value is unknown and the path [{r.describe_path()[-90:]}] "
                          f"ends in an artefact {r.exc.exc_name}; what the program does on it was not analysed", e["loc"])
    ctx.analysed(*sorted(P.interp.functions_entered))
    ctx.call_sites += len(P.interp.calls_made)
    ctx.paths += sum(len(r.results) for r in rs)
    ctx.extra["entry_variants"] = [f"{r.label}: {len(r.results)} paths ({len(r.returning())} returning)" for r in rs]
    ctx.trusted_base += [
        "pipeline operator axioms (/verif/sa/pipeops.py): torch.autograd.grad returns one (optional) gradient per element of `inputs`, in that order, and has no .grad side effect",
        "cat/concatenate/stack/vstack lay the members of their sequence side by side in iteration order; diag copies a 1-d layout to both axes; vmap prepends a batch axis",
        "an aggregator's output axis inherits the layout of its input's column axis",
        "dict / OrderedDict / zip / comprehensions / append-in-loop preserve the iteration order of what they iterate; set iteration order is arbitrary but fixed for one object",
    ]


def overlap_rejection(res) -> bool:
    """The path ends in a raise decided by 'the intersection of two key collections is non-empty' (however it is spelt:
    len(a & b) != 0, a.intersection(b) truthiness, not a.isdisjoint(b), ...)."""
    decs = [e for e in res.events if e["kind"] == "decision"][-6:]
    for e in decs:
        k = e.get("key") or ""
        if "(&:" not in k or e["outcome"] is None:
            continue
        if k.startswith("nonempty?") and (bool(e["outcome"]) ^ bool(e.get("key_neg"))):
            return True
        if k.startswith("Eq:len[(&:") and k.endswith(")]") and not (bool(e["outcome"]) ^ bool(e.get("key_neg"))):
            return True  # `len(a & b) == 0` is false
        if k.startswith("Gt:len[(&:") and k.endswith(")]") and (bool(e["outcome"]) ^ bool(e.get("key_neg"))):
            return True
    return False


def loop_overlap_rejection(res) -> bool:
    """A `raise` executed inside an abstract loop (element-wise check) whose guarding test asks whether a key of one collection belongs to another,
    before any differentiation / write of the path."""
    first = min([e["seq"] for e in res.events if e["kind"] in ("autograd", "grad_write") and "seq" in e] or [10 ** 9])
    prev = None
    seq = 0
    for e in res.events:
        seq = e.get("seq", seq)
        if e["kind"] == "decision":
            prev = e
        elif e["kind"] == "raise" and prev is not None and prev.get("outcome") is None and "(&:" in (prev.get("key") or "") and seq < first:
            return True
    return False
