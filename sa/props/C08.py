"""C08 — weighted aggregators stay in the row span and only look at the Gramian (DESIGN.md 5/C08)."""

from __future__ import annotations

import os
import re

from ..values import TV
from . import _agg

GRAMIAN = ["UPGrad", "DualProj", "MGDA", "PCGrad", "CAGrad", "IMTL-G", "Aligned-MTL", "ConFIG", "Krum", "Mean", "Sum", "Constant", "Random"]


def documented_weighted(index) -> dict:
    """Cross-reference: the 'Weighted' column of docs/source/docs/aggregation/index.rst (if present)."""
    out = {}
    for root in (os.environ.get("VERIF_REPO", "/repo"),):
        p = os.path.join(root, "docs/source/docs/aggregation/index.rst")
        if not os.path.exists(p):
            continue
        txt = open(p, encoding="utf-8").read()
        for m in re.finditer(r"\* - :doc:`([^<`]+) <(\w+)>`[^\n]*\n\s+- \|(yes|no)\|\n\s+- \|(yes|no)\|\n\s+- \|(yes|no)\|", txt):
            out[m.group(1).strip()] = m.group(5) == "yes"
    return out


def check(index, ctx):
    ctx.rule("R1", "every aggregator documented as weighted returns, on every path and constructor variant, a (C,) value typed "
             "'in the row span' (single R-contraction of column-free weights with the matrix, pinv/scaling carry)")
    ctx.rule("R2", "for the 13 Gramian-based aggregators the returned value is typed q-equivariant: the column axis is only ever "
             "contracted against itself (J·Jᵀ, L2 norm, cdist p=2), carried linearly, or read for shape")
    ctx.rule("R3", "every deterministic aggregator's result is typed equivariant under column permutations and zero-column insertion")
    A, by_class = _agg.analysis(index)
    base_w = _agg.weighted_base(index)
    gram = _agg.classes_named(index, GRAMIAN, ctx, "R2")
    docs = documented_weighted(index)
    n_r1 = n_r2 = n_r3 = 0
    for name, runs in sorted(by_class.items()):
        cls = runs[0].cls
        weighted = base_w in cls.mro or name == "ConFIG"
        for run in runs:
            if run.obj is None:
                ctx.undecided("R0", f"{name}({run.label})", "constructor raises on every path")
                continue
            rets = _agg.returning(run)
            if not rets:
                ctx.undecided("R0", f"{name}({run.label}).forward", "no returning path")
            for res in rets:
                randomised = any(e["kind"] == "rng" for e in res.events) or (isinstance(res.value, TV) and res.value.rng)
                if weighted:
                    _agg.check_flag(ctx, "R1", name, run, res, ["span"])
                    n_r1 += 1
                if name in gram:
                    _agg.check_flag(ctx, "R2", name, run, res, ["q"])
                    n_r2 += 1
                if not randomised:
                    _agg.check_flag(ctx, "R3", name, run, res, ["s", "z"])
                    n_r3 += 1
    # NashMTL: inheritance argument only
    nash = index.find_class("torchjd.aggregation.nash_mtl.NashMTL")
    if nash is not None:
        fwd = nash.lookup("forward")
        ok = base_w in nash.mro and fwd is not None and fwd[0] is base_w and not nash.defines("combine")
        ctx.require(ok, "R1", "NashMTL inherits _WeightedAggregator.forward/combine unchanged",
                    "row span by inheritance (stateful weighting not interpreted)", "NashMTL overrides forward/combine", nash.loc())
    # cross-reference with the documentation table
    mism = []
    for doc_name, w in docs.items():
        cn = _agg.NAMES.get(doc_name, doc_name).replace(" (recommended)", "")
        c = index.find_class(f"torchjd.aggregation.{cn}") or next((x for x in index.classes.values() if x.name == cn), None)
        if c is not None:
            is_w = base_w in c.mro or c.name == "ConFIG"
            if is_w != w:
                mism.append(doc_name)
    ctx.extra["doc_table_weighted"] = docs
    ctx.extra["doc_table_disagreements"] = mism
    ctx.floor("R1 returning paths of weighted aggregators", n_r1, 14)
    ctx.floor("R2 returning paths of Gramian-based aggregators", n_r2, 13)
    ctx.floor("R3 returning paths of deterministic aggregators", n_r3, 10)
    _agg.common_evidence(ctx, index)
    ctx.notes.append("R4 (backward feeds columns in set order) is decided under C01 R2.")
