"""C11 — aggregators are total, pure, stateless and positively homogeneous (DESIGN.md 5/C11).

Decided: argument validation, purity, statelessness / seeded RNG, dtype preservation, positive homogeneity.
Not decided: finiteness of the result over 27 orders of magnitude (a runtime phenomenon)."""

from __future__ import annotations

import ast
from fractions import Fraction

from ..aggtyping import matrix_value, param_variants, variant_label
from ..values import NONE, TV, Z
from ..report import norm_text
from . import _agg

THRESHOLD_CLASSES = {"UPGrad", "DualProj", "CAGrad"}  # the statement's carve-out for the norm_eps threshold
MIN_ROW_PARAMS = {"TrimmedMean": ["trim_number"], "Krum": ["n_byzantine", "n_selected"]}


def _events(res, kind):
    return [e for e in res.events if e["kind"] == kind]


def _idx(res, kind):
    for i, e in enumerate(res.events):
        if e["kind"] == kind:
            return i
    return None


def check(index, ctx):
    A, by_class = _agg.analysis(index)
    ctx.rule("R1a", "interpreted on a 0-d, a 1-d and a 3-d abstract input, every path of forward raises ValueError before any value of the input is used")
    ctx.rule("R1b", "on a 2-d input every returning path passed a finiteness test of the whole matrix before the first use of its values, and the failing side of that test raises ValueError")
    ctx.rule("R1c", "with a per-objective configuration vector of an unrelated length, every returning path passed a two-sided (==/!=) comparison of the row count with that length whose other side raises ValueError")
    ctx.rule("R1d", "every row-minimum configuration (trim_number, n_byzantine, n_selected) guards forward with a comparison of the row count against it that raises ValueError")
    ctx.rule("R2", "no in-place operation reachable from forward targets the input matrix, a view of it, or a configuration tensor")
    ctx.rule("R3", "no store to self.* / globals reachable from forward; randomness only from torch's global generator")
    ctx.rule("R4", "the returned tensor is typed with the dtype of the input matrix")
    ctx.rule("R5", "the returned value has scaling degree 1 (or is an exact zero) and every comparison on the path is scale-free, except the documented norm_eps threshold reached by UPGrad, DualProj and CAGrad only")
    n_paths = 0
    thresholds_seen = set()
    for name, runs in sorted(by_class.items()):
        cls = runs[0].cls
        # ---------------------------------------------------------------- R1a: wrong dimensionality
        for shape, label in ((("R",), "1-d"), (("R", "C", "K"), "3-d"), ((), "0-d")):
            for run in runs:
                if run.obj is None:
                    continue
                bad_m = matrix_value().but(axes=shape)
                res = A.forward(run.obj, bad_m)
                key = f"{name}({run.label}).forward on a {label} tensor"
                bad = []
                for r in res:
                    if r.kind != "raise" or r.exc.exc_name != "ValueError":
                        bad.append(f"path [{r.describe_path()}] " + ("returns" if r.kind == "return" else f"raises {r.exc.exc_name}"))
                    elif _idx(r, "first_value_use") is not None:
                        e = r.events[_idx(r, "first_value_use")]
                        bad.append(f"values used at {e['loc']} `{e['text']}` before the rejection")
                ctx.require(not bad, "R1a", key, f"all {len(res)} paths raise ValueError before any value use", "; ".join(bad[:3]), cls.loc(),
                            derivation={"paths": [r.describe_path() for r in res][:4]})
                break  # one constructor variant suffices for the shape rule
        # ---------------------------------------------------------------- per path rules on the 2-d input
        raise_after_finite = False
        for run in runs:
            if run.obj is None:
                continue
            for r in run.results:
                n_paths += 1
                pk = f"{name}({run.label}) path[{r.describe_path()}]"
                # R2 purity (all paths, also raising ones)
                for e in _events(r, "inplace"):
                    ctx.require(not e.get("alias"), "R2", f"{name}: {e['function'].split('.')[-1]}: {e['text']}",
                                "in-place on a locally allocated value", f"in-place operation on the input matrix / a configuration tensor or a view of it: `{e['text']}`", e["loc"])
                # R3 statelessness / rng
                for e in _events(r, "self_write"):
                    if e.get("fresh"):
                        continue  # a field of an object created during this very call (a local helper object): not state that outlives the call
                    ctx.violated("R3", f"{name}: {e['function'].split('.')[-1]}: {e['text']}", f"forward stores to self.{e.get('attr')} — the result may depend on earlier calls", e["loc"])
                for e in _events(r, "rng"):
                    ctx.require(bool(e.get("torch_global")), "R3", f"{name}: {e['function'].split('.')[-1]}: {e['text']}",
                                f"randomness from torch's global generator ({e.get('fn')})", f"randomness source {e.get('fn')} is not governed by torch.manual_seed", e["loc"])
                # the answer this path assumes to "is every entry of the input finite?" (None: the question is not asked as a branch)
                fin = [bool(e["outcome"]) ^ bool(e.get("key_neg")) for e in _events(r, "decision") if e.get("key") == "allfinite?matrix" and e.get("outcome") is not None]
                if r.kind == "raise":
                    if r.exc.exc_name == "ValueError" and _events(r, "finite_check") and not _events(r, "first_value_use") and fin[-1:] != [True]:
                        raise_after_finite = True
                    continue
                v = r.value
                unk = _agg.blocking_unknowns(r)
                if unk or not isinstance(v, TV):
                    ctx.undecided("R4/R5", pk, "path not fully typed: " + "; ".join(f"{e['loc']} {e.get('why','')}" for e in unk[:3]), cls.loc())
                    continue
                # R1b finiteness
                fi, vi = _idx(r, "finite_check"), _idx(r, "first_value_use")
                ok = fi is not None and (vi is None or fi < vi)
                detail = "finiteness test precedes the first value use"
                if fi is None:
                    detail = "no finiteness test of the input on this path" + (f"; values first used at {r.events[vi]['loc']} `{r.events[vi]['text']}`" if vi is not None else "")
                elif not ok:
                    detail = f"values used at {r.events[vi]['loc']} `{r.events[vi]['text']}` before the finiteness test"
                if ok and fin and not fin[0]:
                    ok = False
                    detail = f"the path [{r.describe_path()}] goes on to compute a result although the finiteness test answered that the input has a non-finite entry (inverted test)"
                ctx.require(ok, "R1b", f"{name}({run.label}).forward path[{r.describe_path()}]" if ok else f"{name}.forward: finiteness test", detail, detail, cls.loc())
                # R4 dtype
                ctx.require(v.dtype == "M", "R4", pk if v.dtype == "M" else f"{name}({run.label}).forward dtype", f"returns dtype tag {v.dtype}",
                            f"returned tensor has dtype tag {v.dtype}, not the input's dtype; dtype events: " +
                            "; ".join(f"{e['loc']} {e.get('left')}/{e.get('right')}" for e in _events(r, 'dtype_mix')[:3]), cls.loc())
                for e in _events(r, "store_cast"):
                    if e.get("buffer_dtype") == "Cfg" and e.get("value_dtype") != "Cfg":
                        ctx.violated("R4", f"{name}: {e['function'].split('.')[-1]}: {e['text'][:70]}",
                                     f"a value of dtype tag {e.get('value_dtype')} is stored into a buffer that has the dtype of a configuration tensor (allocated like it): with an integer or "
                                     "half-precision preference / weight vector the computed weights are truncated to that dtype before they are converted to the matrix dtype", e["loc"])
                for e in _events(r, "precision_loss"):
                    ctx.violated("R4", f"{name}: {e['function'].split('.')[-1]}: {e['text']}", e.get("why", "precision loss"), e["loc"])
                # R5 homogeneity
                degok = v.deg in (Fraction(1), Z)
                ctx.require(degok, "R5", pk if degok else f"{name}({run.label}).forward degree", f"degree {v.deg}",
                            f"returned value has scaling degree {'undefined' if v.deg is None else v.deg} (expected 1): " +
                            "; ".join(f"{e['loc']} `{e['text']}` ({e.get('left')} vs {e.get('right')})" for e in _events(r, 'deg_mismatch')[:3]), cls.loc())
                for e in _events(r, "scale_branch"):
                    documented = (e.get("left") == "1" and e.get("right_origin") == ["norm_eps"] and e.get("op") in ("Lt", "LtE")) or \
                                 (e.get("right") == "1" and e.get("left_origin") == ["norm_eps"] and e.get("op") in ("Gt", "GtE"))
                    if documented and name in THRESHOLD_CLASSES:
                        thresholds_seen.add(name)
                        ctx.ok("R5", f"{name}: documented threshold {e['text']}", "largest singular value compared with norm_eps (the statement's carve-out)", e["loc"], nontrivial=False)
                    else:
                        ctx.violated("R5", f"{name}: {e['function'].split('.')[-1]}: {e['text']}",
                                     f"scale-dependent decision: {e.get('why')}", e["loc"])
        ctx.require(raise_after_finite, "R1b", f"{name}.forward rejects non-finite input", "a path raises ValueError right after the finiteness test",
                    "no path raises ValueError on a failed finiteness test", cls.loc())
        # ---------------------------------------------------------------- R1c mismatching configuration vectors
        for v in param_variants(cls, A.interp):
            tens = [k for k, x in v.items() if isinstance(x, TV) and x.note == "config"]
            if not tens:
                continue
            for tname in tens:
                vv = dict(v)
                vv[tname] = v[tname].but(axes=("R2",))
                objs, _ = A.construct(cls, vv)
                for obj, _, _ in objs:
                    res = A.forward(obj)
                    key = f"{name}.{tname}: row count vs configured length"
                    two_sided_all = True
                    why = ""
                    raised = False
                    nret = 0
                    for r in res:
                        decs = [e for e in r.events if e["kind"] == "decision" and any(c["kind"] == "size_compare" and "m2" in c["diff"] and "m" in c["diff"].replace("m2", "") for c in e["compares"])]
                        if r.kind == "raise":
                            if r.exc.exc_name == "ValueError" and decs and not _events(r, "first_value_use"):
                                raised = True
                            continue
                        nret += 1
                        good = False
                        for d in decs:
                            for c in d["compares"]:
                                if c["kind"] != "size_compare":
                                    continue
                                if (c["op"] == "NotEq" and d["outcome"] is False) or (c["op"] == "Eq" and d["outcome"] is True):
                                    good = True
                                else:
                                    why = f"only a one-sided comparison ({c['op']}) at {d['loc']} `{d['test']}`"
                        if not good:
                            two_sided_all = False
                            if not decs:
                                why = "the row count is never compared with the configured length"
                    ok = two_sided_all and raised
                    ctx.require(ok, "R1c", key, f"{nret} returning paths all passed an equality test; mismatch raises ValueError",
                                why or "no ValueError raised for a mismatching row count", cls.loc())
                    break
            break
        # ---------------------------------------------------------------- R1d minimum-row configurations
        for pname in MIN_ROW_PARAMS.get(name, []):
            found = False
            for run in runs:
                for r in run.results:
                    if r.kind != "raise" or r.exc.exc_name != "ValueError" or _events(r, "first_value_use"):
                        continue
                    for d in _events(r, "decision"):
                        for c in d["compares"]:
                            if c["kind"] == "size_compare" and pname in c["diff"] and "m" in c["diff"].replace(pname, ""):
                                found = True
            ctx.require(found, "R1d", f"{name}.{pname}: minimum row count guard", "a guard comparing the row count with it raises ValueError",
                        f"no ValueError guard compares the row count with {pname}", cls.loc())
    for n in THRESHOLD_CLASSES:
        if n in by_class and n not in thresholds_seen:
            ctx.notes.append(f"{n} no longer reaches the documented norm_eps threshold")
    # no global / nonlocal state in the aggregation package
    for m in index.modules.values():
        if m.name.startswith("torchjd.aggregation"):
            for node in ast.walk(m.tree):
                if isinstance(node, (ast.Global, ast.Nonlocal)):
                    ctx.violated("R3", f"{m.name}: {ast.unparse(node)}", "global/nonlocal state in the aggregation package", f"{m.path}:{node.lineno}")
    ctx.floor("paths analysed", n_paths, 40)
    _numpy_conversions(index, ctx)
    # R3, hidden state outside the objects: memoised helpers and module-level mutable containers of torchjd.aggregation
    import ast as _ast

    n_fn = 0
    for fi in index.all_functions("torchjd.aggregation"):
        n_fn += 1
        for d in getattr(fi.node, "decorator_list", []):
            t = norm_text(d)
            if any(x in t for x in ("lru_cache", "functools.cache", "cached_property")) or t in ("cache",):
                ctx.violated("R3", f"{fi.short}: decorated with {t}", "results are memoised on the identity of the argument tensors: after the matrix (or a configuration tensor) is modified in place, "
                             "or once its id is reused, a later call returns the result of an earlier one", fi.loc())
    for mod in index.modules.values():
        if mod.name.startswith("torchjd.aggregation"):
            for nm, e in mod.globals_.items():
                if isinstance(e, (_ast.Dict, _ast.List, _ast.Set)) and not nm.startswith("__") or (isinstance(e, _ast.Call) and norm_text(e.func) in ("dict", "list", "set", "defaultdict", "WeakKeyDictionary", "weakref.WeakKeyDictionary")):
                    if nm == "__all__":
                        continue
                    # a table that is only read (subscripted, iterated, tested for membership) is a constant, not state
                    MUT_ = {"append", "appendleft", "extend", "add", "update", "setdefault", "pop", "popitem", "clear", "remove", "discard", "insert", "sort", "reverse", "__setitem__"}
                    writes, escapes = [], []
                    for m2 in index.modules.values():
                        if not m2.name.startswith("torchjd.aggregation"):
                            continue
                        imported = m2 is mod or any(imp[0] == "obj" and imp[2] == nm and imp[1].endswith(mod.name.split(".")[-1]) for imp in m2.imports.values())
                        if not imported:
                            continue
                        parents = {}
                        for par in _ast.walk(m2.tree):
                            for ch in _ast.iter_child_nodes(par):
                                parents[id(ch)] = par
                        for x in _ast.walk(m2.tree):
                            if isinstance(x, _ast.Name) and x.id == nm:
                                par = parents.get(id(x))
                                if isinstance(x.ctx, _ast.Store) and par is not None and not (isinstance(par, (_ast.Assign, _ast.AnnAssign)) and par in m2.tree.body):
                                    writes.append(par)
                                elif isinstance(par, _ast.Subscript) and isinstance(par.ctx, (_ast.Store, _ast.Del)):
                                    writes.append(par)
                                elif isinstance(par, _ast.Attribute) and par.attr in MUT_:
                                    writes.append(par)
                                elif isinstance(par, _ast.AugAssign) and par.target is x:
                                    writes.append(par)
                                elif isinstance(par, _ast.Call) and x in par.args and norm_text(par.func) not in ("len", "sorted", "list", "tuple", "set", "frozenset", "dict", "iter", "enumerate", "zip", "min", "max", "sum", "any", "all", "repr", "str"):
                                    escapes.append(par)
                    key_ = f"{mod.name}.{nm}: module-level mutable container"
                    if writes:
                        ctx.violated("R3", key_, f"hidden state shared between calls of the aggregators: it is modified by `{norm_text(writes[0])[:60]}`", f"{mod.path}:{getattr(e, 'lineno', 0)}")
                    elif escapes:
                        ctx.undecided("R3", key_, f"the container is handed to `{norm_text(escapes[0])[:60]}`: whether it is modified there was not followed", f"{mod.path}:{getattr(e, 'lineno', 0)}")
                    else:
                        ctx.ok("R3", key_, "a table that is only read (never stored into, never handed on): a constant", f"{mod.path}:{getattr(e, 'lineno', 0)}")
    ctx.ok("R3", "torchjd.aggregation: no memoisation / module-level mutable state", f"{n_fn} functions and the module globals scanned", "", nontrivial=False)
    _agg.common_evidence(ctx, index)
    ctx.assumptions.append("finiteness/totality of the result over extreme scales is NOT decided (overflow, conditioning and solver failures are runtime phenomena)")



def _numpy_conversions(index, ctx):
    """R6 (totality on matrices that are part of an autograd graph): Tensor.numpy() raises RuntimeError on a tensor that requires grad, so every
    conversion to numpy in torchjd.aggregation passes force=True or is applied to a value whose chain of method calls (followed through locals
    assigned once) contains .detach()."""
    import ast

    ctx.rule("R6", "every Tensor.numpy() conversion in torchjd.aggregation detaches first (`.detach()` in the receiver chain, followed through single-assignment locals) or passes force=True: "
                   "a finite matrix that requires grad (create_graph=True, requires_grad=True) is a valid input")
    n = 0
    for fi in index.all_functions("torchjd.aggregation"):
        if fi.parent is not None:
            continue
        fn = fi.node
        params = {a.arg for a in fn.args.args + fn.args.kwonlyargs} | ({fn.args.vararg.arg} if fn.args.vararg else set())
        assigns: dict = {}
        nograd_ids = set()
        for w in ast.walk(fn):
            if isinstance(w, ast.With) and any("no_grad" in ast.unparse(it.context_expr) for it in w.items):
                nograd_ids |= {id(x) for b_ in w.body for x in ast.walk(b_)}
        for a in ast.walk(fn):
            if isinstance(a, ast.Assign) and len(a.targets) == 1:
                for t in ast.walk(a.targets[0]):
                    if isinstance(t, ast.Name) and isinstance(t.ctx, ast.Store):
                        assigns.setdefault(t.id, []).append((a.value, id(a) in nograd_ids))
            elif isinstance(a, (ast.AugAssign, ast.AnnAssign, ast.For, ast.NamedExpr, ast.With, ast.comprehension)):
                for t in ast.walk(a.target if hasattr(a, "target") else a):
                    if isinstance(t, ast.Name) and isinstance(t.ctx, ast.Store):
                        assigns.setdefault(t.id, []).append((None, False))
        PASS = ("cpu", "to", "contiguous", "double", "float", "clone", "reshape", "view", "flatten", "squeeze", "unsqueeze", "type", "t", "sqrt", "diag", "abs", "sum", "mean", "norm")
        CREATE = ("zeros", "ones", "eye", "full", "arange", "tensor", "as_tensor", "from_numpy", "linspace", "empty", "rand", "randn", "zeros_like", "ones_like", "full_like", "empty_like")

        def combine(parts):
            rs = [detached(x_, d_) for x_, d_ in parts]
            if any(r is False for r in rs):
                return False
            return True if all(r is True for r in rs) else None

        def detached(e, depth=0):
            """True: cannot require grad; False: derives, undetached, from a parameter; None: not traced."""
            if depth > 8:
                return None
            if isinstance(e, ast.Constant):
                return True
            if isinstance(e, ast.Call):
                f = e.func
                if isinstance(f, ast.Attribute) and f.attr == "detach":
                    return True
                if (isinstance(f, ast.Attribute) and f.attr in CREATE and isinstance(f.value, ast.Name) and f.value.id in ("torch", "np", "numpy")) or (isinstance(f, ast.Name) and f.id in CREATE):
                    return True
                parts = [(x_, depth + 1) for x_ in list(e.args) + [k.value for k in e.keywords if k.arg not in ("dtype", "device", "dim", "keepdim", "full_matrices")]]
                def is_module(v_):
                    while isinstance(v_, ast.Attribute):
                        v_ = v_.value
                    return isinstance(v_, ast.Name) and v_.id in ("torch", "np", "numpy", "math", "F")
                if isinstance(f, ast.Attribute) and not is_module(f.value):
                    if isinstance(f.value, ast.Name) and f.value.id == "self":
                        return None if not parts else (False if combine(parts) is False else None)  # a method of the object: what it returns is not traced, what it is given is
                    parts.append((f.value, depth + 1))
                return combine(parts) if parts else None
            if isinstance(e, ast.Attribute):
                if e.attr == "data":
                    return True
                if isinstance(e.value, ast.Name) and e.value.id == "self":
                    return None  # a stored attribute (configuration / state): not traced
                if e.attr in ("shape", "dtype", "device", "ndim"):
                    return True
                return detached(e.value, depth + 1)
            if isinstance(e, ast.Subscript):
                return detached(e.value, depth + 1)
            if isinstance(e, ast.BinOp):
                return combine([(e.left, depth + 1), (e.right, depth + 1)])
            if isinstance(e, ast.UnaryOp):
                return detached(e.operand, depth + 1)
            if isinstance(e, ast.Name):
                vs = assigns.get(e.id)
                if vs is None:
                    return False if e.id in params and e.id not in ("self", "cls") else None
                if len(vs) == 1 and vs[0][0] is not None:
                    if vs[0][1] and not isinstance(vs[0][0], ast.Name):
                        return True  # computed under torch.no_grad()
                    return detached(vs[0][0], depth + 1)
                return None
            return None

        for c in ast.walk(fn):
            if isinstance(c, ast.Call) and isinstance(c.func, ast.Attribute) and c.func.attr == "numpy":
                n += 1
                if any(k.arg == "force" and isinstance(k.value, ast.Constant) and k.value.value is True for k in c.keywords):
                    ctx.ok("R6", f"{fi.short}: `{ast.unparse(c)[:60]}`", "force=True", fi.loc(c))
                    continue
                d = detached(c.func.value)
                if d is True:
                    ctx.ok("R6", f"{fi.short}: `{ast.unparse(c)[:60]}`", "detached before the conversion", fi.loc(c))
                elif d is None:
                    ctx.undecided("R6", f"{fi.short}: `{ast.unparse(c)[:60]}`", "the receiver of .numpy() is a local assigned more than once: whether it was detached is not traced", fi.loc(c))
                else:
                    ctx.violated("R6", f"{fi.short}: `{ast.unparse(c)[:60]}`", "Tensor.numpy() is applied to a value that was never detached: for a finite matrix that is part of an autograd graph "
                                 "(requires_grad=True, or a Jacobian computed with create_graph=True) it raises RuntimeError instead of returning the aggregation", fi.loc(c))
    ctx.floor("numpy conversions in torchjd.aggregation", n, 3)
