"""C16 — Byzantine-robust aggregators: index arithmetic, axes and direction flags in normal form (DESIGN.md 5/C16).

Decided: TrimmedMean's window [b, m-b) of the column-wise ascending sort and its mean; Krum's neighbourhood size m-f-2,
exclusion of the self distance, selection of the n_selected lowest scores, weights 1/n_selected; row-count guards and
constructor guards; exact-difference distance computation.  Not decided: floating point at 1e12 corruption; ties."""

from __future__ import annotations

from fractions import Fraction

from .. import AnalysisError
from ..poly import Poly
from ..values import TV
from . import _agg

m = Poly.sym("m")
ONE = Poly.const(1)


def sops(res):
    return [e for e in res.events if e["kind"] == "sop"]


def raise_guards(runs):
    """Canonical guard expressions e (raise ValueError iff e < 0) found on raising paths of forward."""
    out = []
    for run in runs:
        for r in run.results:
            if r.kind != "raise" or r.exc.exc_name != "ValueError":
                continue
            decs = [e for e in r.events if e["kind"] == "decision"]
            if not decs:
                continue
            d = decs[-1]
            for c in d["compares"]:
                if c["kind"] == "size_compare":
                    e = canon(c, d["outcome"])
                    if e is not None:
                        out.append((e, d))
    return out


def _parse(c):
    return c.get("_diff")


def canon(c, outcome):
    """size_compare event + branch outcome leading to the raise -> polynomial e with 'raise iff e < 0' (integers)."""
    diff = c.get("diff_poly")
    if diff is None:
        return None
    op = c["op"]
    if outcome is False:
        op = {"Lt": "GtE", "LtE": "Gt", "Gt": "LtE", "GtE": "Lt"}.get(op)
    if op == "Lt":
        return diff
    if op == "LtE":
        return diff - ONE
    if op == "Gt":
        return -diff
    if op == "GtE":
        return -diff - ONE
    return None


def window_of(chain_ops, axis_len: Poly, ctx, rule, key, loc):
    """Folds slice/narrow/topk ops into a window [start, stop) of positions along the ordered axis."""
    start, stop = Poly.const(0), axis_len
    problems = []
    # `for _ in range(B): x = x[c1:-c2]`: the slice is applied B times to its own result — [c1·B, len − c2·B). The fixpoint rounds of the
    # summarised loop repeat the event; it is folded once, multiplied by the trip count.
    seen_ids = set()
    folded = []
    for e in chain_ops:
        if e["id"] in seen_ids:
            continue
        seen_ids.add(e["id"])
        rep = [x for x in chain_ops if x["id"] == e["id"]]
        if e["sop"] == "slice" and e.get("in_loop") and any(e["id"] in x["in_origin"] for x in rep):
            T = e.get("loop_trip")
            if T is None or e.get("lo_poly") is None or (e["hi_given"] and e.get("hi_poly") is None):
                problems.append(f"{e['loc']}: slice applied to its own result in a loop whose number of iterations has no closed form")
                continue
            e = dict(e, lo_poly=e["lo_poly"] * T, hi_poly=(e["hi_poly"] * T) if e["hi_given"] else e.get("hi_poly"), loop_folded=True)
        folded.append(e)
    chain_ops = folded
    for e in chain_ops:
        if e["sop"] == "topk":
            k = e.get("k_poly")
            if k is None:
                problems.append(f"{e['loc']}: topk with a non-symbolic k")
                continue
            stop = start + k
        elif e["sop"] == "narrow":
            s0, ln = e.get("start_poly"), e.get("length_poly")
            if s0 is None or ln is None:
                problems.append(f"{e['loc']}: narrow with non-symbolic bounds")
                continue
            start = start + s0
            stop = start + ln
        elif e["sop"] == "slice":
            lo, hi = e.get("lo_poly"), e.get("hi_poly")
            if e.get("step") not in ("None", None):
                problems.append(f"{e['loc']}: strided slice")
            if e["hi_given"]:
                if hi is None:
                    problems.append(f"{e['loc']}: non-symbolic upper bound")
                elif hi.terms and all(c < 0 for c in hi.terms.values()) and e.get("loop_folded"):
                    stop = stop + hi  # (zero iterations leave the tensor untouched: no `[: -0]` is ever evaluated)
                elif hi.terms and all(c < 0 for c in hi.terms.values()):
                    problems.append(f"{e['loc']}: negative upper bound `{hi}` selects an EMPTY window when it is 0 (python slice semantics)")
                    stop = stop + hi
                else:
                    stop = start + hi if False else (start - start + hi)
            if e["lo_given"]:
                if lo is None:
                    problems.append(f"{e['loc']}: non-symbolic lower bound")
                elif lo.terms and all(c < 0 for c in lo.terms.values()):
                    problems.append(f"{e['loc']}: negative lower bound `{lo}`")
                else:
                    start = start + lo
    return start, stop, problems


def check(index, ctx):
    A, by_class = _agg.analysis(index)
    ctx.rule("T", "TrimmedMean: ascending sort of the raw matrix along the row axis; window [trim_number, m - trim_number) in polynomial "
             "normal form; mean over that same axis; nothing else; guard raises iff m < 2*trim_number + 1; constructor rejects trim_number < 0")
    ctx.rule("K", "Krum: cdist(J, J) with p = 2 in exact-difference mode; per row the ascending top-k window excludes position 0 (self) and "
             "holds m - n_byzantine - 2 distances, summed; selection = indices of the n_selected lowest scores; weights = one-hot sum / n_selected; "
             "guards raise iff m < n_byzantine + 3 or m < n_selected; constructor rejects n_byzantine < 0 and n_selected < 1")
    ctx.rule("D", "both: the mean/average is formed in the precision of the matrix — the result carries the matrix's dtype and no value derived from the matrix is converted to "
             "another floating type on the way (a float64 Jacobian averaged in float32 is rounded, and overflows beyond 3.4e38)")
    for need in ("TrimmedMean", "Krum"):
        if need not in by_class:
            raise AnalysisError(f"anchor vanished: aggregator {need}")
    for need in ("TrimmedMean", "Krum"):
        for run in by_class[need]:
            for r in _agg.returning(run):
                if _agg.blocking_unknowns(r) or not isinstance(r.value, TV):
                    continue  # reported by T / K
                casts = [e for e in r.events if e["kind"] == "precision_loss"]
                ok = r.value.dtype == "M" and not casts
                bad = "" if ok else (f"result has dtype tag {r.value.dtype!r} instead of the matrix's" if r.value.dtype != "M" else f"{casts[0]['loc']}: {casts[0].get('why', '')}")
                ctx.require(ok, "D", f"{need}({run.label}).forward: precision of the result", "dtype of the matrix throughout", bad,
                            casts[0]["loc"] if casts else by_class[need][0].cls.loc())
    # attach polynomial objects of size comparisons (events carry reprs; recompute from left/right is not possible) ---------
    # --------------------------------------------------------------------------------------------------- TrimmedMean
    b = Poly.sym("trim_number")
    runs = by_class["TrimmedMean"]
    cls = runs[0].cls
    n = 0
    for run in runs:
        for r in _agg.returning(run):
            n += 1
            key = f"TrimmedMean.forward path[{r.describe_path()}]"
            unk = _agg.blocking_unknowns(r)
            if unk or not isinstance(r.value, TV):
                ctx.undecided("T", key, "path not fully typed: " + "; ".join(f"{e['loc']} {e.get('why', '')}" for e in unk[:3]), cls.loc())
                continue
            ops = sops(r)
            srt = [e for e in ops if e["sop"] in ("sort", "msort", "argsort") and e["in_origin"] == ["matrix"]]
            any_sort = [e for e in ops if e["sop"] in ("sort", "msort", "argsort")]
            if len(srt) == 0 and any_sort:
                ctx.violated("T", "TrimmedMean.forward: sort of the matrix", f"`{any_sort[0]['text'][:60]}` sorts a value derived from the matrix ({any_sort[0]['in_origin']}), not the raw matrix: "
                             "what is trimmed is not the b largest and b smallest entries of each column", any_sort[0]["loc"])
                continue
            if len(srt) == 0:
                # no sort: successive partial selections along the rows — topk(k, largest=False) keeps ranks [lo, lo + k) of what it is given, topk(k, largest=True) keeps
                # [hi - k, hi); the mean does not depend on the order of the kept entries
                tks = [e for e in ops if e["sop"] == "topk" and e.get("axis") in ("R", "K") and e.get("axis_pos") == 0]
                chain_, prev = [], None
                for e in tks:
                    if (prev is None and e["in_origin"] == ["matrix"] and e.get("axis") == "R") or (prev is not None and prev["id"] in e["in_origin"]):
                        chain_.append(e)
                        prev = e
                if chain_ and len(chain_) == len(tks):
                    lo_, hi_, bad_ = Poly.const(0), m, None
                    for e in chain_:
                        k_ = e.get("k_poly")
                        if k_ is None or e.get("largest") not in (True, False):
                            bad_ = f"{e['loc']}: topk with a non-symbolic k / direction"
                            break
                        if e["largest"]:
                            lo_ = hi_ - k_
                        else:
                            hi_ = lo_ + k_
                    # ... then sliced along the same axis: topk returns its k entries in order (ascending for largest=False), so positions [s, t) of
                    # them are the ranks [lo + s, lo + t), resp. [hi - t, hi - s) for the descending order of largest=True
                    sl_ = [e for e in ops if e["sop"] in ("slice", "narrow") and chain_[-1]["id"] in e["in_origin"] and e.get("axis_pos") == 0]
                    if sl_ and bad_ is None:
                        last_ = chain_[-1]
                        if last_.get("sorted") is not True:
                            bad_ = f"{sl_[0]['loc']}: positions of a topk(sorted=False) result are sliced: which entries they hold is not defined"
                        else:
                            s_, t_, pr_ = window_of(sl_, last_["k_poly"], ctx, "T", key, cls.loc())
                            if pr_:
                                bad_ = "; ".join(pr_)
                            elif last_["largest"]:
                                lo_, hi_ = hi_ - t_, hi_ - s_
                            else:
                                lo_, hi_ = lo_ + s_, lo_ + t_
                    red = [e for e in ops if e["sop"] == "reduce" and chain_[-1]["id"] in e["in_origin"]]
                    okr = len(red) == 1 and red[0]["fn"] == "mean" and red[0]["over_pos"] == [chain_[-1]["axis_pos"]] and all(e["id"] in red[0]["in_origin"] for e in sl_)
                    ctx.require(bad_ is None and lo_ == b and hi_ == m - b, "T", "TrimmedMean.forward: trimming window", f"partial selections keep the ranks [{lo_}, {hi_}) == [trim_number, m - trim_number)",
                                bad_ or f"the partial selections keep the ranks [{lo_}, {hi_}) of every column, not [trim_number, m - trim_number)", chain_[0]["loc"],
                                derivation={"start": repr(lo_), "stop": repr(hi_), "ops": [e["text"] for e in chain_]})
                    ctx.require(okr and tuple(r.value.axes) == ("C",) and red[0]["id"] in r.value.origin, "T", "TrimmedMean.forward: mean over the trimmed window", "single mean over the row axis of the kept entries",
                                "the kept entries are not reduced by a single mean over the row axis", red[0]["loc"] if red else chain_[-1]["loc"])
                    continue
                tot_ = [e for e in ops if e["sop"] == "reduce" and e.get("fn") in ("sum", "mean", "nansum") and "R" in (e.get("over") or []) and e["in_origin"] == ["matrix"] and e["id"] in r.value.origin]
                if tot_:
                    ctx.violated("T", "TrimmedMean.forward: the result is computed from the kept entries only", f"`{tot_[0]['text'][:70]}` reduces ALL rows of a column — including the up to "
                                 "trim_number arbitrary ones — and that total reaches the result: removing the extremes from it afterwards cancels catastrophically when they are many orders of "
                                 "magnitude larger than the honest entries, so the output leaves the range of the untouched rows", tot_[0]["loc"])
                    continue
                cut_ = [e for e in ops if e["sop"] in ("slice", "narrow") and e.get("axis") == "R" and e["in_origin"] == ["matrix"]]
                if cut_:
                    ctx.violated("T", "TrimmedMean.forward: sort of the matrix", f"`{cut_[0]['text'][:70]}` takes rows of the matrix by POSITION — nothing orders the entries of a column first: the rows "
                                 "dropped are the first and last ones given, not the largest and smallest entries", cut_[0]["loc"])
                    continue
                ctx.undecided("T", "TrimmedMean.forward: sort of the matrix", "neither a sort of the raw matrix nor a chain of partial selections (topk) along the rows was recognised", cls.loc())
                continue
            if len(srt) != 1:
                ctx.violated("T", "TrimmedMean.forward: sort of the matrix", f"expected exactly one sort of the raw matrix, found {len(srt)}", cls.loc())
                continue
            s = srt[0]
            ctx.require(s["axis"] == "R" and s.get("descending") in (False, None) and s.get("descending") is not None or (s["axis"] == "R" and s.get("descending") is False),
                        "T", "TrimmedMean.forward: sort axis and direction", "ascending sort along the row axis",
                        f"sort along axis {s['axis']} (descending={s.get('descending')}) instead of ascending along the rows", s["loc"])
            chain = [e for e in ops if e["sop"] in ("slice", "narrow", "topk") and s["id"] in e["in_origin"] and e.get("axis_pos") == s["axis_pos"]]
            if len([e for e in chain if e["id"] in r.value.origin]) < len(chain):
                chain = [e for e in chain if e["id"] in r.value.origin]  # (sections that are cut but not used — `_, kept, _ = sorted.split([b, m - 2b, b])` — are not on the value path)
            start, stop, problems = window_of(chain, m, ctx, "T", key, cls.loc())
            good = not problems and start == b and stop == m - b
            ctx.require(good, "T", "TrimmedMean.forward: trimming window",
                        f"window [{start}, {stop}) == [trim_number, m - trim_number)",
                        f"window [{start}, {stop}) differs from [trim_number, m - trim_number)" + ("; " + "; ".join(problems) if problems else ""),
                        chain[0]["loc"] if chain else s["loc"], derivation={"start": repr(start), "stop": repr(stop), "ops": [e["text"] for e in chain]})
            if s["sop"] == "argsort":
                # argsort + take_along_dim(matrix, trimmed indices): the gathered values are the trimmed window of the sorted matrix
                tk = [e for e in ops if e["sop"] == "take_along_dim" and s["id"] in e.get("idx_origin", [])]
                okt = len(tk) == 1 and tk[0].get("raw") and tk[0].get("axis") == "R" and all(c["id"] in tk[0]["idx_origin"] for c in chain)
                ctx.require(okt, "T", "TrimmedMean.forward: values gathered with the trimmed argsort", "take_along_dim(matrix, argsort window, dim=0)",
                            "the indices of the trimmed window are not used to gather the entries of the raw matrix along the row axis", tk[0]["loc"] if tk else s["loc"])
            red = [e for e in ops if e["sop"] == "reduce" and s["id"] in e["in_origin"]]
            okr = len(red) == 1 and red[0]["fn"] == "mean" and red[0]["over_pos"] == [s["axis_pos"]] and all(c["id"] in red[0]["in_origin"] for c in chain)
            ctx.require(okr, "T", "TrimmedMean.forward: mean over the trimmed window", "single mean over the sorted axis of the trimmed tensor",
                        "the reduction of the trimmed tensor is not a single mean over the sorted axis: " + "; ".join(f"{e['fn']} over {e['over']} `{e['text']}`" for e in red),
                        red[0]["loc"] if red else s["loc"])
            sop_sites = {(e["loc"], e["text"]) for e in ops}
            extra = [e for e in r.events if e["kind"] == "op" and e["function"].endswith("TrimmedMean.forward") and (e["loc"], e["text"]) not in sop_sites]
            ctx.require(not extra and tuple(r.value.axes) == ("C",) and (not red or red[0]["id"] in r.value.origin), "T", "TrimmedMean.forward: result is the trimmed mean itself",
                        "no further arithmetic on the result", "additional arithmetic on the value path: " + "; ".join(f"{e['loc']} `{e['text']}`" for e in extra[:3]), cls.loc())
    ctx.floor("TrimmedMean returning paths", n, 1)
    guard_rule(ctx, "T", "TrimmedMean", runs, {"m >= 2*trim_number + 1": m - b - b - ONE}, cls)
    ctor_rule(ctx, "T", "TrimmedMean", A, cls, {"trim_number >= 0": b})
    # --------------------------------------------------------------------------------------------------- Krum
    f, k = Poly.sym("n_byzantine"), Poly.sym("n_selected")
    runs = by_class["Krum"]
    cls = runs[0].cls
    W_KRUM = _agg.weighting_of(index, "Krum")
    if W_KRUM is None:
        raise AnalysisError("anchor vanished: the weighting class Krum is built on")
    n = 0
    for run in runs:
        for r in _agg.returning(run):
            n += 1
            key = f"Krum.forward path[{r.describe_path()}]"
            unk = _agg.blocking_unknowns(r)
            if unk or not isinstance(r.value, TV):
                ctx.undecided("K", key, "path not fully typed: " + "; ".join(f"{e['loc']} {e.get('why', '')}" for e in unk[:3]), cls.loc())
                continue
            ops = sops(r)
            cd = list({e["id"]: e for e in ops if e["sop"] == "cdist"}.values())  # (a store executed in a loop is re-evaluated by the fixpoint iteration: one id, several events)
            if len(cd) == 0:
                # no distances from differences, and the ordering of the neighbours derives from J @ J.T: the distances can only have been rebuilt from inner
                # products (||x||^2 + ||y||^2 - 2 x.y), which cancels catastrophically when rows share a large component or differ by orders of magnitude
                mis = [e for e in r.events if e["kind"] == "pdist_scatter_mismatch"]
                if mis:
                    ctx.violated("K", "Krum: distances land on the pairs they belong to",
                                 f"`{mis[0]['text'][:70]}` scatters torch.pdist(matrix) through {mis[0].get('indices')}_indices: {mis[0].get('why')} — another enumeration "
                                 "of the pairs agrees with it for at most 3 rows, from 4 rows on distances are attributed to other pairs of rows", mis[0]["loc"])
                    continue
                gr = [e for e in ops if e["sop"] == "gramian"]
                by_g = [e for e in ops if e["sop"] in ("topk", "sort", "argsort") and e.get("axis") == "R" and e.get("in_axes") == ["R", "R"] and gr and any(g["id"] in e["in_origin"] for g in gr)]
                if by_g:
                    ctx.violated("K", "Krum: distances computed from exact differences",
                                 f"`{by_g[0]['text'][:70]}` orders values derived from the Gramian `{gr[0]['text'][:50]}` and no distance between rows is computed from their "
                                 "difference: squared norms minus twice the inner products lose all significant digits for rows with a large common component (and for corrupted rows "
                                 "1e12 times the honest scale), so which rows are nearest — and which are selected — is decided by rounding noise", by_g[0]["loc"])
                    continue
                ctx.undecided("K", "Krum: pairwise distances", "no value recognised as the matrix of pairwise distances between the rows (torch.cdist(matrix, matrix), F.pairwise_distance of the "
                              "broadcast rows, or `buf[i] = vector_norm(matrix - row)` for every (i, row) of enumerate(matrix))", cls.loc())
                continue
            if len(cd) != 1:
                ctx.violated("K", "Krum: pairwise distances", f"expected one cdist(matrix, matrix), found {len(cd)}", cls.loc())
                continue
            cd = cd[0]
            ctx.require(not cd.get("eps"), "K", "Krum: distances are the exact norms of the row differences", "no eps inside the norm",
                        f"the distances are ||x - y + eps|| with eps={cd.get('eps')} added to every coordinate (F.pairwise_distance default): the distance of a row to itself is "
                        "eps·sqrt(n) instead of 0 and grows with the number of columns, so which rows are nearest — and which are selected — changes", cd["loc"])
            ctx.require(cd["both_raw"] and cd["p"] == "2", "K", "Krum: distances are Euclidean distances between rows of the matrix",
                        "cdist(matrix, matrix), p=2", f"cdist arguments/p: both_raw={cd['both_raw']}, p={cd['p']}", cd["loc"])
            ctx.require(cd.get("compute_mode") == "donot_use_mm_for_euclid_dist", "K", "Krum: distances computed from exact differences",
                        "compute_mode='donot_use_mm_for_euclid_dist'",
                        f"cdist compute_mode={cd.get('compute_mode')!r}: torch switches to the ‖x‖²+‖y‖²−2x·y expansion for more than 25 rows, which cancels catastrophically "
                        "for rows with a large common component and mis-ranks neighbours", cd["loc"])
            tk = [e for e in ops if e["sop"] in ("topk", "sort") and cd["id"] in e["in_origin"] and not any(x.startswith("reduce#") for x in e["in_origin"])]
            if len(tk) != 1:
                ctx.violated("K", "Krum: neighbourhood selection", f"expected one ordering op on the distances, found {len(tk)}", cd["loc"])
                continue
            t1 = tk[0]
            asc = (t1["sop"] == "topk" and t1.get("largest") is False and t1.get("sorted") is True) or (t1["sop"] == "sort" and t1.get("descending") is False)
            ctx.require(asc and t1["axis_pos"] in (0, 1), "K", "Krum: distances ordered ascending per row", "ascending, sorted",
                        f"ordering of the distances is not ascending+sorted (largest={t1.get('largest')}, sorted={t1.get('sorted')}, descending={t1.get('descending')})", t1["loc"])
            chain = ([t1] if t1["sop"] == "topk" else []) + [e for e in ops if e["sop"] in ("slice", "narrow") and t1["id"] in e["in_origin"] and e.get("axis_pos") == t1["axis_pos"]]
            start, stop, problems = window_of(chain, m, ctx, "K", key, cls.loc())
            # the self distance is excluded either by dropping the first (smallest, = 0) entry of the ascending window, or by putting +inf on the
            # diagonal of the (square, same rows on both axes) distance matrix before selecting
            fd = [e for e in ops if e["sop"] == "fill_diagonal" and cd["id"] in e["in_origin"] and e["id"] in t1["in_origin"]
                  and e.get("value_text", "").replace(" ", "") in ("float('inf')", "math.inf", "torch.inf", "np.inf", "numpy.inf", "inf")]
            mf = [e for e in ops if e["sop"] == "masked_fill" and cd["id"] in e["in_origin"] and e["id"] in t1["in_origin"]]
            by_value = [e for e in mf if cd["id"] in e.get("mask_origin", [])]
            if by_value:
                ctx.violated("K", "Krum: the row itself is excluded by position, not by value",
                             f"`{by_value[0]['text'][:80]}` masks the distances selected by a test on their VALUE: a row at distance 0 from another row (a duplicate) is dropped from that row's "
                             "neighbourhood as if it were the row itself, so scores — and the selected rows — differ whenever rows coincide", by_value[0]["loc"])
                continue
            if mf:
                ctx.undecided("K", "Krum: neighbourhood", f"the distances pass through `{mf[0]['text'][:60]}` whose mask is not derived from them; whether it is the diagonal is not decided", mf[0]["loc"])
                continue
            want_start = Poly.const(0) if fd else ONE
            good = not problems and start == want_start and (stop - start) == m - f - Poly.const(2)
            ctx.require(good, "K", "Krum: neighbourhood = the m - n_byzantine - 2 nearest other rows",
                        f"window [{start}, {stop}): skips self, {stop - start} distances",
                        f"window [{start}, {stop}) holds {stop - start} distances starting at {start}; expected [1, m - n_byzantine - 1) i.e. m - n_byzantine - 2 non-self distances"
                        + ("; " + "; ".join(problems) if problems else ""), t1["loc"], derivation={"start": repr(start), "stop": repr(stop)})
            red = [e for e in ops if e["sop"] == "reduce" and t1["id"] in e["in_origin"] and not any(x.startswith("one_hot#") for x in e["in_origin"])]
            okr = len(red) == 1 and red[0]["fn"] == "sum" and red[0]["over_pos"] == [t1["axis_pos"]] and all(c["id"] in red[0]["in_origin"] for c in chain)
            ctx.require(okr, "K", "Krum: score = sum of the neighbourhood distances", "sum over the neighbour axis",
                        "scores are not a single sum over the neighbour axis: " + "; ".join(f"{e['fn']} over {e['over']}" for e in red), red[0]["loc"] if red else t1["loc"])
            if not red:
                continue
            t2 = [e for e in ops if e["sop"] in ("topk",) and red[0]["id"] in e["in_origin"]]
            ok2 = len(t2) == 1 and t2[0].get("k_poly") == k and t2[0].get("largest") is False
            ctx.require(ok2, "K", "Krum: selection of the n_selected lowest scores", "topk(scores, k=n_selected, largest=False)",
                        "selection is not topk(scores, k=n_selected, largest=False): " + "; ".join(f"k={e.get('k_poly')} largest={e.get('largest')}" for e in t2), t2[0]["loc"] if t2 else red[0]["loc"])
            oh = [e for e in ops if e["sop"] == "one_hot" and t2 and t2[0]["id"] in e["in_origin"]]
            ok3 = len(oh) == 1 and oh[0].get("classes_poly") == m and oh[0].get("in_idx_of") == "R"
            # alternative spelling: zeros(m); w[selected] = 1
            sc_all = [e for e in ops if e["sop"] == "index_put" and t2 and t2[0]["id"] in e["in_origin"]]
            sc_ids = sorted({e["id"] for e in sc_all})
            # (a store executed in a loop over the selected indices is re-evaluated by the fixpoint iteration: the first evaluation sees the fresh zeros)
            sc = [next(e for e in sc_all if e["id"] == i) for i in sc_ids]
            ok3b = (not oh and len(sc) == 1 and sc[0].get("base_poly") == Poly.const(0) and sc[0].get("base_axes") == ["R"] and all(e.get("value_poly") == ONE for e in sc_all)
                    and all(e.get("in_idx_of") == "R" and not e.get("aug") for e in sc_all))
            # third spelling: isin(arange(m), selected)
            isn = [e for e in ops if e["sop"] == "isin" and t2 and t2[0]["id"] in e["in_origin"]]
            ok3c = not oh and not sc and len(isn) == 1 and isn[0].get("in_idx_of") == "R" and isn[0].get("size_poly") == m and isn[0].get("range_full")
            # fourth spelling: bincount(selected, minlength=m) — topk returns distinct indices, so every count is 0 or 1
            bc = [e for e in ops if e["sop"] == "bincount" and t2 and t2[0]["id"] in e["in_origin"]]
            ok3d = not oh and not sc and not isn and len(bc) == 1 and bc[0].get("classes_poly") == m and bc[0].get("in_idx_of") == "R"
            ok3b = ok3b or ok3c or ok3d
            isn = isn or bc
            ctx.require(ok3 or ok3b, "K", "Krum: weights are indicator vectors of the selected rows", "one_hot(selected indices, m) / zeros(m) with ones stored at the selected indices",
                        "selected indices are not turned into indicator vectors over the m rows", (oh or sc or isn)[0]["loc"] if (oh or sc or isn) else cls.loc())
            # weights = sum of one-hots / n_selected
            wt = [e for e in r.events if e["kind"] == "op" and _agg.in_weighting(e, W_KRUM) and e["op"] in ("div", "mul")]
            okw = len(wt) == 1 and wt[0]["op"] == "div" and "=n_selected" in wt[0]["right"]
            ctx.require(okw, "K", "Krum: each selected row weighs 1/n_selected", "sum of one-hots divided by n_selected",
                        "weights are not the one-hot sum divided by n_selected: " + "; ".join(f"`{e['text']}`" for e in wt), wt[0]["loc"] if wt else cls.loc())
    ctx.floor("Krum returning paths", n, 1)
    guard_rule(ctx, "K", "Krum", runs, {"m >= n_byzantine + 3": m - f - Poly.const(3), "m >= n_selected": m - k}, cls)
    ctor_rule(ctx, "K", "Krum", A, cls, {"n_byzantine >= 0": f, "n_selected >= 1": k - ONE})
    _agg.common_evidence(ctx, index)
    ctx.assumptions.append("floating-point behaviour at extreme corruption scales and tie handling of topk are not decided")
    ctx.trusted_base.append("torch.cdist's default compute_mode uses the matrix-multiplication expansion for more than 25 rows")


def guard_rule(ctx, rule, name, runs, expected: dict, cls):
    found = []
    for run in runs:
        for r in run.results:
            if r.kind != "raise" or r.exc.exc_name != "ValueError":
                continue
            decs = [e for e in r.events if e["kind"] == "decision" and not e.get("forced")]
            if not decs:
                continue
            d = decs[-1]
            for c in d["compares"]:
                if c["kind"] == "size_compare":
                    e = canon(c, d["outcome"])
                    if e is not None:
                        found.append((e, d, any(x["kind"] == "first_value_use" for x in r.events)))
    for label, poly in expected.items():
        hit = [x for x in found if x[0] == poly]
        others = [x for x in found if x[0] != poly and x[0].symbols() == poly.symbols()]
        if hit:
            ctx.ok(rule, f"{name}: rejects unless {label}", f"guard `{hit[0][1]['test']}` raises ValueError iff {poly} < 0", hit[0][1]["loc"])
        elif others:
            ctx.violated(rule, f"{name}: rejects unless {label}",
                         f"guard `{others[0][1]['test']}` raises iff {others[0][0]} < 0, expected iff {poly} < 0", others[0][1]["loc"])
        else:
            ctx.violated(rule, f"{name}: rejects unless {label}", "no ValueError guard on the row count found", cls.loc())


def ctor_rule(ctx, rule, name, A, cls, expected: dict):
    from ..aggtyping import param_variants

    found = []
    for v in param_variants(cls, A.interp):
        objs, raises = A.construct(cls, v)
        for r in raises:
            if r.exc.exc_name != "ValueError":
                continue
            decs = [e for e in r.events if e["kind"] == "decision" and not e.get("forced")]
            if decs:
                for c in decs[-1]["compares"]:
                    if c["kind"] == "size_compare":
                        e = canon(c, decs[-1]["outcome"])
                        if e is not None:
                            found.append((e, decs[-1]))
    for label, poly in expected.items():
        hit = [x for x in found if x[0] == poly]
        others = [x for x in found if x[0].symbols() == poly.symbols()]
        if hit:
            ctx.ok(rule, f"{name}.__init__: requires {label}", f"`{hit[0][1]['test']}` raises ValueError iff {poly} < 0", hit[0][1]["loc"])
        elif others:
            ctx.violated(rule, f"{name}.__init__: requires {label}", f"constructor guard `{others[0][1]['test']}` raises iff {others[0][0]} < 0, expected iff {poly} < 0", others[0][1]["loc"])
        else:
            ctx.violated(rule, f"{name}.__init__: requires {label}", "no constructor guard found", cls.loc())
