"""C07 — parallel_chunk_size is a pure performance knob: affine partition of the rows, sweep count, vmap guard (DESIGN.md 5/C07).
That vmap and sequential VJPs agree numerically is torch's and is NOT decided."""

from __future__ import annotations

import ast
import math
from fractions import Fraction

from .. import AnalysisError
from ..cfg import cfg_of, own_exprs
from ..poly import Poly
from ..report import norm_text
from . import _inst, _layout, _pipe


def eval_poly(p: Poly, env: dict, defs: dict):
    total = Fraction(0)
    for mono, c in p.terms.items():
        v = Fraction(c)
        for s, e in mono:
            v *= Fraction(eval_sym(s, env, defs)) ** e
        total += v
    return total


def eval_sym(s, env, defs):
    if s in env:
        return env[s]
    if s in defs:
        d = defs[s]
        if d[0] == "ceil":
            return math.ceil(eval_poly(d[1], env, defs))
        if d[0] == "floor":
            return math.floor(eval_poly(d[1], env, defs))
        if d[0] == "floordiv":
            return eval_poly(d[1], env, defs) // eval_poly(d[2], env, defs)
        if d[0] == "mod":
            return eval_poly(d[1], env, defs) % eval_poly(d[2], env, defs)
        if d[0] == "round":
            return round(eval_poly(d[1], env, defs))
        if d[0] == "min":
            return min(eval_poly(d[1], env, defs), eval_poly(d[2], env, defs))
        if d[0] == "max":
            return max(eval_poly(d[1], env, defs), eval_poly(d[2], env, defs))
    raise KeyError(s)


def check(index, ctx):
    ctx.rule("R1", "affine partition: with m rows and k = chunk size (or m), the row slices of the cotangents are, in polynomial normal form, [i·k, (i+1)·k) for i < ceil(m/k) − 1 followed by "
             "[(ceil(m/k) − 1)·k, end); otherwise the extracted index expressions are evaluated exhaustively for m ≤ 12, k ∈ {None, 1..m+2}: blocks must partition [0, m) in order, be non-empty, "
             "hold at most k rows and number ceil(m/k)")
    ctx.rule("R2", "one sweep per block: the chunk routine is called exactly once per loop iteration (and per trailing block); on every path it applies the VJP callable exactly once "
             "(directly or through one vmap); the VJP callable contains exactly one torch.autograd.grad call")
    ctx.rule("R3", "vmap guard: every vmap call is reachable only on the negative edge of a test 'rows of this block == 1', where the tested value is shape[0] of a cotangent block; "
             "on the positive edge the VJP callable is applied directly")
    ctx.rule("R4", "same update for every chunk size: the abstract description of what reaches the aggregator and of every .grad write (target, dtype of the stored value, "
             "accumulate/assign, freshness, column layout) on the paths of the chunked call is one that the un-chunked call of the same variant also produces; a construct of the "
             "chunked runs that the engine cannot interpret leaves the rule undecided")
    P, rs = _pipe.runs(index)
    update_rule(ctx, rs)
    n_part = partition_rule(ctx, P, rs, "R1")
    ctx.floor("row-block partitions analysed", n_part, 3)
    sweeps_and_guard(index, _InstanceBacked(index, ctx))
    # vmap's own chunk_size splits the block again: the VJP callable (one autograd.grad, one retain_graph flag) then runs several times per block
    P0, rs0 = _pipe.runs(index)
    seen_v = set()
    for run in rs0:
        for res in run.results:
            for e in _pipe.evs(res, "vmap"):
                if not e.get("chunk_given") or e["loc"] in seen_v:
                    continue
                seen_v.add(e["loc"])
                k_ = f"{_layout.short_fn(e)}: torch.vmap(chunk_size=...) covers the whole block"
                if e.get("chunk_is_dim"):
                    ctx.ok("R2", k_, "chunk_size is the number of rows of the block itself", e["loc"])
                elif e.get("chunk_caps") or e.get("chunk_const") is not None:
                    cap = (e.get("chunk_caps") or [e.get("chunk_const")])[0]
                    ctx.violated("R2", k_, f"`{e['text'][:80]}` caps vmap's own chunk size at {cap}: a block of more than {cap} rows is differentiated in several passes of the VJP callable — more sweeps "
                                 "than ceil(rows / k), and with retain_graph=False the second pass of the last block differentiates a freed graph", e["loc"])
                else:
                    # not readable off the expression (a parameter of a factory, ...): what the instance runs observe, for both entry points
                    vs_ = [_inst.verdict(index, en_, "vmapchunk") for en_ in ("backward", "mtl_backward")]
                    if any(v_[0] == "violated" for v_ in vs_):
                        v_ = next(v_ for v_ in vs_ if v_[0] == "violated")
                        ctx.violated("R2", k_, v_[1], e["loc"], derivation=v_[2])
                    elif all(v_[0] == "ok" for v_ in vs_):
                        ctx.ok("R2", k_, vs_[0][1] + " [the expression itself was not read: `" + str(e['kwargs'].get('chunk_size'))[:40] + "`]", e["loc"], derivation=vs_[0][2])
                    else:
                        ctx.undecided("R2", k_, f"vmap's chunk_size (`{e['kwargs'].get('chunk_size')}`) is not the row count of the block; whether it can be smaller was not decided "
                                      f"({next(v_[1] for v_ in vs_ if v_[0] != 'ok')[:120]})", e["loc"])
    # ... and, whatever the shape of the code, what the instance runs observe: a single-row sweep never runs batched (torch.vmap or
    # autograd's is_grads_batched, which is vmap inside), and the sweeps are the ceil(m/k) blocks
    for entry in ("backward", "mtl_backward"):
        for rule, aspect in (("R3", "vmap"), ("R2", "partition")):
            st, text, der = _inst.verdict(index, entry, aspect)
            k_ = f"{entry}: instance runs, {aspect}"
            if st == "ok":
                ctx.ok(rule, k_, text, "", derivation=der)
            elif st == "violated":
                ctx.violated(rule, k_, text, "", derivation=der)
            else:
                ctx.notes.append(f"{k_}: {text}")
    _pipe.common_evidence(ctx, index)
    ctx.assumptions.append("value-independence from k reduces to R1 plus the vstack of the blocks in block order (C01 R2); vmap ≡ sequential numerically is not decided")


class _InstanceBacked:
    """The rules R2 / R3 read the SHAPE of Jac._differentiate and of the chunk routine (call sites per loop iteration, guards of the vmap call). A
    failed shape reading is not a witness: before reporting, the instance runs (sizes concrete, tensors abstract) are asked — they list the
    sweeps of every (m, k) pair with their rows and whether torch.autograd.grad ran under torch.vmap."""

    ASPECT = {"R2": "partition", "R3": "vmap"}

    def __init__(self, index, ctx):
        self._index, self._ctx = index, ctx

    def _ask(self, rule):
        out = []
        for entry in ("backward", "mtl_backward"):
            out.append(_inst.verdict(self._index, entry, self.ASPECT[rule]))
        for st in ("violated", "undecided"):
            for o in out:
                if o[0] == st:
                    return o
        return out[0]

    def violated(self, rule, key, text, loc, **kw):
        if rule not in self.ASPECT:
            return self._ctx.violated(rule, key, text, loc, **kw)
        st, t2, der = self._ask(rule)
        if st == "ok":
            self._ctx.ok(rule, key, t2 + f" [shape reading failed: {text}]", loc, derivation=der)
        elif st == "violated":
            self._ctx.violated(rule, key, t2 + f" [shape reading: {text}]", loc, derivation=der)
        else:
            self._ctx.undecided(rule, key, text + "; " + t2, loc)

    def require(self, cond, rule, key, ok_text, bad_text, loc, **kw):
        if cond or rule not in self.ASPECT:
            return self._ctx.require(cond, rule, key, ok_text, bad_text, loc, **kw)
        self.violated(rule, key, bad_text, loc)

    def undecided(self, rule, key, why, loc, **kw):
        if rule not in self.ASPECT:
            return self._ctx.undecided(rule, key, why, loc, **kw)
        st, t2, der = self._ask(rule)
        if st == "ok":
            self._ctx.ok(rule, key, t2 + f" [shape reading failed: {why}]", loc, derivation=der)
        elif st == "violated":
            self._ctx.violated(rule, key, t2, loc, derivation=der)
        else:
            self._ctx.undecided(rule, key, why + "; " + t2, loc)

    def __getattr__(self, name):
        return getattr(self._ctx, name)


def update_signature(res):
    sig = []
    for e in res.events:
        if e["kind"] == "aggregator_call":
            m = e.get("matrix") or ""
            dt = m.split("dtype=")[1].split(" ")[0].rstrip(")>,") if "dtype=" in m else ""
            sig.append(("aggregate", e.get("column_layout"), dt))
        elif e["kind"] == "grad_write":
            sig.append(("write", tuple(e.get("target") or ()), e.get("aug"), e.get("value_dtype"), e.get("target_dtype"), e.get("fresh"), e.get("value_is_none")))
    # consecutive duplicates come from loop bodies analysed to a fixpoint
    out = []
    for x in sig:
        if not out or out[-1] != x:
            out.append(x)
    return tuple(out)


def update_rule(ctx, rs):
    by = {}
    for run in rs:
        v = dict(run.variant)
        chunk = v.pop("chunk")
        by.setdefault((run.entry, tuple(sorted(v.items()))), {})[chunk] = run
    n = 0
    for key, pair in by.items():
        if True not in pair or False not in pair:
            continue
        chunked, plain = pair[True], pair[False]
        ref = {update_signature(r) for r in _pipe.main_paths(plain)}
        for r in _pipe.main_paths(chunked):
            blk = _pipe.blocking(r)
            name = f"{chunked.label} [{'; '.join(d for d in r.trace.decisions if 'chunk' in d) or 'any'}]"
            if blk:
                ctx.undecided("R4", name, f"construct outside the analysed subset: {blk[0]['loc']} `{blk[0]['text']}`", blk[0]["loc"])
                continue
            sg = update_signature(r)
            n += 1
            if sg in ref:
                ctx.ok("R4", name, f"update signature shared with the un-chunked call ({len(sg)} events)", "", True)
            else:
                diff = [x for x in sg if all(x not in t for t in ref)]
                w = next((e for e in r.events if e["kind"] in ("grad_write", "aggregator_call")), None)
                ctx.violated("R4", name, f"this chunked path aggregates/stores {diff[:2] or sg[:2]}, which no path of {plain.label} does: the update depends on the chunk size",
                             w["loc"] if w else "")
    ctx.floor("chunked paths compared with the un-chunked call", n, 2)


def partition_rule(ctx, P, rs, RULE):
    """Row blocks of the cotangents partition [0, m) in order (shared by C01 / C02 / C07 / C15)."""
    defs = P.ops.sym_defs
    n_part = 0
    from . import _inst

    extra = [0]

    outer_ctx = ctx

    class _Fallback:
        """ctx.undecided of this rule first asks the instance runs (sizes concrete, tensors abstract)."""

        def __init__(self, run):
            self.run = run

        def undecided(self, rule, key, why, loc, **kw):
            st, text, der = _inst.verdict(P.index, self.run.entry, "partition", chunk=bool(self.run.variant.get("chunk")))
            k2 = f"{self.run.label}: row blocks"
            if st == "ok":
                extra[0] += 1
                outer_ctx.ok(rule, k2, text + f" [symbolic reading failed: {why}]", loc, derivation=der)
            elif st == "violated":
                extra[0] += 1
                outer_ctx.violated(rule, k2, text, loc, derivation=der)
            else:
                outer_ctx.undecided(rule, key, why + "; " + text, loc)

        def __getattr__(self, name):
            return getattr(outer_ctx, name)

    for run in rs:
        ctx = _Fallback(run)
        rows_atom = "tensors" if run.entry == "backward" else "features"
        cand = [r for r in _pipe.main_paths(run) if not _pipe.blocking(r) and any(e["axis"] == 0 and _pipe.in_stage(e) for e in _pipe.evs(r, "unpack"))]
        if not cand and _pipe.main_paths(run):
            # no slicing at all: fine when every path differentiates the whole stack of cotangents in a single sweep (one block)
            single = True
            for r in _pipe.main_paths(run):
                if _pipe.blocking(r):
                    single = False
                    break
                sw = {(e["loc"], tuple(e.get("loops") or ())) for e in _pipe.evs(r, "autograd")
                      if isinstance(e.get("outputs"), dict) and rows_atom in (e["outputs"].get("atoms") or []) and e.get("loop_depth", 0) == 0}
                looped = [e for e in _pipe.evs(r, "autograd") if isinstance(e.get("outputs"), dict) and rows_atom in (e["outputs"].get("atoms") or []) and e.get("loop_depth", 0) > 0]
                if len(sw) != 1 or looped:
                    single = False
            if single and not run.variant["chunk"]:
                n_part += 1
                ctx.ok(RULE, f"{run.label}: row blocks", "no chunk size: the cotangents are differentiated whole, in one sweep", "", nontrivial=False)
            else:
                ctx.undecided(RULE, run.label, "no path slices the rows of the cotangents", "")
        for res in cand[:1]:
            sl = [e for e in _pipe.evs(res, "unpack") if e["axis"] == 0 and e["layout_how"] in (None, "stack", "vstack") and _pipe.in_stage(e)]
            slice_syms = {sy for e in sl for pl in (e.get("lo_poly"), e.get("hi_poly")) if pl is not None for sy in pl.symbols()}
            rng = [e for e in _pipe.evs(res, "range") if _pipe.in_stage(e) or e["var"] in slice_syms]  # incl. ranges of helper generators
            if not sl:
                ctx.undecided(RULE, run.label, "no row slicing of the cotangents found", "")
                continue
            fi_loc = sl[0]["loc"]
            key = f"{run.label}: row blocks"
            # a block size capped by a constant (`min(k, 256)`): beyond that many rows the blocks are smaller than k — more sweeps than ceil(m / k)
            from ..poly import Poly as _Poly

            capped = None
            todo_ = [str(sy) for e in sl for pl in (e.get("lo_poly"), e.get("hi_poly")) if pl is not None for sy in pl.symbols()] + [str(sy) for e in rng for pl in (e.get("stop_poly"),) if pl is not None for sy in pl.symbols()]
            seen_ = set()
            while todo_:
                sy = todo_.pop()
                if sy in seen_:
                    continue
                seen_.add(sy)
                d_ = P.ops.sym_defs.get(sy)
                if d_:
                    consts = [pl.const_value() for pl in d_[1:] if isinstance(pl, _Poly) and pl.const_value() is not None]
                    others = [pl for pl in d_[1:] if isinstance(pl, _Poly) and pl.const_value() is None]
                    if d_[0] == "min" and consts and others and any("k" in {str(x) for x in pl.symbols()} or "m" in {str(x) for x in pl.symbols()} for pl in others):
                        capped = int(consts[0])
                    todo_ += [str(x) for pl in d_[1:] if isinstance(pl, _Poly) for x in pl.symbols()]
            if capped is not None and capped > 1:
                ctx.violated(RULE, key, f"the block size is min(chunk size, {capped}): with more than {capped} rows and parallel_chunk_size None or > {capped} the rows are differentiated in blocks of "
                             f"{capped} — more sweeps than ceil(rows / k)", fi_loc)
                continue
            ivars = {e["var"]: e for e in rng}
            loop_sl, last_sl = [], []
            seen = set()
            for e in sl:
                sig = (repr(e["lo_poly"]), repr(e["hi_poly"]), e["hi"] == "None", e["lo"] == "None")
                if sig in seen:
                    continue
                seen.add(sig)
                syms = (e["lo_poly"].symbols() if e["lo_poly"] is not None else set()) | (e["hi_poly"].symbols() if e["hi_poly"] is not None else set())
                (loop_sl if syms & set(ivars) else last_sl).append(e)
            unknown = [e for e in sl if (e["lo"] != "None" and e["lo_poly"] is None) or (e["hi"] != "None" and e["hi_poly"] is None)]
            if unknown:
                ctx.undecided(RULE, key, f"slice bounds of `{unknown[0]['text']}` are not polynomial/derived-integer expressions", unknown[0]["loc"])
                continue
            if len(loop_sl) > 1 or len(last_sl) > 1:
                ctx.undecided(RULE, key, f"{len(loop_sl)} loop slices and {len(last_sl)} trailing slices: shape not recognised", fi_loc)
                continue
            n_part += 1
            m_sym = [s for e in sl for p in (e["lo_poly"], e["hi_poly"]) if p is not None for s in p.symbols() if s.startswith("dim0[")]
            # find the m symbol from the ceil definition as well
            used = {s for e in sl for p in (e["lo_poly"], e["hi_poly"]) if p is not None for s in p.symbols()} | \
                   {s for e in rng if e["stop_poly"] is not None for s in e["stop_poly"].symbols()}
            work = list(used)
            while work:
                sname = work.pop()
                if sname in defs:
                    for p in defs[sname][1:]:
                        for s2 in p.symbols():
                            if s2.startswith("dim0["):
                                m_sym.append(s2)
                            elif s2 not in used:
                                used.add(s2)
                                work.append(s2)
            cands_m = sorted({s for s in m_sym})
            if not cands_m:
                cands_m = ["dim0[rows]"]  # no bound mentions the row count: the blocks do not depend on it
            if len(cands_m) != 1:
                ctx.undecided(RULE, key, f"row-count symbol not identified uniquely: {cands_m}", fi_loc)
                continue
            msym = cands_m[0]
            K = Poly.sym("k") if run.variant["chunk"] else Poly.sym(msym)
            # ---- symbolic proof
            proved = False
            why = ""
            if loop_sl and last_sl:
                e = loop_sl[0]
                iv = next(v for v in ivars if v in (e["lo_poly"].symbols() | (e["hi_poly"].symbols() if e["hi_poly"] is not None else set())))
                I = Poly.sym(iv)
                stop = ivars[iv]["stop_poly"]
                cands = [s for s, d in defs.items() if d[0] == "ceil" and d[1] == Poly.sym(msym) * K.inverse()]
                if run.variant["chunk"] and cands and stop is not None:
                    N = Poly.sym(cands[0])
                    proved = (e["lo_poly"] == I * K and e["hi_poly"] == (I + Poly.const(1)) * K and stop == N - Poly.const(1) and ivars[iv]["nargs"] == 1
                              and last_sl[0]["lo_poly"] == (N - Poly.const(1)) * K and last_sl[0]["hi"] == "None")
            if proved:
                ctx.ok(RULE, key, f"slices [i·k, (i+1)·k) for i < ceil(m/k)−1, then [(ceil(m/k)−1)·k, end): blocks partition [0, m) into ceil(m/k) blocks of at most k rows (normal forms equal)", fi_loc,
                       derivation={"loop": [repr(loop_sl[0]["lo_poly"]), repr(loop_sl[0]["hi_poly"])], "last": repr(last_sl[0]["lo_poly"])})
                continue
            # ---- exhaustive evaluation of the extracted expressions
            bad = None
            n_eval = 0
            # sizes the row count does not determine (the number of tensors of a collection: `len(jac_outputs)`) are free: every small value is tried
            import itertools as _it

            polys_ = [x for e_ in list(loop_sl) + list(last_sl) for x in (e_.get("lo_poly"), e_.get("hi_poly")) if x is not None] + \
                     [x for v_ in ivars.values() for x in (v_.get("stop_poly"), v_.get("start_poly"), v_.get("step_poly")) if x is not None]
            seen_syms, todo_p = set(), list(polys_)
            while todo_p:
                for sy in todo_p.pop().symbols():
                    if sy not in seen_syms:
                        seen_syms.add(sy)
                        d_ = defs.get(sy)
                        todo_p += [x for x in (d_[1:] if isinstance(d_, tuple) else ()) if hasattr(x, "symbols")]
            free_syms = sorted(sy for sy in seen_syms if str(sy).startswith(("len*[", "len[")) and sy != msym and sy not in defs)[:2]
            for m, extra_vals in _it.product(range(1, 13), _it.product(range(1, 5), repeat=len(free_syms))):
                ks = range(1, m + 3) if run.variant["chunk"] else [None]
                for k in ks:
                    env = {msym: m, "k": k if k is not None else m}
                    env.update(zip(free_syms, extra_vals))
                    keff = k if k is not None else m
                    try:
                        blocks = []
                        if loop_sl:
                            e = loop_sl[0]
                            iv = next(v for v in ivars if v in ((e["lo_poly"].symbols() if e["lo_poly"] is not None else set()) | (e["hi_poly"].symbols() if e["hi_poly"] is not None else set())))
                            stop = int(eval_poly(ivars[iv]["stop_poly"], env, defs))
                            start = int(eval_poly(ivars[iv]["start_poly"], env, defs)) if ivars[iv]["start_poly"] is not None and ivars[iv]["nargs"] >= 2 else 0
                            step = int(eval_poly(ivars[iv]["step_poly"], env, defs)) if ivars[iv].get("step_poly") is not None else 1
                            for i in range(start, stop, step):
                                env2 = dict(env)
                                env2[iv] = i
                                lo = int(eval_poly(e["lo_poly"], env2, defs)) if e["lo_poly"] is not None else 0
                                hi = int(eval_poly(e["hi_poly"], env2, defs)) if e["hi_poly"] is not None else m
                                blocks.append(list(range(m))[slice(lo if e["lo"] != "None" else None, hi if e["hi"] != "None" else None)])
                        for e in last_sl:
                            lo = int(eval_poly(e["lo_poly"], env, defs)) if e["lo_poly"] is not None else 0
                            hi = int(eval_poly(e["hi_poly"], env, defs)) if e["hi_poly"] is not None else m
                            blocks.append(list(range(m))[slice(lo if e["lo"] != "None" else None, hi if e["hi"] != "None" else None)])
                    except (KeyError, ZeroDivisionError, ValueError) as ex:
                        bad = (m, k, f"cannot evaluate the index expressions: {ex!r}")
                        break
                    n_eval += 1
                    flat = [r for b in blocks for r in b]
                    want_n = math.ceil(m / keff)
                    if flat != list(range(m)):
                        bad = (m, k, f"blocks {[(b[0], b[-1] + 1) if b else () for b in blocks]} do not partition rows 0..{m - 1} in order")
                    elif any(len(b) == 0 for b in blocks):
                        bad = (m, k, f"an empty block is differentiated: sizes {[len(b) for b in blocks]}")
                    elif max(len(b) for b in blocks) > keff:
                        bad = (m, k, f"sweep sizes {[len(b) for b in blocks]} contain a sweep of more than k={keff} rows")
                    elif len(blocks) != want_n:
                        bad = (m, k, f"{len(blocks)} sweeps {[len(b) for b in blocks]} instead of ceil(m/k)={want_n}")
                    if bad:
                        break
                if bad:
                    break
            if bad and bad[2].startswith("cannot evaluate"):
                ctx.undecided(RULE, key, f"for m={bad[0]} rows and parallel_chunk_size={bad[1]}: {bad[2]}", fi_loc)
            elif bad:
                ctx.violated(RULE, key, f"for m={bad[0]} rows and parallel_chunk_size={bad[1]}" + (f" (with {', '.join(f'{a_}={b_}' for a_, b_ in zip(free_syms, extra_vals))})" if free_syms else "") + f": {bad[2]}", fi_loc,
                             derivation={"m": bad[0], "k": bad[1], "loop": [repr(x["lo_poly"]) + ":" + repr(x["hi_poly"]) for x in loop_sl], "last": [repr(x["lo_poly"]) for x in last_sl]})
            else:
                ctx.ok(RULE, key, f"index expressions evaluated exhaustively on {n_eval} (m, k) pairs (m ≤ 12): ordered partition, non-empty, ≤ k rows, ceil(m/k) blocks"
                       + ("" if run.variant["chunk"] else " [chunk size None: one block]"), fi_loc, derivation={"bounded": True, "pairs": n_eval})
    return n_part + extra[0]


def calls_in(node, pred):
    return [n for e in ([node] if not isinstance(node, list) else node) for n in ast.walk(e) if isinstance(n, ast.Call) and pred(n)]


def sweeps_and_guard(index, ctx):
    jac = index.find_class("torchjd.autojac._transform.jac.Jac")
    if jac is None:
        raise AnalysisError("anchor vanished: Jac")
    r = jac.lookup("_differentiate")
    if r is None:
        raise AnalysisError("anchor vanished: Jac._differentiate")
    F = r[1]
    mod = F.module
    # the VJP callable: nested function containing the autograd.grad call
    # (a closure of _differentiate, or a module-level function of the same module bound with functools.partial)
    def own_calls(f, pred):
        """Calls in the body of f itself (not in functions nested in it)."""
        inner = [g for g in index.functions.values() if g.parent is f]
        skip = {id(x) for g in inner for x in ast.walk(g.node)}
        return [c for c in calls_in(f.node, pred) if id(c) not in skip]

    own = lambda f: own_calls(f, lambda c: norm_text(c.func).endswith("autograd.grad"))
    # a closure of _differentiate, a function of the same module, or a method of Jac / of one of its base classes
    bases = [c for c in jac.mro]
    nested = [f for f in index.functions.values() if f.parent is F or (f.module is mod and (f.cls is None or f.cls is jac)) or (f.cls is not None and f.cls in bases and f.cls is not jac)]
    vjp = [f for f in nested if own(f)]
    if len(vjp) != 1:
        ctx.undecided("R2", "Jac._differentiate: VJP callable", f"expected one function (closure, function of {mod.name}, or method of Jac / its bases) calling torch.autograd.grad, found {len(vjp)}", F.loc())
        return
    vjp = vjp[0]
    g_cfg = cfg_of(vjp.node)
    gnodes = g_cfg.nodes_containing(lambda x: isinstance(x, ast.Call) and norm_text(x.func).endswith("autograd.grad"))
    counts = {sum(1 for n in p if n in gnodes) for p in g_cfg.acyclic_paths()}
    ctx.require(counts == {1}, "R2", f"{vjp.short}: one autograd.grad per VJP", "exactly one call on every path", f"autograd.grad executes {sorted(counts)} times per VJP call", vjp.loc())
    # the chunk routine: module-level function that calls torch.vmap
    is_vmap = lambda c: norm_text(c.func).split(".")[-1] == "vmap"
    chunk_fns = [f for f in index.functions.values() if f.module is mod and own_calls(f, is_vmap)]
    vmap_elsewhere = [f for f in index.all_functions("torchjd.autojac") if f not in chunk_fns and
                      own_calls(f, lambda c: norm_text(c.func).split(".")[-1] in ("vmap", "jacrev", "jacfwd", "vjp") or any(k.arg == "is_grads_batched" for k in c.keywords))]
    if len(chunk_fns) > 1 and F in chunk_fns and len([f for f in chunk_fns if f is not F]) == 1:
        # a dedicated chunk routine exists: a vmap call in the sweep loop itself is outside the guarded routine
        vmap_elsewhere.append(F)
        chunk_fns = [f for f in chunk_fns if f is not F]
    if len(chunk_fns) != 1:
        ctx.undecided("R3", "vmap call sites", f"expected one function calling torch.vmap, found {[f.short for f in chunk_fns]}", F.loc())
        return
    for f in vmap_elsewhere:
        if f.qualname != chunk_fns[0].qualname:
            ctx.violated("R3", f"{f.short}: batched differentiation outside the guarded routine", "vmap / is_grads_batched / functional jacobian API used outside the guarded chunk routine", f.loc())
    G = chunk_fns[0]
    ctx.analysed(F.qualname, G.qualname, vjp.qualname)
    # R2: calls of G in F
    f_cfg = cfg_of(F.node)
    is_g = lambda x: isinstance(x, ast.Call) and ((isinstance(x.func, ast.Name) and x.func.id == G.name) or
                                                  (isinstance(x.func, ast.Attribute) and x.func.attr == G.name and isinstance(x.func.value, ast.Name) and x.func.value.id in ("self", "cls", jac.name)))
    if G is F:
        is_g = lambda x: False
    gcalls = f_cfg.nodes_containing(is_g)
    in_loop = [n for n in gcalls if n.loops]
    after = [n for n in gcalls if not n.loops]
    ok = True
    for lp in {n.loops[-1] for n in in_loop}:
        body_nodes = [n for n in in_loop if n.loops[-1] is lp]
        # every path through one iteration passes exactly one call
        head = f_cfg.node_of(lp)
        cnts = set()
        for p in f_cfg.acyclic_paths():
            if any(lp in n.loops for n in p):
                cnts.add(sum(1 for n in p if n in body_nodes))
        if cnts - {1}:
            ok = False
    if G is not F:
        ctx.require(ok and len(in_loop) + len(after) >= 1, "R2", f"{F.short}: one call of {G.name} per row block", f"{len(in_loop)} call site(s) in the block loop, {len(after)} after it, one per iteration path",
                    f"the chunk routine is not called exactly once per loop iteration", F.loc())
    # R2: G applies the VJP exactly once per path; R3: guard
    gp = [a.arg for a in G.node.args.args if a.arg not in ("self", "cls")]
    cfg = cfg_of(G.node)
    # names through which the VJP is applied inside G: callable parameters, the VJP function itself (closure / module function / method),
    # one-level wrappers of it, and locals bound to `partial(<one of these>, ...)`
    callable_params = [a.arg for a in G.node.args.args if a.annotation is not None and "Callable" in ast.unparse(a.annotation)]
    vjp_names = set(callable_params) | {vjp.name}
    for f2 in index.functions.values():
        if (f2.parent is G or f2.parent is F or f2.module is mod or (f2.cls is not None and f2.cls in bases)) and f2 is not G and f2 is not F:
            if any(isinstance(c.func, ast.Name) and c.func.id in vjp_names or isinstance(c.func, ast.Attribute) and c.func.attr in vjp_names and isinstance(c.func.value, ast.Name) and c.func.value.id == "self"
                   for c in calls_in(f2.node, lambda c: True)):
                vjp_names.add(f2.name)
    if not callable_params and not (vjp_names - {vjp.name}) and not any(isinstance(n_, ast.Name) and n_.id == vjp.name or isinstance(n_, ast.Attribute) and n_.attr == vjp.name for n_ in ast.walk(G.node)):
        callable_params = gp[1:2]
        vjp_names |= set(callable_params)
    for n_ in ast.walk(G.node):
        if isinstance(n_, ast.Assign) and isinstance(n_.targets[0], ast.Name) and isinstance(n_.value, ast.Call) and norm_text(n_.value.func).endswith("partial") and n_.value.args:
            a0 = n_.value.args[0]
            if (isinstance(a0, ast.Name) and a0.id in vjp_names) or (isinstance(a0, ast.Attribute) and a0.attr in vjp_names):
                vjp_names.add(n_.targets[0].id)

    def applies_vjp(x):
        if not isinstance(x, ast.Call):
            return False
        f_ = x.func
        return (isinstance(f_, ast.Name) and f_.id in vjp_names) or (isinstance(f_, ast.Attribute) and f_.attr in vjp_names and isinstance(f_.value, ast.Name) and f_.value.id in ("self", "cls"))

    nested_in_g = {id(x) for g2 in index.functions.values() if g2.parent is G for x in ast.walk(g2.node)}
    direct = cfg.nodes_containing(lambda x: applies_vjp(x) and id(x) not in nested_in_g)
    direct = [n for n in direct if not any(isinstance(x, ast.Call) and norm_text(x.func).endswith("partial") for e in own_exprs(n) for x in ast.walk(e))]
    # `torch.vmap(f, ...)(blocks)`, or a local bound to `torch.vmap(f, ...)` and applied later
    vmapped_names = {n_.targets[0].id for n_ in ast.walk(G.node) if isinstance(n_, ast.Assign) and len(n_.targets) == 1 and isinstance(n_.targets[0], ast.Name)
                     and isinstance(n_.value, ast.Call) and norm_text(n_.value.func).split(".")[-1] == "vmap"}
    via_vmap = cfg.nodes_containing(lambda x: isinstance(x, ast.Call) and ((isinstance(x.func, ast.Call) and norm_text(x.func.func).split(".")[-1] == "vmap")
                                                                         or (isinstance(x.func, ast.Name) and x.func.id in vmapped_names)))
    # a factory: `return torch.vmap(f, ...)` hands the batched callable to the caller, which applies it to the block
    via_vmap = list(via_vmap) + [n for n in cfg.stmt_nodes() if isinstance(n.ast, ast.Return) and isinstance(n.ast.value, ast.Call) and norm_text(n.ast.value.func).split(".")[-1] == "vmap" and n not in via_vmap]
    direct = [n for n in direct if n not in via_vmap]
    cnt = {sum(1 for n in p if n in direct or n in via_vmap) for p in cfg.acyclic_paths()}
    ctx.require(cnt == {1}, "R2", f"{G.short}: the VJP callable is applied exactly once per block", "one application on every path",
                f"the VJP callable is applied {sorted(cnt)} times depending on the path", G.loc())
    blocks_param = gp[0] if gp else None
    from ..guards import cfg_guards, implies, oriented

    def classify(t):
        """S = 'this block has exactly one row' (blocks are non-empty: R1)."""
        o = oriented(t, lambda e: rows_of_block(G.node, e, blocks_param))
        if o is None:
            return None
        _, op, other = o
        if not (isinstance(other, ast.Constant) and isinstance(other.value, int) and not isinstance(other.value, bool)):
            return None
        c = other.value
        table = {(ast.Eq, 1): True, (ast.NotEq, 1): False, (ast.Gt, 1): False, (ast.GtE, 2): False, (ast.Lt, 2): True, (ast.LtE, 1): True}
        if (op, c) in table:
            return ("S", table[(op, c)])
        return None

    for v in via_vmap:
        gs = cfg_guards(cfg, v)
        good = implies(gs, classify, "S", False)
        desc = [f"{norm_text(t)}:{lbl}" for t, lbl in gs]
        ctx.require(good, "R3", f"{G.short}: vmap only for blocks of more than one row", "vmap call on the negative edge of `rows == 1`",
                    f"the vmap call is guarded by {desc or 'nothing'} — not by a test that THIS block has exactly one row (shape[0] of a cotangent block): a single row, or chunk size 1, "
                    "may still be differentiated through vmap", G.loc(v.ast))
    for d in direct:
        good = implies(cfg_guards(cfg, d), classify, "S", True)
        ctx.require(good or not via_vmap, "R3", f"{G.short}: single-row blocks are differentiated directly", "direct call on the positive edge of `rows == 1`",
                    "the direct (vmap-free) application is not the branch taken when the block has one row", G.loc(d.ast))
    # `block[0]` keeps the first row only: equivalent to squeeze(0) exactly when the block has one row
    elems = {blocks_param}
    for n_ in ast.walk(G.node):
        if isinstance(n_, ast.comprehension) and isinstance(n_.iter, ast.Name) and n_.iter.id == blocks_param and isinstance(n_.target, ast.Name):
            elems.add(n_.target.id)
        if isinstance(n_, ast.For) and isinstance(n_.iter, ast.Name) and n_.iter.id == blocks_param and isinstance(n_.target, ast.Name):
            elems.add(n_.target.id)
    for nd in cfg.stmt_nodes():
        for e in own_exprs(nd):
            for x in ast.walk(e):
                if isinstance(x, ast.Subscript) and isinstance(x.slice, ast.Constant) and isinstance(x.slice.value, int) and not isinstance(x.slice.value, bool):
                    base = x.value
                    is_elem = (isinstance(base, ast.Name) and base.id in elems - {blocks_param}) or \
                              (isinstance(base, ast.Subscript) and isinstance(base.value, ast.Name) and base.value.id == blocks_param)
                    in_shape = any(isinstance(p_, ast.Attribute) and p_.attr in ("shape",) and p_.value is x for p_ in ast.walk(e))
                    if is_elem and not in_shape:
                        ok = implies(cfg_guards(cfg, nd), classify, "S", True)
                        ctx.require(ok, "R3", f"{G.short}: `{norm_text(x)}` selects a single row of a block", "only where the block has exactly one row",
                                    f"`{norm_text(x)}` drops every row but the first of a cotangent block and is not confined to the branch where the block has one row", G.loc(x))
    ctx.floor("vmap call sites", len(via_vmap), 1)


def rows_of_block(fn_node, expr, blocks_param) -> bool:
    """expr (or the local it names) is `<blocks_param>[...].shape[0]` / `len(<blocks_param>[...])`."""
    seen = 0
    while isinstance(expr, ast.Name) and seen < 4:
        seen += 1
        defs = [s for s in ast.walk(fn_node) if isinstance(s, ast.Assign) and isinstance(s.targets[0], ast.Name) and s.targets[0].id == expr.id]
        if len(defs) != 1:
            return False
        expr = defs[0].value
    t = norm_text(expr)
    if blocks_param is None:
        return False
    if t.startswith("len(" + blocks_param + "[") and t.endswith(")"):
        return True
    return t.startswith(blocks_param + "[") and (t.endswith(".shape[0]") or t.endswith(".size(0)"))
