"""C10 — the order of the objectives does not matter (DESIGN.md 5/C10)."""

from __future__ import annotations

from . import _agg

INVARIANT = ["UPGrad", "DualProj", "MGDA", "Mean", "Sum", "Aligned-MTL", "IMTL-G", "ConFIG", "CAGrad", "Trimmed Mean", "Krum", "GradDrop", "Constant"]


def check(index, ctx):
    ctx.rule("R1", "for every listed aggregator, constructor variant and path, the returned value has no row axis and is typed "
             "p-equivariant; configured per-objective vectors enter as (R,) values permuted with the rows")
    A, by_class = _agg.analysis(index)
    names = _agg.classes_named(index, INVARIANT, ctx, "R1")
    n = 0
    for name in names:
        for run in by_class[name]:
            if run.obj is None:
                ctx.undecided("R0", f"{name}({run.label})", "constructor raises on every path")
                continue
            for res in _agg.returning(run):
                _agg.check_flag(ctx, "R1", name, run, res, ["p"])
                n += 1
    ctx.floor("R1 returning paths", n, 13)
    _agg.common_evidence(ctx, index)
