"""C10 — the order of the objectives does not matter (DESIGN.md 5/C10)."""

from __future__ import annotations

from . import _agg

INVARIANT = ["UPGrad", "DualProj", "MGDA", "Mean", "Sum", "Aligned-MTL", "IMTL-G", "ConFIG", "CAGrad", "Trimmed Mean", "Krum", "GradDrop", "Constant"]


def check(index, ctx):
    ctx.rule("R1", "for every listed aggregator, constructor variant and path, the returned value has no row axis and is typed "
             "p-equivariant; configured per-objective vectors enter as (R,) values permuted with the rows")
    A, by_class = _agg.analysis(index)
    names = _agg.classes_named(index, INVARIANT, ctx, "R1")
    ctx.rule("R2", "no triangular factorisation (Cholesky) of a bare Gramian J·Jᵀ: it processes the rows pivot by pivot and the Gramian is singular for linearly dependent rows")
    n = 0
    chol: set = set()
    for name in names:
        for run in by_class[name]:
            if run.obj is None:
                ctx.undecided("R0", f"{name}({run.label})", "constructor raises on every path")
                continue
            for res in _agg.returning(run):
                _agg.check_flag(ctx, "R1", name, run, res, ["p"])
                n += 1
                for e in res.events:
                    if e["kind"] == "sop" and e.get("sop") == "cholesky" and e.get("bare_gramian") and e["loc"] not in chol:
                        chol.add(e["loc"])
                        ctx.violated("R2", f"{name}: {e['function'].split('.')[-1]}: `{e['text'][:60]}`",
                                     "Cholesky factorisation of the bare Gramian J·Jᵀ, which is singular whenever the rows are linearly dependent (more rows than columns, a row that is a "
                                     "combination of others): the factorisation then fails or succeeds on rounding noise, pivot by pivot in the order of the rows — the result of the solve "
                                     "depends on that order although the rank is unambiguous (the pseudo-inverse does not)", e["loc"])
    ctx.floor("R1 returning paths", n, 13)
    _agg.common_evidence(ctx, index)
