"""C05 (aggregator half): linear combine and closed-form weights of Constant / Sum / Mean."""

from __future__ import annotations

from ..aggtyping import matrix_value
from ..poly import Poly
from ..values import TV, ObjV
from . import _agg

m = Poly.sym("m")


def check_linear(index, ctx):
    A, by_class = _agg.analysis(index)
    base_w = _agg.weighted_base(index)
    names = _agg.classes_named(index, ["Constant", "Sum", "Mean"], ctx, "A1")
    expect = {"Sum": Poly.const(1), "Mean": m.inverse()}
    for name in names:
        cls = by_class[name][0].cls
        fwd = cls.lookup("forward")
        comb = cls.lookup("combine")
        inh = base_w in cls.mro and fwd is not None and fwd[0] is base_w and (comb is None or comb[0] is base_w)
        ctx.require(inh, "A1", f"{name} inherits forward/combine of _WeightedAggregator", "no override", f"{name} overrides forward or combine", cls.loc())
        for run in by_class[name]:
            for r in _agg.returning(run):
                pk = f"{name}({run.label}) path[{r.describe_path()}]"
                unk = _agg.blocking_unknowns(r)
                if unk or not isinstance(r.value, TV):
                    ctx.undecided("A1", pk, "path not fully typed", cls.loc())
                    continue
                # A1: ops executed inside the base class's forward/combine: exactly one R-contraction of weights with the raw matrix
                ops = [e for e in r.events if e["kind"] == "op" and e["function"].startswith(base_w.qualname + ".")]
                one = len(ops) == 1 and ops[0]["op"] == "matmul" and (
                    (ops[0]["right_raw"] and ops[0]["right_axes"] == ["R", "C"] and ops[0]["left_axes"] == ["R"]) or
                    (ops[0]["left_raw"] and ops[0]["left_axes"] == ["C", "R"] and ops[0]["right_axes"] == ["R"]))
                alt = [e["op"] for e in ops] == ["mul", "sum"]
                ctx.require(one or alt, "A1", f"_WeightedAggregator.forward/combine is the single contraction weights·matrix" if not (one or alt) else pk + " combine",
                            "vector = weights @ matrix and nothing else",
                            "value path of forward/combine is not a single contraction of the weights with the raw matrix: " + "; ".join(f"{e['op']} `{e['text']}`" for e in ops[:4]),
                            ops[0]["loc"] if ops else cls.loc(), derivation={"ops": [e["text"] for e in ops]})
            # A2: closed form of the weights
            if run.obj is None:
                continue
            w = run.obj.fields.get("weighting")
            if not isinstance(w, ObjV):
                ctx.undecided("A2", f"{name}: weighting object", "field `weighting` not resolved", cls.loc())
                continue
            res = A.interp.run_paths(lambda: A.interp.call_value(w, [matrix_value()], {}, cls.node, None))
            for r in res:
                if r.kind != "return":
                    continue
                v = r.value
                pk = f"{name}({run.label}).weighting path[{r.describe_path()}]"
                if not isinstance(v, TV):
                    ctx.undecided("A2", pk, f"weights not typed: {v!r}", cls.loc())
                    continue
                reads = "matrix" in v.origin
                if name == "Constant":
                    cfg = run.variant.get("weights")
                    same = v == cfg
                    ctx.require(same and not reads, "A2", "Constant: weights are the constructor's vector, unmodified" if not same else pk,
                                "returns self.weights itself", f"the weighting returns {v.short()} (origin {sorted(v.origin)}), not the configured vector unmodified", w.cls.loc())
                else:
                    want = expect[name]
                    okv = v.poly is not None and v.poly == want and tuple(v.axes) == ("R",) and not reads and not v.rng and v.dtype == "M"
                    ctx.require(okv, "A2", f"{name}: weights are the constant {want} for each of the m rows" if not okv else pk,
                                f"constant vector of length m, value {want}",
                                f"weights {v.short()} have closed form {v.poly} over axes {v.axes}, dtype tag {v.dtype} (expected constant {want} over (R,) in the matrix dtype); reads matrix values: {reads}", w.cls.loc(),
                                derivation={"closed_form": repr(v.poly)})
