"""C18 — published definitions of MGDA, PCGrad, CAGrad, GradDrop, Random: structural clauses only (DESIGN.md 5/C18).

Numerical clauses (Frank-Wolfe monotonicity, distance c|g0|, exactness for two rows) are NOT decided."""

from __future__ import annotations

import ast

from .. import AnalysisError
from ..astutil import backward_reads, base_name, expr_poly, inplace_mutated_names, mutated_names, names_read
from ..poly import Poly
from ..report import norm_text
from ..values import TV, ObjV
from ..aggtyping import matrix_value
from . import _agg
from .C16 import ctor_rule


def _loc(fi, node):
    return f"{fi.path}:{getattr(node, 'lineno', 0)}"


def check(index, ctx):
    A, by_class = _agg.analysis(index)
    ctx.rule("R1", "PCGrad: inside the loop over the other rows the conflict test (< 0) reads the weight vector that the same loop updates "
             "(successive projection); the update subtracts <g_pc, g_j>/<g_j, g_j> at position j; every other row is visited (no break; continue only for j == i); each projected vector is accumulated")
    ctx.rule("R2", "GradDrop: one uniform draw per column, drawn outside the loop over rows; the blend coefficient normalises to 1 when the mask is 1 and to leak_i when it is 0")
    ctx.rule("R3", "Random: weights are softmax over the row axis of a standard normal draw of length m and nothing else")
    ctx.rule("R4", "CAGrad: constructor rejects c < 0; weights are uniform 1/m plus a multiple of the optimiser's w whose factor carries c; zero weights on the stationary branch")
    ctx.rule("R5", "MGDA: starts from the uniform 1/m and every update is a convex step alpha <- (1-g)·alpha + g·e_t (coefficients sum to 1)")
    pcgrad(index, ctx)
    graddrop(index, ctx, A, by_class)
    random_(index, ctx, A, by_class)
    cagrad(index, ctx, A, by_class)
    mgda(index, ctx, A, by_class)
    _agg.common_evidence(ctx, index)
    ctx.assumptions.append("only the structural clauses listed in the rules are decided; convexity/monotonicity/distance identities are numerical")


# ------------------------------------------------------------------------------------------------ PCGrad
def pcgrad(index, ctx):
    cls = _agg.weighting_of(index, "PCGrad")
    r = cls.lookup("forward") if cls is not None else None
    if r is None:
        raise AnalysisError("anchor vanished: the forward of the weighting class PCGrad is built on")
    fi = r[1]
    ctx.analysed(fi.qualname)
    # read in canonical shape: helpers of the class/module expanded in place, walrus tests split, reduce(add, generator) as a loop
    from ..normalize import inline_helpers, split_walrus, unzip_gathers

    from ..normalize import inline_local_objects

    fn = split_walrus(unzip_gathers(inline_local_objects(fi, index, inline_helpers(fi, index))))  # (a small helper object of the module — `row = _ProjectedRow(i, G); row.project_off(j)` — is read as the code it stands for)  # = canonical(), with `zip(order, G[order])` walked as `for j in order` reading G[j]
    from ..normalize import unflatten_schedules

    fn = unflatten_schedules(fn)  # one loop over a precomputed list of (i, j) pairs is the loop nest the list enumerates
    from ..normalize import expand_maintained_products, split_skip_guards

    fn = expand_maintained_products(split_skip_guards(fn))  # `if a or b: continue`, `if not c: continue; rest`; products kept up to date instead of recomputed
    # the conflict test: an If whose test compares a value with 0 (any orientation / negation)
    from ..guards import implies, oriented

    is_zero = lambda e: isinstance(e, ast.Constant) and not isinstance(e.value, bool) and e.value == 0

    def classify(c):
        """N = 'the inner product is negative' (a zero inner product projects nothing either way)."""
        o = oriented(c, lambda e: not is_zero(e))
        if o is None or not is_zero(o[2]):
            return None
        return {ast.Lt: ("N", True), ast.LtE: ("N", True), ast.GtE: ("N", False), ast.Gt: ("N", False)}.get(o[1])

    tests = []
    for n in ast.walk(fn):
        if isinstance(n, ast.If):
            core = n.test
            while isinstance(core, ast.UnaryOp) and isinstance(core.op, ast.Not):
                core = core.operand
            if isinstance(core, ast.Compare) and len(core.ops) == 1 and classify(core) is not None:
                tests.append((n, core))
    if not tests:
        # the sign test computed up front as a tensor (`conflicts = G < 0`) and looked up in the loops: it reads whatever that tensor was computed from
        defs_ = {}
        for a_ in ast.walk(fn):
            if isinstance(a_, ast.Assign) and len(a_.targets) == 1 and isinstance(a_.targets[0], ast.Name):
                defs_.setdefault(a_.targets[0].id, []).append(a_.value)
        for n in ast.walk(fn):
            if isinstance(n, ast.If) and any(isinstance(l_, ast.For) and any(x is n for x in ast.walk(l_)) for l_ in ast.walk(fn)):
                for nm in [x for x in ast.walk(n.test) if isinstance(x, ast.Name) and len(defs_.get(x.id, [])) == 1]:
                    v_ = defs_[nm.id][0]
                    if isinstance(v_, ast.Compare) and len(v_.ops) == 1 and classify(v_) is not None:
                        subj = oriented(v_, lambda e: not is_zero(e))[0]
                        loops_ = [l_ for l_ in ast.walk(fn) if isinstance(l_, ast.For) and any(x is n for x in ast.walk(l_))]
                        inner_ = min(loops_, key=lambda l_: sum(1 for _ in ast.walk(l_)))
                        mut_ = inplace_mutated_names(inner_.body)
                        if not (names_read(subj) & set(mut_)):
                            ctx.violated("R1", "PCGrad: conflict is tested against the already-projected vector",
                                         f"the loop consults `{norm_text(n.test)[:60]}`, where `{nm.id} = {norm_text(v_)[:50]}` was computed before the loops from {sorted(names_read(subj))}: whether row j "
                                         f"conflicts is decided from the ORIGINAL rows, not from the vector the loop has already projected (updated there: {sorted(mut_)}) — a row that no longer conflicts "
                                         "after an earlier projection is still projected off", _loc(fi, n))
                            return
    if len(tests) != 1:
        ctx.undecided("R1", "PCGrad: conflict test", f"expected one sign test against 0 in forward, found {len(tests)}", fi.loc())
        return
    t, core = tests[0]
    subject = oriented(core, lambda e: not is_zero(e))[0]
    conflict_body = t.body if implies([(t.test, True)], classify, "N", True) else (t.orelse if implies([(t.test, False)], classify, "N", True) else None)
    # loops enclosing the test
    fors = [n for n in ast.walk(fn) if isinstance(n, ast.For) and any(x is t for x in ast.walk(n))]
    fors.sort(key=lambda n: sum(1 for _ in ast.walk(n)), reverse=True)
    if len(fors) != 2:
        ctx.undecided("R1", "PCGrad: loop nest", f"expected the conflict test inside two nested loops, found {len(fors)}", fi.loc())
        return
    outer, inner = fors
    jvar = inner.target.id if isinstance(inner.target, ast.Name) else None
    ivar = outer.target.id if isinstance(outer.target, ast.Name) else None
    if ivar is None and isinstance(outer.target, ast.Tuple) and outer.target.elts and isinstance(outer.target.elts[0], ast.Name) \
            and isinstance(outer.iter, ast.Call) and isinstance(outer.iter.func, ast.Name) and outer.iter.func.id == "enumerate":
        ivar = outer.target.elts[0].id  # for i, order in enumerate(orders)
    mut = inplace_mutated_names(inner.body)
    reads = backward_reads(inner.body, subject)
    carried = sorted((set(mut) & reads) - {jvar})
    ctx.require(bool(carried), "R1", "PCGrad: conflict is tested against the already-projected vector",
                f"test `{norm_text(t.test)}` reads {carried}, updated in the same loop",
                f"the conflict test `{norm_text(t.test)}` depends on {sorted(reads)} — none of which is updated inside the loop over the other rows "
                f"(updated there: {sorted(set(mut) - {jvar})}): later projections are tested against the ORIGINAL row", _loc(fi, t))
    # the update
    upd = [s for b in (conflict_body or []) for s in ast.walk(b) if isinstance(s, ast.AugAssign) and isinstance(s.target, ast.Subscript)]
    if conflict_body is not None and len(upd) == 1:
        u = upd[0]
        sl_ = norm_text(u.target.slice).replace(" ", "").strip("()")
        idx_ok = sl_ == jvar or sl_ == f"{ivar},{jvar}"  # w[j] on the row's own vector, or W[i, j] on the matrix whose row i is that vector
        val = u.value
        if isinstance(val, ast.Name):
            # `c = ip / G[j, j]; w[j] -= c`: the step size held in a local of the conflict branch
            loc_defs = [s_ for s_ in conflict_body if isinstance(s_, ast.Assign) and len(s_.targets) == 1 and isinstance(s_.targets[0], ast.Name) and s_.targets[0].id == val.id]
            if len(loc_defs) == 1 and conflict_body.index(loc_defs[0]) < conflict_body.index(u):
                val = loc_defs[0].value

        def squared_norm_of_j(e):
            """G[j, j], or d[j] where d is the diagonal of G (a local holding `G.diagonal()` / `torch.diag(G)` is looked through)."""
            from ..astutil import inline_locals

            if not isinstance(e, ast.Subscript):
                return False
            if norm_text(e.slice).replace(" ", "") in (f"{jvar},{jvar}", f"({jvar},{jvar})"):
                return True
            if norm_text(e.slice) != jvar:
                return False
            base = inline_locals(e.value, fn, keep={jvar or "", ivar or ""})
            if isinstance(base, ast.Call):
                f_ = base.func
                nm = f_.attr if isinstance(f_, ast.Attribute) else (f_.id if isinstance(f_, ast.Name) else "")
                return nm in ("diagonal", "diag")
            return False

        form_ok = isinstance(u.op, ast.Sub) and isinstance(val, ast.BinOp) and isinstance(val.op, ast.Div) and \
            (names_read(val.left) & (names_read(subject) | backward_reads(inner.body, subject))) and squared_norm_of_j(val.right)
        ctx.require(idx_ok and bool(form_ok) and base_name(u.target) in carried, "R1", "PCGrad: projection step",
                    f"`{norm_text(u)}`", f"the projection step `{norm_text(u)}` is not `w[j] -= <g_pc, g_j> / <g_j, g_j>` on the carried weight vector", _loc(fi, u))
    else:
        ctx.undecided("R1", "PCGrad: projection step", "conflict branch is not of the recognised form `if ip < 0: w[j] -= ip / G[j, j]`", _loc(fi, t))
    brk = [n for n in ast.walk(inner) if isinstance(n, ast.Break)]
    ctx.require(not brk, "R1", "PCGrad: every other row is visited", "no break in the projection loop",
                "the loop over the other rows contains `break`: rows after it in the drawn order are never projected off", _loc(fi, brk[0]) if brk else fi.loc())
    conts = [n for n in ast.walk(inner) if isinstance(n, ast.If) and any(isinstance(x, ast.Continue) for x in n.body)]
    def is_self_test(t):
        """`j == i` (also spelt `not (j != i)`)."""
        neg = False
        while isinstance(t, ast.UnaryOp) and isinstance(t.op, ast.Not):
            t, neg = t.operand, not neg
        return isinstance(t, ast.Compare) and len(t.ops) == 1 and isinstance(t.ops[0], ast.NotEq if neg else ast.Eq) and {jvar, ivar} <= names_read(t) \
            and all(isinstance(x, ast.Name) for x in (t.left, t.comparators[0]))

    okc = all(is_self_test(c.test) for c in conts)
    stray = [n for n in ast.walk(inner) if isinstance(n, ast.Continue)]
    ctx.require(okc and len(stray) == len(conts), "R1", "PCGrad: only the row itself is skipped", "continue only when j == i",
                "a `continue` in the projection loop is not guarded by `j == i` alone", _loc(fi, conts[0]) if conts else fi.loc())
    def filters_self(it):
        """The sequence iterated by the projection loop has row i filtered out: `order[order != i]` or `[j for j in order if j != i]`."""
        from ..astutil import inline_locals

        it = inline_locals(it, fn, keep={ivar or ""})
        for n in ast.walk(it):
            if isinstance(n, ast.Subscript) and isinstance(n.slice, ast.Compare) and len(n.slice.ops) == 1 and isinstance(n.slice.ops[0], ast.NotEq) \
                    and ivar in names_read(n.slice) and norm_text(n.value) in (norm_text(n.slice.left), norm_text(n.slice.comparators[0])):
                return True
            if isinstance(n, (ast.ListComp, ast.GeneratorExp)) and len(n.generators) == 1 and isinstance(n.generators[0].target, ast.Name) \
                    and isinstance(n.elt, ast.Name) and n.elt.id == n.generators[0].target.id:
                tv_ = n.generators[0].target.id
                if any(isinstance(c, ast.Compare) and len(c.ops) == 1 and isinstance(c.ops[0], ast.NotEq) and {tv_, ivar} <= names_read(c) for c in n.generators[0].ifs):
                    return True
        return False

    removed_self = isinstance(inner.iter, ast.Name) and any(
        isinstance(s2, ast.Expr) and isinstance(s2.value, ast.Call) and isinstance(s2.value.func, ast.Attribute) and s2.value.func.attr == "remove" and isinstance(s2.value.func.value, ast.Name)
        and s2.value.func.value.id == inner.iter.id and len(s2.value.args) == 1 and isinstance(s2.value.args[0], ast.Name) and s2.value.args[0].id == ivar for s2 in outer.body)
    skips_self = bool(conts) or any(isinstance(c, ast.Compare) and isinstance(c.ops[0], ast.NotEq) and {jvar, ivar} <= names_read(c) for c in ast.walk(inner)) or filters_self(inner.iter) or removed_self
    ctx.require(skips_self, "R1", "PCGrad: a row is never projected off itself", "the loop skips j == i",
                "the projection loop no longer skips j == i: once row i conflicts with its own projected vector its coefficient is altered (outputs outside the published candidate set for m >= 3)", _loc(fi, inner))
    # accumulation of the projected vector in the outer loop, after the inner loop
    after = outer.body[outer.body.index(inner) + 1:] if inner in outer.body else []
    acc = [s for s in after if (isinstance(s, ast.AugAssign) and isinstance(s.op, ast.Add) and set(carried) & names_read(s.value)) or
           (isinstance(s, ast.Assign) and isinstance(s.value, ast.BinOp) and isinstance(s.value.op, ast.Add) and set(carried) & names_read(s.value)
            and base_name(s.targets[0]) in names_read(s.value))]
    # `w = W[i]` at the top of the outer loop: w is a view of row i of W — updating w updates W
    view_bases = {base_name(s_.value) for s_ in outer.body if isinstance(s_, ast.Assign) and len(s_.targets) == 1 and isinstance(s_.targets[0], ast.Name) and s_.targets[0].id in carried
                  and isinstance(s_.value, ast.Subscript) and norm_text(s_.value.slice) == (ivar or "")}
    carried = sorted(set(carried) | {b_ for b_ in view_bases if b_})
    if not acc and not after:
        # the projected vectors kept as the rows of one matrix, summed once all rows are done: `W.sum(dim=0)` after the loops
        body_ = fn.body
        if outer in body_:
            for s_ in body_[body_.index(outer) + 1:]:
                for c_ in ast.walk(s_):
                    if isinstance(c_, ast.Call) and ((isinstance(c_.func, ast.Attribute) and c_.func.attr == "sum" and base_name(c_.func.value) in carried) or
                                                      (norm_text(c_.func) == "torch.sum" and c_.args and base_name(c_.args[0]) in carried)):
                        d_ = next((k_.value for k_ in c_.keywords if k_.arg in ("dim", "axis")), c_.args[-1] if (c_.args and isinstance(c_.args[-1], ast.Constant)) else None)
                        if isinstance(d_, ast.Constant) and d_.value == 0:
                            acc = [s_]
    ctx.require(len(acc) == 1, "R1", "PCGrad: projected vectors are summed", "accumulation after the projection loop",
                "the projected weight vector is not accumulated exactly once after the projection loop", _loc(fi, outer))
    rnd = [n for n in ast.walk(outer) if isinstance(n, ast.Call) and norm_text(n.func).endswith("randperm")]
    inside = [n for n in rnd if any(x is n for x in ast.walk(outer))]
    per_row = len(inside) == 1 and not any(any(x is n for b_ in inner.body + inner.orelse for x in ast.walk(b_)) for n in rnd)  # (the iterable of the inner loop is evaluated once per row)
    how = "randperm drawn once per outer iteration"
    if not rnd:
        # the orders drawn up front, one per row: `orders = [randperm(m) for _ in range(m)]`, and the outer loop walks that list
        src = outer.iter
        if isinstance(src, ast.Call) and isinstance(src.func, ast.Name) and src.func.id in ("enumerate", "zip") and src.args:
            src = src.args[-1]
        binds = [a for a in ast.walk(fn) if isinstance(a, ast.Assign) and len(a.targets) == 1 and isinstance(a.targets[0], ast.Name) and isinstance(src, ast.Name) and a.targets[0].id == src.id]
        if len(binds) == 1 and isinstance(binds[0].value, (ast.ListComp, ast.GeneratorExp)) and len(binds[0].value.generators) == 1 and not binds[0].value.generators[0].ifs \
                and sum(1 for x_ in ast.walk(binds[0].value.elt) if isinstance(x_, ast.Call) and norm_text(x_.func).endswith("randperm")) == 1 \
                and isinstance(binds[0].value.generators[0].iter, ast.Call) and norm_text(binds[0].value.generators[0].iter.func) == "range":
            elem_names = {x.id for x in ast.walk(outer.target) if isinstance(x, ast.Name)} - {ivar}
            per_row = bool(elem_names & names_read(inner.iter))
            how = f"one randperm per row drawn up front (`{norm_text(binds[0])[:60]}`), the outer loop walks that list"
    ctx.require(per_row, "R1", "PCGrad: one random order per projected row", how, "the projection order is not drawn exactly once per projected row", _loc(fi, outer))
    # ... on EVERY iteration: a draw that is skipped when the values say so makes the random stream of the later rows depend on the values (on their rounding, even)
    for rp in inside:
        st_rp = next((s_ for s_ in outer.body if any(x is rp for x in ast.walk(s_))), None)
        nested = st_rp is not None and isinstance(st_rp, (ast.If, ast.While, ast.Try))
        before = outer.body[:outer.body.index(st_rp)] if st_rp in outer.body else []
        skipping = [s_ for s_ in before if isinstance(s_, ast.If) and any(isinstance(x, (ast.Continue, ast.Break)) for x in ast.walk(s_))]
        ctx.require(not nested and not skipping, "R1", "PCGrad: the order of every row is drawn, whatever the values", "the draw is executed unconditionally in the loop over the rows",
                    f"`{norm_text(getattr(skipping[0] if skipping else st_rp, 'test', st_rp))[:60]}` decides whether a random order is drawn for this row: the number of draws — and with it the orders of all later rows "
                    "under a fixed seed — depends on the values of the matrix (an inner product that is exactly 0 for J is ±1e-8 for J·Q)", _loc(fi, skipping[0] if skipping else st_rp))


# ------------------------------------------------------------------------------------------------ GradDrop
def graddrop(index, ctx, A, by_class):
    if "GradDrop" not in by_class:
        raise AnalysisError("anchor vanished: GradDrop")
    cls = by_class["GradDrop"][0].cls
    fi = cls.lookup("forward")[1]
    ctx.analysed(fi.qualname)
    # draw shape from the interpreter
    ok_draw = False
    for run in by_class["GradDrop"]:
        for r in _agg.returning(run):
            draws = [e for e in r.events if e["kind"] == "sop" and e["sop"] in ("rand", "randn")]
            if any(e["kind"] == "rng" for e in r.events):
                ok_draw = len(draws) == 1 and draws[0]["axes"] == ["C"] and draws[0]["sop"] == "rand"
                if not ok_draw:
                    ctx.violated("R2", "GradDrop: one uniform draw per column", f"random draws on the path: {[(e['sop'], e['axes']) for e in draws]}", fi.loc())
                    return
    fn = fi.node
    rows = [n for n in ast.walk(fn) if isinstance(n, ast.For)]
    if not rows and graddrop_vectorised(ctx, fi, fn, ok_draw):
        return
    if len(rows) != 1:
        ctx.undecided("R2", "GradDrop: loop over rows", f"expected one loop, found {len(rows)}", fi.loc())
        return
    loop = rows[0]
    draw_in_loop = [n for n in ast.walk(loop) if isinstance(n, ast.Call) and norm_text(n.func).split(".")[-1] in ("rand", "rand_like", "randn", "bernoulli")]
    ctx.require(ok_draw and not draw_in_loop, "R2", "GradDrop: one uniform draw per column, outside the row loop", "U ~ rand((C,)) drawn once",
                "the sign decision is drawn inside the loop over rows (one column may mix kept-positive and kept-negative entries)", _loc(fi, loop))
    accs = [s for s in loop.body if isinstance(s, ast.AugAssign) and isinstance(s.op, ast.Add)]
    if len(accs) != 1:
        ctx.undecided("R2", "GradDrop: accumulation", "loop body is not `vector += coefficient * row`", _loc(fi, loop))
        return
    acc = accs[0]
    atoms: dict = {}
    # inline single-assignment locals of the loop body (M_i)
    masks = [s for s in loop.body if isinstance(s, ast.Assign) and isinstance(s.targets[0], ast.Name)]
    mask_names = [s.targets[0].id for s in masks if any(isinstance(x, ast.Compare) for x in ast.walk(s.value))]
    p = expr_poly(acc.value, atoms)
    # which loop variable is the row: the one bound to the elements of `matrix` (directly, by index, or through zip/enumerate)
    mparam = next((a_.arg for a_ in fn.args.args if a_.arg != "self"), "matrix")
    row_names = set()
    tgt, it = loop.target, loop.iter
    if isinstance(it, ast.Call) and isinstance(it.func, ast.Name) and it.func.id == "enumerate" and it.args and isinstance(tgt, ast.Tuple) and len(tgt.elts) == 2:
        tgt, it = tgt.elts[1], it.args[0]
    if isinstance(it, ast.Name) and it.id == mparam and isinstance(tgt, ast.Name):
        row_names.add(tgt.id)
    if isinstance(it, ast.Call) and isinstance(it.func, ast.Name) and it.func.id == "zip" and isinstance(tgt, ast.Tuple) and len(tgt.elts) == len(it.args):
        for te, ae in zip(tgt.elts, it.args):
            if isinstance(ae, ast.Name) and ae.id == mparam and isinstance(te, ast.Name):
                row_names.add(te.id)
    row_syms = [t for t, e in atoms.items() if isinstance(e, ast.Subscript) and base_name(e) == mparam] or [t for t, e in atoms.items() if isinstance(e, ast.Name) and e.id in row_names]
    mask_syms = [t for t in atoms if t in mask_names]
    leak_syms = [t for t in atoms if t not in row_syms and t not in mask_syms]
    if p is not None and len(row_syms) == 1 and len(mask_syms) == 1 and len(leak_syms) > 1:
        # one of the symbols may be a value derived from the leak at CONSTRUCTION time (self._x = 1 - leak in __init__) and read back in forward
        init_ = cls.lookup("__init__")
        stored = {}
        if init_ is not None:
            for a_ in ast.walk(init_[1].node):
                if isinstance(a_, ast.Assign) and len(a_.targets) == 1 and isinstance(a_.targets[0], ast.Attribute) and isinstance(a_.targets[0].value, ast.Name) and a_.targets[0].value.id == "self":
                    stored[a_.targets[0].attr] = a_.value
        verbatim = {k_: v_.id for k_, v_ in stored.items() if isinstance(v_, ast.Name)}  # self.leak = leak
        read_in_fwd = {x.attr for x in ast.walk(fn) if isinstance(x, ast.Attribute) and isinstance(x.value, ast.Name) and x.value.id == "self"}
        for fld, expr_ in stored.items():
            params_used = {x.id for x in ast.walk(expr_) if isinstance(x, ast.Name)} & set(verbatim.values())
            if fld in read_in_fwd and not isinstance(expr_, ast.Name) and params_used and any(verbatim_f in read_in_fwd for verbatim_f, pr in verbatim.items() if pr in params_used):
                pub = next(vf for vf, pr in verbatim.items() if pr in params_used and vf in read_in_fwd)
                ctx.violated("R2", "GradDrop: blend coefficient reads the configuration of the call",
                             f"forward combines self.{pub} (read at call time) with self.{fld} = `{norm_text(expr_)[:40]}`, computed from the same argument once, in the constructor: after "
                             f"`aggregator.{pub} = ...` (or an in-place change of that tensor) the two disagree and kept entries no longer weigh 1 (coefficient {pub}_new + 1 - {pub}_old)", _loc(fi, acc))
                return
    if p is None or len(row_syms) != 1 or len(leak_syms) != 1 or len(mask_syms) != 1:
        ctx.undecided("R2", "GradDrop: blend coefficient", f"could not identify row/leak/mask symbols in `{norm_text(acc.value)}` (rows={row_syms}, leak={leak_syms}, mask={mask_syms})", _loc(fi, acc))
        return
    X, L, M = Poly.sym(row_syms[0]), Poly.sym(leak_syms[0]), mask_syms[0]
    at1, at0 = p.subs(M, Poly.const(1)), p.subs(M, Poly.const(0))
    ctx.require(at1 == X and at0 == L * X, "R2", "GradDrop: kept entries weigh 1, dropped entries weigh leak_i",
                f"coefficient·row = {p}: mask=1 → {at1}, mask=0 → {at0}",
                f"`{norm_text(acc.value)}` evaluates to {at1} when the mask is 1 (expected {X}) and to {at0} when it is 0 (expected {L * X})", _loc(fi, acc),
                derivation={"poly": repr(p)})
    # the mask itself: (fP > U)·(row > 0) + (fP < U)·(row < 0)
    ms = [s for s in masks if s.targets[0].id == M]
    if ms:
        from ..astutil import inline_locals

        u_names = [s2.targets[0].id for s2 in ast.walk(fn) if isinstance(s2, ast.Assign) and isinstance(s2.targets[0], ast.Name) and isinstance(s2.value, ast.Call)
                   and norm_text(s2.value.func).split(".")[-1] in ("rand", "rand_like")]
        mexpr = inline_locals(ms[0].value, fn, keep={M} | set(u_names))  # hoisted sub-masks (`keep = s > U`) read in place
        # a loop variable running over `matrix.sign()` is the sign of the row
        tg_, it_ = loop.target, loop.iter
        pairs_ = []
        if isinstance(it_, ast.Call) and isinstance(it_.func, ast.Name) and it_.func.id == "enumerate" and it_.args and isinstance(tg_, ast.Tuple) and len(tg_.elts) == 2:
            pairs_ = [(tg_.elts[1], it_.args[0])]
        elif isinstance(it_, ast.Call) and isinstance(it_.func, ast.Name) and it_.func.id == "zip" and isinstance(tg_, ast.Tuple) and len(tg_.elts) == len(it_.args):
            pairs_ = list(zip(tg_.elts, it_.args))
        elif isinstance(tg_, ast.Name):
            pairs_ = [(tg_, it_)]
        sign_vars = {t_.id for t_, src_ in pairs_ if isinstance(t_, ast.Name) and isinstance(src_, ast.Call) and norm_text(src_.func).split(".")[-1] in ("sign", "sgn")
                     and norm_text(src_.func.value if isinstance(src_.func, ast.Attribute) and not src_.args else (src_.args[0] if src_.args else src_)) == mparam}
        if sign_vars:
            class _S(ast.NodeTransformer):
                def visit_Name(self, n_):
                    if n_.id in sign_vars and isinstance(n_.ctx, ast.Load):
                        return ast.Call(func=ast.Attribute(value=ast.Name(id="torch", ctx=ast.Load()), attr="sign", ctx=ast.Load()), args=[ast.parse(row_syms[0], mode="eval").body], keywords=[])
                    return n_

            import copy as _copy

            mexpr = ast.fix_missing_locations(_S().visit(_copy.deepcopy(mexpr)))
        ok_mask, why_mask = mask_equivalent(mexpr, row_syms[0], u_names[0] if len(u_names) == 1 else None)
        if ok_mask is None:
            ctx.undecided("R2", "GradDrop: mask keeps the positive entries or the negative entries of a column", f"mask `{norm_text(ms[0].value)}`: {why_mask}", _loc(fi, ms[0]))
        else:
            ctx.require(ok_mask, "R2", "GradDrop: mask keeps the positive entries or the negative entries of a column", f"mask `{norm_text(ms[0].value)}` ≡ (s > U)·(row > 0) + (s < U)·(row < 0)",
                        f"mask `{norm_text(ms[0].value)}` is not equivalent to (s > U)·(row > 0) + (s < U)·(row < 0): {why_mask}", _loc(fi, ms[0]))


def _straighten_vectorised(fn):
    """The loop-free form with the leak applied in an `if self.leak is not None:` block, read as the straight-line code of the case in which a
    leak is given: the block's statements in place, names bound more than once numbered (`mask`, `mask__2`), dtype/device conversions dropped,
    `torch.lerp(a, b, w)` spelt `a + w * (b - a)`, `ones_like(x)` / `zeros_like(x)` spelt 1 / 0. Returns a rewritten deep copy."""
    import copy as _cp

    fn = _cp.deepcopy(fn)

    def is_leak_test(t):
        return isinstance(t, ast.Compare) and len(t.ops) == 1 and isinstance(t.ops[0], ast.IsNot) and isinstance(t.comparators[0], ast.Constant) and t.comparators[0].value is None \
            and "leak" in norm_text(t.left)

    body = []
    for st in fn.body:
        if isinstance(st, ast.If) and is_leak_test(st.test) and not any(isinstance(x, (ast.For, ast.While, ast.Return)) for x in ast.walk(st)):
            body.extend(st.body)
        else:
            body.append(st)

    class Simplify(ast.NodeTransformer):
        def visit_Call(self, n):
            self.generic_visit(n)
            f = n.func
            if isinstance(f, ast.Attribute) and f.attr in ("to", "float", "double", "type_as", "contiguous", "clone") and not (isinstance(f.value, ast.Name) and f.value.id == "torch"):
                return f.value
            t = norm_text(f)
            if t == "torch.lerp" and len(n.args) == 3:
                a, b, w = n.args
                return ast.BinOp(left=a, op=ast.Add(), right=ast.BinOp(left=w, op=ast.Mult(), right=ast.BinOp(left=b, op=ast.Sub(), right=_cp.deepcopy(a))))
            if t in ("torch.ones_like", "torch.zeros_like") and n.args:
                return ast.Constant(value=1 if t.endswith("ones_like") else 0)
            return n

    body = [Simplify().visit(st) for st in body]
    # number the re-bindings of top-level names (straight-line code: every load reads the latest binding)
    count, cur = {}, {}

    class Ren(ast.NodeTransformer):
        def visit_Name(self, n):
            if isinstance(n.ctx, ast.Load) and n.id in cur:
                return ast.copy_location(ast.Name(id=cur[n.id], ctx=n.ctx), n)
            return n

    out = []
    for st in body:
        if isinstance(st, ast.Assign) and len(st.targets) == 1 and isinstance(st.targets[0], ast.Name):
            nm = st.targets[0].id
            st.value = Ren().visit(st.value)
            count[nm] = count.get(nm, 0) + 1
            if count[nm] > 1:
                cur[nm] = f"{nm}__{count[nm]}"
                st.targets[0] = ast.Name(id=cur[nm], ctx=ast.Store())
            out.append(st)
        elif not any(isinstance(x, (ast.For, ast.While, ast.If, ast.With, ast.Try)) for x in [st]):
            out.append(Ren().visit(st))
        else:
            out.append(st)
    fn.body = out
    return ast.fix_missing_locations(fn)


def graddrop_vectorised(ctx, fi, fn, ok_draw) -> bool:
    """The loop over rows written as one expression over the whole matrix: `((L + (1 - L) * M) * matrix).sum(dim=0)` with M the
    m x n mask and L the leak vector broadcast along the columns (`leak.unsqueeze(1)`, `leak[:, None]`, `leak.view(-1, 1)`).
    Returns False when the code is not of this shape (nothing reported)."""
    from ..astutil import inline_locals

    fn = _straighten_vectorised(fn)
    mparam = next((a_.arg for a_ in fn.args.args if a_.arg != "self"), "matrix")
    sums = [c for c in ast.walk(fn) if isinstance(c, ast.Call) and ((isinstance(c.func, ast.Attribute) and c.func.attr == "sum" and not (isinstance(c.func.value, ast.Name) and c.func.value.id == "torch"))
                                                                    or norm_text(c.func) == "torch.sum")]
    def dim0(c):
        d = next((k.value for k in c.keywords if k.arg in ("dim", "axis")), None)
        if d is None:
            extra = c.args[1:] if norm_text(c.func) == "torch.sum" else c.args
            d = extra[0] if extra else None
        return isinstance(d, ast.Constant) and d.value == 0
    assigns = {s2.targets[0].id: s2 for s2 in ast.walk(fn) if isinstance(s2, ast.Assign) and len(s2.targets) == 1 and isinstance(s2.targets[0], ast.Name)}
    mask_names = {n_ for n_, s2 in assigns.items() if any(isinstance(x, ast.Compare) for x in ast.walk(s2.value)) and not isinstance(s2.value, ast.IfExp)}
    opnd = lambda c: c.args[0] if norm_text(c.func) == "torch.sum" else c.func.value
    # the sum over the rows of the masked matrix (not the column statistics the keep probability is made of)
    def reads_mask(c):
        # (directly, or through single-assignment locals: `coefficients = leak + (1 - leak) * mask`)
        e_ = inline_locals(opnd(c), fn, keep=mask_names | {mparam})
        return bool({x.id for x in ast.walk(e_) if isinstance(x, ast.Name)} & mask_names)

    sums = [c for c in sums if dim0(c) and reads_mask(c)]
    if len(sums) != 1:
        return False
    operand = opnd(sums[0])

    def col_broadcast_of(e):
        """`x.unsqueeze(1)` / `x[:, None]` / `x.view(-1, 1)` / `x.reshape(-1, 1)` -> text of x, else None."""
        if isinstance(e, ast.Call) and isinstance(e.func, ast.Attribute):
            a_ = [norm_text(x) for x in e.args]
            if (e.func.attr == "unsqueeze" and a_ in (["1"], ["-1"])) or (e.func.attr in ("view", "reshape") and a_ in (["-1", "1"], ["(-1, 1)"], ["[-1, 1]"])):
                return norm_text(e.func.value)
        if isinstance(e, ast.Subscript) and norm_text(e.slice).replace(" ", "") in (":,None", "(slice(None,None,None),None)"):
            return norm_text(e.value)
        return None

    leak_cols = {n_: col_broadcast_of(s2.value) for n_, s2 in assigns.items() if col_broadcast_of(s2.value) is not None}
    keep = mask_names | set(leak_cols) | {mparam}
    value = inline_locals(operand, fn, keep=keep)
    atoms: dict = {}
    p = expr_poly(value, atoms)
    row_syms = [t for t, e in atoms.items() if isinstance(e, ast.Name) and e.id == mparam]
    mask_syms = [t for t in atoms if t in mask_names]
    leak_syms = [t for t in atoms if t not in row_syms and t not in mask_syms]
    key = "GradDrop (one expression over the matrix)"
    if p is None or len(row_syms) != 1 or len(mask_syms) != 1 or len(leak_syms) != 1:
        return False
    ctx.require(ok_draw, "R2", "GradDrop: one uniform draw per column, outside the row loop", "U ~ rand((C,)) drawn once; no loop over rows", "the sign decision is not one uniform draw per column", fi.loc())
    lk = leak_syms[0]
    ctx.require(lk in leak_cols or (isinstance(atoms[lk], ast.AST) and col_broadcast_of(atoms[lk]) is not None), "R2", f"{key}: the leak of row i multiplies row i",
                f"`{lk}` is the leak vector broadcast along the columns", f"`{norm_text(atoms[lk]) if isinstance(atoms[lk], ast.AST) else lk}` is not the leak vector turned into a column (one leak per row)", _loc(fi, sums[0]))
    X, L, M = Poly.sym(row_syms[0]), Poly.sym(lk), mask_syms[0]
    at1, at0 = p.subs(M, Poly.const(1)), p.subs(M, Poly.const(0))
    ctx.require(at1 == X and at0 == L * X, "R2", "GradDrop: kept entries weigh 1, dropped entries weigh leak_i", f"coefficient·matrix = {p}: mask=1 → {at1}, mask=0 → {at0}",
                f"`{norm_text(value)}` evaluates to {at1} when the mask is 1 (expected {X}) and to {at0} when it is 0 (expected {L * X})", _loc(fi, sums[0]), derivation={"poly": repr(p)})
    u_names = [n_ for n_, s2 in assigns.items() if isinstance(s2.value, ast.Call) and norm_text(s2.value.func).split(".")[-1] in ("rand", "rand_like")]
    mexpr = inline_locals(assigns[M].value, fn, keep={M} | set(u_names) | {mparam})
    ok_mask, why_mask = mask_equivalent(mexpr, mparam, u_names[0] if len(u_names) == 1 else None)
    if ok_mask is None:
        ctx.undecided("R2", "GradDrop: mask keeps the positive entries or the negative entries of a column", f"mask `{norm_text(assigns[M].value)}`: {why_mask}", _loc(fi, assigns[M]))
    else:
        ctx.require(ok_mask, "R2", "GradDrop: mask keeps the positive entries or the negative entries of a column", f"mask `{norm_text(assigns[M].value)}` ≡ (s > U)·(matrix > 0) + (s < U)·(matrix < 0)",
                    f"mask `{norm_text(assigns[M].value)}` is not equivalent to (s > U)·(matrix > 0) + (s < U)·(matrix < 0): {why_mask}", _loc(fi, assigns[M]))
    return True


def mask_equivalent(expr, row_text, u_name=None):
    """Is the boolean-valued tensor expression equal, entry by entry, to (s > U)∧(row > 0) ∨ (s < U)∧(row < 0)?  Decided on the truth table of the
    four comparisons (A: s > U, B: s < U, P: row > 0, N: row < 0; A∧B and P∧N are impossible). (True/False, reason) or (None, reason) when a
    sub-expression is not one of these comparisons combined with * + & | ~ torch.where / logical_and / logical_or."""
    import itertools

    pair = {}

    class Mismatch(Exception):
        pass

    def atom(c):
        if not (isinstance(c, ast.Compare) and len(c.ops) == 1 and isinstance(c.ops[0], (ast.Gt, ast.Lt, ast.GtE, ast.LtE))):
            return None
        l, op, r = norm_text(c.left), type(c.ops[0]), norm_text(c.comparators[0])
        flip = {ast.Gt: ast.Lt, ast.Lt: ast.Gt, ast.GtE: ast.LtE, ast.LtE: ast.GtE}
        if r == row_text and l in ("0", "0.0"):
            l, r, op = r, l, flip.get(op, op)
        if l == row_text and r in ("0", "0.0"):
            return {ast.Gt: ("P", True), ast.Lt: ("N", True), ast.LtE: ("P", False), ast.GtE: ("N", False)}.get(op)
        if row_text in (l, r) or u_name is None:
            return None
        # the keep statistic s against the uniform draw U, U on the right after orientation
        if l == u_name:
            l, r, op = r, l, flip.get(op, op)
        if r != u_name:
            if any(isinstance(n_, ast.Name) and n_.id == u_name for n_ in ast.walk(c)):
                raise Mismatch(f"`{norm_text(c)}` does not compare the keep statistic with the uniform draw `{u_name}` itself")
            return None
        stat = pair.setdefault("s", l)
        if l != stat:
            raise Mismatch(f"`{norm_text(c)}` compares `{l}` with `{u_name}` while the other sign test compares `{stat}`: the two tests are not complementary")
        return {ast.Gt: ("A", True), ast.Lt: ("B", True), ast.LtE: ("A", False), ast.GtE: ("B", False)}.get(op)

    class Unknown(Exception):
        pass

    def ev(e, env):
        """Integer value of the expression (masks are 0 / 1; differences of masks and signs are -1 / 0 / 1)."""
        if isinstance(e, ast.Compare):
            a = atom(e) if len(e.ops) == 1 else None
            if a is not None:
                return int(env[a[0]] if a[1] else not env[a[0]])
            if len(e.ops) == 1 and isinstance(e.ops[0], (ast.Eq, ast.NotEq, ast.Lt, ast.Gt, ast.LtE, ast.GtE)):
                # a comparison between two values of the algebra (`kept_sign != 0`, `row_sign == kept_sign`)
                import operator as _op

                l, r = ev(e.left, env), ev(e.comparators[0], env)
                return int({ast.Eq: _op.eq, ast.NotEq: _op.ne, ast.Lt: _op.lt, ast.Gt: _op.gt, ast.LtE: _op.le, ast.GtE: _op.ge}[type(e.ops[0])](l, r))
            raise Unknown(f"`{norm_text(e)}` is not a sign test of the row or of the keep statistic")
        if isinstance(e, ast.BinOp) and isinstance(e.op, ast.Mult):
            return ev(e.left, env) * ev(e.right, env)
        if isinstance(e, ast.BinOp) and isinstance(e.op, ast.BitAnd):
            return int(bool(ev(e.left, env)) and bool(ev(e.right, env)))
        if isinstance(e, ast.BinOp) and isinstance(e.op, ast.BitOr):
            return int(bool(ev(e.left, env)) or bool(ev(e.right, env)))
        if isinstance(e, ast.BinOp) and isinstance(e.op, (ast.Add, ast.Sub)):
            l, r = ev(e.left, env), ev(e.right, env)
            return l + r if isinstance(e.op, ast.Add) else l - r
        if isinstance(e, ast.UnaryOp) and isinstance(e.op, ast.USub):
            return -ev(e.operand, env)
        if isinstance(e, ast.UnaryOp) and isinstance(e.op, (ast.Invert, ast.Not)):
            return int(not ev(e.operand, env))
        if isinstance(e, ast.Call):
            f = norm_text(e.func).split(".")[-1]
            if f == "where" and len(e.args) == 3:
                return ev(e.args[1], env) if ev(e.args[0], env) else ev(e.args[2], env)
            if f in ("logical_and", "bitwise_and") and len(e.args) == 2:
                return int(bool(ev(e.args[0], env)) and bool(ev(e.args[1], env)))
            if f in ("logical_or", "bitwise_or") and len(e.args) == 2:
                return int(bool(ev(e.args[0], env)) or bool(ev(e.args[1], env)))
            if f in ("logical_not", "bitwise_not") and len(e.args) == 1:
                return int(not ev(e.args[0], env))
            if f in ("to", "float", "double", "type", "int", "bool", "long") and isinstance(e.func, ast.Attribute):
                return ev(e.func.value, env)
            if f in ("sign", "sgn"):
                arg = e.func.value if isinstance(e.func, ast.Attribute) and not e.args else (e.args[0] if e.args else None)
                if arg is not None and norm_text(arg) == row_text:
                    return int(env["P"]) - int(env["N"])  # sign of the row entry
                if arg is not None:
                    v_ = ev(arg, env)
                    return (v_ > 0) - (v_ < 0)
        if isinstance(e, ast.Constant) and e.value in (0, 1, -1, True, False, 0.0, 1.0, -1.0):
            return int(e.value)
        raise Unknown(f"`{norm_text(e)}` is outside the recognised mask algebra")

    try:
        for A_, B_, P_, N_ in itertools.product((False, True), repeat=4):
            if (A_ and B_) or (P_ and N_):
                continue
            env = {"A": A_, "B": B_, "P": P_, "N": N_}
            got = ev(expr, env)
            want = int((A_ and P_) or (B_ and N_))
            if got not in (0, 1):
                raise Unknown(f"the expression takes the value {got} for s>U={A_}, s<U={B_}, row>0={P_}, row<0={N_}: not a mask")
            if got != want:
                return False, f"for s>U={A_}, s<U={B_}, row>0={P_}, row<0={N_} the mask is {got} instead of {want}"
    except Unknown as u:
        return None, str(u)
    except Mismatch as u:
        return False, str(u)
    return True, ""


# ------------------------------------------------------------------------------------------------ Random
def weighting_results(A, run):
    w = run.obj.fields.get("weighting") if run.obj is not None else None
    if not isinstance(w, ObjV):
        return None, []
    return w, A.interp.run_paths(lambda: A.interp.call_value(w, [matrix_value()], {}, run.cls.node, None))


def random_(index, ctx, A, by_class):
    if "Random" not in by_class:
        raise AnalysisError("anchor vanished: Random")
    run = by_class["Random"][0]
    w, res = weighting_results(A, run)
    if w is None:
        ctx.undecided("R3", "Random: weighting", "weighting object not resolved", run.cls.loc())
        return
    for r in res:
        if r.kind != "return" or not isinstance(r.value, TV):
            continue
        s = [e for e in r.events if e["kind"] == "sop" and e["sop"] not in ("reduce",)]
        ops = [e for e in r.events if e["kind"] == "op" and not any((x["loc"], x["text"]) == (e["loc"], e["text"]) for x in s)]
        ok = len(s) == 2 and s[0]["sop"] == "randn" and s[0]["axes"] == ["R"] and s[1]["sop"] == "softmax" and s[1]["axis"] == "R" and s[0]["id"] in s[1]["in_origin"] \
            and not ops and s[1]["id"] in r.value.origin and tuple(r.value.axes) == ("R",)
        ctx.require(ok, "R3", "Random: weights = softmax(randn(m)) over the rows", "softmax over R of a standard normal draw of length m",
                    f"structural ops on the weight path: {[(e['sop'], e.get('axes') or e.get('axis')) for e in s]}; further arithmetic: {[e['text'] for e in ops][:3]}", w.cls.loc())


# ------------------------------------------------------------------------------------------------ CAGrad
def cagrad(index, ctx, A, by_class):
    if "CAGrad" not in by_class:
        raise AnalysisError("anchor vanished: CAGrad")
    cls = by_class["CAGrad"][0].cls
    W_CAGRAD = _agg.weighting_of(index, "CAGrad")
    if W_CAGRAD is None:
        raise AnalysisError("anchor vanished: the weighting class CAGrad is built on")
    ctor_rule(ctx, "R4", "CAGrad", A, cls, {"c >= 0": Poly.sym("c")})
    minv = Poly.sym("m").inverse()
    seen_step = seen_zero = False
    for run in by_class["CAGrad"]:
        w, res = weighting_results(A, run)
        for r in res:
            if r.kind != "return" or not isinstance(r.value, TV):
                continue
            # the cone programme sees a full factor of the (normalised) Gramian: nothing selects a subset of the directions of its decomposition
            cut = [e for e in r.events if e["kind"] == "sop" and e["sop"] in ("slice", "narrow", "topk", "index_select", "masked_select") and _agg.in_weighting(e, W_CAGRAD)
                   and e.get("axis") == "K"]
            ctx.require(not cut, "R4", "CAGrad: the whole factorisation of the Gramian enters the cone programme", "no truncation of the decomposition",
                        f"`{cut[0]['text'] if cut else ''}` keeps only part of the singular directions: for ill-conditioned matrices whose mean lies in a dropped direction the result is no longer "
                        "at distance c·|g0| from the mean (and CAGrad(0) no longer equals the mean)", cut[0]["loc"] if cut else cls.loc(), nontrivial=False)
            adds = [e for e in r.events if e["kind"] == "op" and e["op"] == "add" and _agg.in_weighting(e, W_CAGRAD)]
            step = [e for e in adds if (e.get("left_poly") == minv and "c" in e.get("right_origin", [])) or (e.get("right_poly") == minv and "c" in e.get("left_origin", []))]
            if r.value.deg == "Z":
                seen_zero = True
                continue
            seen_step = True
            ctx.require(len(step) == 1 and "c" in r.value.origin, "R4", "CAGrad: weights = 1/m + (c·‖g0‖/‖g_w‖)·w", "uniform 1/m plus a multiple of w carrying c",
                        f"non-stationary branch does not add a c-dependent multiple of the optimiser's w to the uniform 1/m weights (additions: {[e['text'] for e in adds][:3]})",
                        step[0]["loc"] if step else cls.loc())
    # the stationarity threshold guards the division: what is compared with norm_eps is what the step is divided by
    from .C19 import _single_defs, norm_power

    hosts = list(W_CAGRAD.methods.values()) + [f for f in W_CAGRAD.module.functions.values()]
    for H in hosts:
        defs = _single_defs(H.node)
        for t in [n for n in ast.walk(H.node) if isinstance(n, ast.If) and isinstance(n.test, ast.Compare) and len(n.test.ops) == 1 and "norm_eps" in norm_text(n.test)]:
            l_, r_ = t.test.left, t.test.comparators[0]
            x = r_ if "norm_eps" in norm_text(l_) else l_
            px = norm_power(x, defs)
            divs = [d for b_ in t.body + t.orelse for d in ast.walk(b_) if isinstance(d, ast.BinOp) and isinstance(d.op, ast.Div)]
            pds = [norm_power(d.right, defs) for d in divs]
            pds = [p_ for p_ in pds if p_ is not None]
            if px is None or not pds:
                continue
            same = all(p_[0] == px[0] and abs(p_[1] - px[1]) < 1e-9 for p_ in pds)
            ctx.require(same, "R4", "CAGrad: the stationarity threshold is on the norm the step is divided by", f"`{norm_text(t.test)}` compares ||{px[0]}||^{px[1]:g}, the divisor",
                        f"`{norm_text(t.test)}` compares ||{px[0]}||^{px[1]:g} with norm_eps while the step is divided by ||{pds[0][0]}||^{pds[0][1]:g}: the branch that returns the zero vector "
                        "is taken for vectors whose norm is far above norm_eps (or not taken for some below it), so the result is not at distance c·|g0| from the mean there", H.loc(t))
    untyped = [r for run in by_class["CAGrad"] for r in weighting_results(A, run)[1] if r.kind == "return" and (not isinstance(r.value, TV) or _agg.blocking_unknowns(r))]
    if untyped and not (seen_step and seen_zero):
        u0 = _agg.blocking_unknowns(untyped[0])
        ctx.undecided("R4", "CAGrad: stationary and non-stationary branches", "a returning path of the weighting is not fully typed" + (f": {u0[0]['loc']} {u0[0].get('why', '')}" if u0 else ""), cls.loc())
    else:
        ctx.require(seen_step and seen_zero, "R4", "CAGrad: stationary and non-stationary branches", "both branches present",
                    "CAGrad no longer has both the non-stationary branch and the exact-zero stationary branch", cls.loc())


# ------------------------------------------------------------------------------------------------ MGDA
def mgda(index, ctx, A, by_class):
    cls = _agg.weighting_of(index, "MGDA")
    if cls is None:
        raise AnalysisError("anchor vanished: the weighting class MGDA is built on")
    # the solver: the method of the class that contains the optimisation loop (forward itself, or the helper it calls)
    with_loop = [f for f in cls.methods.values() if any(isinstance(n, ast.For) for n in ast.walk(f.node))]
    if not with_loop:
        # ... or a function of the module that the class calls (the solver moved out of the class)
        called = {n.func.id for m_ in cls.methods.values() for n in ast.walk(m_.node) if isinstance(n, ast.Call) and isinstance(n.func, ast.Name)}
        with_loop = [f for nm, f in cls.module.functions.items() if nm in called and any(isinstance(n, ast.For) for n in ast.walk(f.node))]
    fi = with_loop[0] if len(with_loop) == 1 else cls.lookup("forward")[1]
    ctx.analysed(fi.qualname)
    # an endless generator of iterates consumed by `zip(range(max_iters), it)` / `islice(it, max_iters)` is read as the one loop
    # that generator and consumer execute together
    from ..normalize import fuse_generators
    import copy as _copy

    from ..normalize import inline_helpers, split_tuple_assigns, split_walrus

    fused = split_walrus(fuse_generators(fi.node, fi.module, index))  # `if (c := e) <= a:` reads `c = e; if c <= a:`
    if ast.dump(fused) != ast.dump(fi.node):
        fi = _copy.copy(fi)
        fi.node = fused
    # straight-line helpers of the class / module called in the loop are read in place (`alpha, gamma = self._step(G, alpha)`)
    inl = split_tuple_assigns(inline_helpers(fi, index))
    if ast.dump(inl) != ast.dump(fi.node):
        fi = _copy.copy(fi)
        fi.node = inl
    from ..normalize import counter_while_to_for, flag_while_to_for

    fi = _copy.copy(fi)
    fi.node = counter_while_to_for(flag_while_to_for(fi.node))  # a deep copy (the rule rewrites the loop body in place when it folds idioms: never on the shared tree); `while not done and next(it, None) is not None` read as the for loop it is
    loops_ = [n for n in ast.walk(fi.node) if isinstance(n, ast.For)]
    if len(loops_) != 1:
        ctx.undecided("R5", "MGDA: Frank-Wolfe loop", f"expected one loop, found {len(loops_)}", fi.loc())
        return
    loop = loops_[0]
    # the loop makes max_iters steps: range(<something>) from 0 — `range(1, max_iters)` (or a counter started at 1) makes one step fewer, none at all
    # for max_iters = 1, and the first step is the one that is exact for two rows
    it_ = loop.iter
    if isinstance(it_, ast.Call) and isinstance(it_.func, ast.Name) and it_.func.id == "range":
        starts_at_zero = len(it_.args) == 1 or (len(it_.args) >= 2 and isinstance(it_.args[0], ast.Constant) and it_.args[0].value == 0)
        ctx.require(starts_at_zero and len(it_.args) <= 2, "R5", "MGDA: the loop makes max_iters Frank-Wolfe steps", f"`{norm_text(it_)}`",
                    f"the loop runs over `{norm_text(it_)}`: fewer steps than max_iters (with max_iters = 1 no step at all, so the uniform starting point is returned — for two rows that is the mean, "
                    "not the minimum-norm point of the segment)", _loc(fi, loop))
    all_ups = [s for s in ast.walk(loop) if isinstance(s, ast.Assign) and isinstance(s.targets[0], ast.Name) and s.targets[0].id in names_read(s.value)]
    carried = sorted({s.targets[0].id for s in all_ups})
    # the iterate must not become an alias of a buffer that the loop overwrites in place (`alpha = e_t` with `e_t.zero_()` in the next iteration)
    inplace = set()
    for s2 in ast.walk(loop):
        if isinstance(s2, ast.Call) and isinstance(s2.func, ast.Attribute) and s2.func.attr.endswith("_") and not s2.func.attr.startswith("_") and isinstance(s2.func.value, ast.Name):
            inplace.add(s2.func.value.id)
        if isinstance(s2, (ast.Assign, ast.AugAssign)):
            for t in (s2.targets if isinstance(s2, ast.Assign) else [s2.target]):
                if isinstance(t, ast.Subscript) and isinstance(t.value, ast.Name):
                    inplace.add(t.value.id)
    recreated = {s2.targets[0].id for s2 in ast.walk(loop) if isinstance(s2, ast.Assign) and isinstance(s2.targets[0], ast.Name) and isinstance(s2.value, ast.Call)}
    for s2 in ast.walk(loop):
        if isinstance(s2, ast.Assign) and isinstance(s2.targets[0], ast.Name) and s2.targets[0].id in carried and isinstance(s2.value, ast.Name) \
                and s2.value.id in inplace and s2.value.id not in recreated:
            ctx.violated("R5", f"MGDA: `{norm_text(s2)}` makes the iterate an alias of a reused buffer",
                         f"`{s2.value.id}` is allocated outside the loop and overwritten in place on the next iteration, so the iterate `{s2.targets[0].id}` silently changes with it: "
                         "the steps taken are no longer Frank-Wolfe steps and the result can be far longer than the mean", _loc(fi, s2))
            return
    ups = [s for s in loop.body if isinstance(s, ast.Assign) and isinstance(s.targets[0], ast.Name) and s.targets[0].id in names_read(s.value)]
    if len(ups) != 1:
        ctx.undecided("R5", "MGDA: update", "no single self-referential update in the loop", _loc(fi, loop))
        return
    u = ups[0]
    a = u.targets[0].id
    # the vertex kept as an index: `alpha = (1 - g) * alpha; alpha[t] += g` is alpha <- (1 - g)·alpha + g·e_t
    k_u = loop.body.index(u)
    nxt_ = loop.body[k_u + 1] if k_u + 1 < len(loop.body) else None
    if isinstance(nxt_, ast.AugAssign) and isinstance(nxt_.op, ast.Add) and isinstance(nxt_.target, ast.Subscript) and isinstance(nxt_.target.value, ast.Name) and nxt_.target.value.id == a \
            and not isinstance(nxt_.target.slice, (ast.Slice, ast.Tuple)):
        import copy as _cp2

        synth = ast.Assign(targets=[ast.Name(id=a, ctx=ast.Store())],
                           value=ast.BinOp(left=_cp2.deepcopy(u.value), op=ast.Add(), right=ast.BinOp(left=_cp2.deepcopy(nxt_.value), op=ast.Mult(), right=ast.Name(id="e__vertex", ctx=ast.Load()))))
        ast.copy_location(synth, u)
        ast.fix_missing_locations(synth)
        loop.body[k_u] = synth
        del loop.body[k_u + 1]
        u = synth
    atoms: dict = {}
    p = expr_poly(u.value, atoms)
    others = [t for t, e in atoms.items() if isinstance(e, ast.Name) and t != a]
    ok = False
    detail = f"`{norm_text(u)}`"
    if p is not None:
        for e_t in others:
            rest = p.subs(a, Poly.const(1)).subs(e_t, Poly.const(1))
            lin = all(sum(ex for s, ex in mono if s in (a, e_t)) == 1 for mono in p.terms)
            if lin and rest == Poly.const(1):
                ok = True
    ctx.require(ok, "R5", "MGDA: update is a convex step", detail + " has coefficients summing to 1",
                f"update `{norm_text(u)}` is not of the form (1-g)·alpha + g·e_t (coefficients do not sum to 1)", _loc(fi, u))
    # the closed-form step size is only used where 0 < gamma < 1 is guaranteed: a < b and a < c
    from ..cfg import cfg_of
    from .C12 import implied_conditions

    cfg = cfg_of(fi.node)
    gname = None
    step_fn = None  # (FunctionInfo, cfg) of a helper that returns the step size, when the choice is not inlined in the loop

    def has_div(e):
        """The expression is, or selects (conditional expression) among alternatives one of which is, a quotient."""
        if isinstance(e, ast.IfExp):
            return has_div(e.body) or has_div(e.orelse)
        return isinstance(e, ast.BinOp) and isinstance(e.op, ast.Div)

    for n in names_read(u.value):
        for s2 in ast.walk(loop):
            if isinstance(s2, ast.Assign) and isinstance(s2.targets[0], ast.Name) and s2.targets[0].id == n:
                if has_div(s2.value):
                    gname = n
                elif isinstance(s2.value, ast.Call):
                    f = s2.value.func
                    callee = None
                    if isinstance(f, ast.Name):
                        callee = index.resolve_name(fi.module, f.id)
                    elif isinstance(f, ast.Attribute) and isinstance(f.value, ast.Name) and f.value.id in ("self", "cls", cls.name):
                        r2 = cls.lookup(f.attr)
                        callee = r2[1] if r2 else None
                    from ..index import FunctionInfo

                    if isinstance(callee, FunctionInfo) and any(isinstance(r3, ast.Return) and r3.value is not None and has_div(r3.value) for r3 in ast.walk(callee.node)):
                        gname = n
                        step_fn = (callee, cfg_of(callee.node), s2.value)
    if gname is None:
        ctx.undecided("R5", "MGDA: step size", "closed-form step size assignment not recognised", _loc(fi, loop))
    else:
        if step_fn is None:
            scfg, sfi = cfg, fi
            sites = [(nd, nd.ast.value) for nd in cfg.stmt_nodes() if nd.kind == "stmt" and isinstance(nd.ast, ast.Assign) and isinstance(nd.ast.targets[0], ast.Name) and nd.ast.targets[0].id == gname
                     and any(nd.ast is x for x in ast.walk(loop))]
        else:
            sfi, scfg, call = step_fn
            ctx.analysed(sfi.qualname)
            sites = [(nd, nd.ast.value) for nd in scfg.stmt_nodes() if isinstance(nd.ast, ast.Return) and nd.ast.value is not None]

        def leaves(e, conds):
            """(leaf expression, [(condition, truth)]) of a tree of conditional expressions."""
            if isinstance(e, ast.IfExp):
                yield from leaves(e.body, conds + implied_conditions(e.test, "True"))
                yield from leaves(e.orelse, conds + implied_conditions(e.test, "False"))
            else:
                yield e, conds

        closed, consts = [], []
        for nd, val in sites:
            stmt_conds = []
            for t, lbl in scfg.guards_of(nd):
                if t.kind == "test" and isinstance(t.ast, ast.If):
                    stmt_conds += implied_conditions(t.ast.test, lbl)
            for leaf, conds in leaves(val, stmt_conds):
                if isinstance(leaf, ast.Constant):
                    consts.append(leaf.value)
                elif isinstance(leaf, ast.BinOp) and isinstance(leaf.op, ast.Div):
                    closed.append((nd, leaf, conds))
                else:
                    ctx.undecided("R5", "MGDA: step size", f"`{norm_text(leaf)}` is neither a constant nor the closed form", sfi.loc(nd.ast) if step_fn else _loc(fi, nd.ast))
        for nd, val, conds in closed:
            num, den = val.left, val.right
            pn, pd = expr_poly(num), expr_poly(den)
            facts = []
            for c, tr in conds:
                if isinstance(c, ast.Compare) and len(c.ops) == 1:
                    l, r = expr_poly(c.left), expr_poly(c.comparators[0])
                    if l is None or r is None:
                        continue
                    op = type(c.ops[0])
                    # normalise to "poly > 0"
                    if (op is ast.LtE and not tr) or (op is ast.Gt and tr):
                        facts.append(l - r)
                    elif (op is ast.GtE and not tr) or (op is ast.Lt and tr):
                        facts.append(r - l)
            pos_num = pn is not None and any(f == pn for f in facts)
            pos_rest = pn is not None and pd is not None and any(f == pd - pn for f in facts)
            ctx.require(pos_num and pos_rest, "R5", "MGDA: closed-form step size lies in (0, 1)", f"guards imply {pn} > 0 and {pd - pn if pd is not None and pn is not None else '?'} > 0",
                        f"`{norm_text(val)}` is used on a branch where " + ("; ".join(x for x, ok in ((f"{pn} > 0 is not guaranteed (step could be negative)", pos_num),
                                                                                                   (f"{pd - pn if pd is not None and pn is not None else '?'} > 0 is not guaranteed (step could exceed 1: the iterate leaves the simplex)", pos_rest)) if not ok)),
                        sfi.loc(nd.ast) if step_fn else _loc(fi, nd.ast), derivation={"facts": [repr(f) for f in facts]})
        ctx.require(bool(closed) and all(isinstance(c, (int, float)) and not isinstance(c, bool) and 0 <= c <= 1 for c in consts), "R5", "MGDA: constant step sizes lie in [0, 1]", f"constants {consts}",
                    f"constant step sizes {consts}" if closed else "no closed-form step size found", _loc(fi, loop))
    # early exits of the optimisation loop
    exits = [nd for nd in cfg.stmt_nodes() if isinstance(nd.ast, (ast.Break, ast.Return)) and any(nd.ast is x for x in ast.walk(loop))]
    runs = by_class.get("MGDA", [])
    scale_locs = {}
    for run in runs:
        for r in run.results:
            for e in r.events:
                if e["kind"] == "scale_branch" and e["function"].endswith(fi.qualname.split(".")[-1]):
                    scale_locs[e["loc"].rsplit(":", 1)[-1]] = e
    for nd in exits:
        for t, lbl in cfg.guards_of(nd):
            if not (t.kind == "test" and isinstance(t.ast, ast.If) and any(t.ast is x for x in ast.walk(loop))):
                continue
            consts_ = {a_.arg for a_ in fi.node.args.args} - {x.id for x in ast.walk(fi.node) if isinstance(x, ast.Name) and isinstance(x.ctx, ast.Store)}  # parameters never rebound: thresholds
            used = {n.id for n in ast.walk(t.ast.test) if isinstance(n, ast.Name)} - {"self"} - (consts_ - {gname})
            key = f"MGDA: early exit guarded by `{norm_text(t.ast.test)}`"
            step_names = {gname} | {s2.targets[0].id for s2 in ast.walk(loop) if isinstance(s2, ast.Assign) and isinstance(s2.targets[0], ast.Name)
                                    and isinstance(s2.value, ast.Name) and s2.value.id == gname}  # plain copies of the step size
            if gname is not None and used and used <= step_names:
                # the step that was just computed is taken before the loop is left: for two rows the first line search is exact, so
                # leaving with the step untaken returns the starting point instead of the minimum-norm point of the segment
                un, fn_ = cfg.node_of(u), cfg.node_of(loop)
                seen_, todo = set(), [m_ for m_, lb_ in cfg.succ[fn_] if any(m_.ast is x for x in ast.walk(loop) if m_.ast is not None)]
                while todo:
                    c_ = todo.pop()
                    if c_ in seen_ or c_ is un or c_ is fn_:
                        continue
                    seen_.add(c_)
                    todo.extend(m_ for m_, _ in cfg.succ[c_])
                zero_test = isinstance(t.ast.test, ast.Compare) and isinstance(t.ast.test.ops[0], (ast.Eq, ast.LtE)) and isinstance(t.ast.test.comparators[0], ast.Constant) \
                    and t.ast.test.comparators[0].value == 0
                if nd in seen_ and not zero_test:
                    ctx.violated("R5", key, f"the exit can fire before `{norm_text(u)[:60]}` has been executed in that iteration: the step whose size was just computed is dropped. For two "
                                 "rows the first line search is exact, so whenever its step is below the threshold the uniform starting point is returned instead of the minimum-norm point "
                                 "of the segment", _loc(fi, t.ast))
                    continue
                ctx.ok("R5", key, "exit decided by the step size alone (a dimensionless quantity), after the step was taken", _loc(fi, t.ast))
                continue
            ev = scale_locs.get(str(t.ast.lineno))
            if ev is not None:
                ctx.violated("R5", key, f"the loop stops on a test that compares a degree-{ev['left']} with a degree-{ev['right']} quantity: for a small enough scale of the matrix it "
                             "fires in the first iteration and the uniform starting point is returned instead of the minimum-norm point", _loc(fi, t.ast))
            else:
                ctx.undecided("R5", key, "exit criterion other than the step size: whether the iterate is (near-)optimal when it fires is not decided", _loc(fi, t.ast))
    # uniform start from the interpreter: first mul/div making 1/m
    init = [s for s in fi.node.body if isinstance(s, ast.Assign) and isinstance(s.targets[0], ast.Name) and s.targets[0].id == a]
    okinit = False
    if init:
        # the value the loop starts from: the last definition before the loop, with earlier definitions of the same name substituted
        # (`alpha = ones(m); alpha = alpha / m`)
        val = init[-1].value
        for prev in reversed(init[:-1]):
            class _Sub(ast.NodeTransformer):
                def visit_Name(self, n_, prev=prev):
                    return prev.value if n_.id == a and isinstance(n_.ctx, ast.Load) else n_
            import copy as _cp
            val = _Sub().visit(_cp.deepcopy(val))
        t = norm_text(val)
        okinit = "ones" in t and "/" in t
        init = [ast.copy_location(ast.Assign(targets=init[-1].targets, value=val), init[-1])]
    ctx.require(okinit, "R5", "MGDA: starts from the uniform weights", "alpha = ones(m)/m", f"initial alpha `{norm_text(init[0].value) if init else '?'}` is not ones(m)/m", _loc(fi, init[0]) if init else fi.loc())
