"""C13 — retain_graph means what it means in torch.autograd: flag plumbing and sweep order (DESIGN.md 5/C13).
What torch frees when retain_graph=False is trusted, not decided."""

from __future__ import annotations

from . import _inst, _layout, _pipe
from .C01 import atoms_of_desc


def memo_rule(index, ctx):
    """A memo is sound only if its key determines the memoised value. `if k not in d: d[k] = f(k, x)` with `x` a parameter that the key
    does not mention hands back, on a later call with another `x`, what was built for the first one. Here the differentiation callable is
    such an `x`: the sweeps before the last are bound to retain_graph=True, the last one to the caller's flag."""
    import ast

    from ..report import norm_text

    ctx.rule("R4", "no memo in the differentiation stages is keyed by less than what its value is computed from: a callable (or tensor) built from the VJP function of one sweep "
                   "is never handed to another sweep because the two agree on a number of rows")
    n = 0
    fns = list(index.all_functions("torchjd.autojac._transform"))
    for fi in fns:
        params = [a.arg for a in fi.node.args.args + fi.node.args.kwonlyargs if a.arg not in ("self", "cls")]
        for iff in [x for x in ast.walk(fi.node) if isinstance(x, ast.If)]:
            t = iff.test
            if not (isinstance(t, ast.Compare) and len(t.ops) == 1 and isinstance(t.ops[0], ast.NotIn)):
                continue
            kexp, dexp = t.left, t.comparators[0]
            st = next((b for b in iff.body if isinstance(b, ast.Assign) and len(b.targets) == 1 and isinstance(b.targets[0], ast.Subscript)
                       and norm_text(b.targets[0].value) == norm_text(dexp) and norm_text(b.targets[0].slice) == norm_text(kexp)), None)
            if st is None:
                continue
            n += 1
            knames = {x.id for x in ast.walk(kexp) if isinstance(x, ast.Name)}
            # locals the key is computed from count as named by the key
            for a_ in ast.walk(fi.node):
                if isinstance(a_, ast.Assign) and len(a_.targets) == 1 and isinstance(a_.targets[0], ast.Name) and a_.targets[0].id in knames:
                    knames |= {x.id for x in ast.walk(a_.value) if isinstance(x, ast.Name)}
            dname = next((x.id for x in ast.walk(dexp) if isinstance(x, ast.Name)), None)
            extra = sorted(({x.id for x in ast.walk(st.value) if isinstance(x, ast.Name)} & set(params)) - knames - {dname})
            key_ = f"{fi.short}: memo `{norm_text(dexp)}[{norm_text(kexp)}]`"
            if not extra:
                ctx.ok("R4", key_, "the value is computed from the key (and module-level names) only", fi.loc(st))
                continue
            shared = dname == "self" or dname not in params
            if not shared:
                # the dictionary is handed in by the callers: does one dictionary meet several values of the parameter the key leaves out?
                sites = [c for g in fns for c in ast.walk(g.node) if isinstance(c, ast.Call) and isinstance(c.func, (ast.Name, ast.Attribute))
                         and (c.func.id if isinstance(c.func, ast.Name) else c.func.attr) == fi.name]
                def arg_of(c, pname):
                    kw = next((k.value for k in c.keywords if k.arg == pname), None)
                    if kw is not None:
                        return kw
                    off = params.index(pname)
                    return c.args[off] if off < len(c.args) else None
                by_dict: dict = {}
                for c in sites:
                    d_, xs = arg_of(c, dname), tuple(norm_text(arg_of(c, p_)) if arg_of(c, p_) is not None else "?" for p_ in extra)
                    if d_ is not None:
                        by_dict.setdefault(norm_text(d_), set()).add(xs)
                shared = any(len(v) > 1 for v in by_dict.values())
                detail = "; ".join(f"`{d_}` is passed together with {sorted(v)}" for d_, v in by_dict.items() if len(v) > 1)
            else:
                detail = f"`{norm_text(dexp)}` outlives the call"
            if shared:
                ctx.violated("R4", key_, f"`{norm_text(st)[:90]}` is computed from {extra} as well, which the key `{norm_text(kexp)}` does not name ({detail}): a later call with the same key and another "
                             f"{extra[0]} receives the value built for the first — the last sweep runs the callable bound to retain_graph=True, so the graph is kept although the caller asked for it to be freed", fi.loc(st))
            else:
                ctx.ok("R4", key_, f"the dictionary never meets two values of {extra}", fi.loc(st))
    if not n:
        ctx.ok("R4", "differentiation stages", "no memo (`if k not in d: d[k] = ...`) in the transform package", "")


def sibling_signature_rule(index, ctx):
    """backward and mtl_backward are two entry points of one interface: the optional parameters they share come in the same relative order, so that
    a positional call that is right for one is right for the other (a caller who passes the flag in the position it has in mtl_backward must not
    set the chunk size of backward instead)."""
    from ..report import norm_text  # noqa: F401

    ctx.rule("R5", "the two entry points list the optional parameters they share (retain_graph, parallel_chunk_size) in the same relative order")
    b = index.find_function("torchjd.autojac.backward.backward")
    m = index.find_function("torchjd.autojac.mtl_backward.mtl_backward")
    if b is None or m is None:
        return
    def order(f):
        kwonly = {a.arg for a in f.node.args.kwonlyargs}
        return [a.arg for a in f.node.args.args if a.arg in ("retain_graph", "parallel_chunk_size")], kwonly
    ob, kb = order(b)
    om, km = order(m)
    common = [x for x in ob if x in om]
    same = common == [x for x in om if x in ob]
    ctx.require(same, "R5", "backward / mtl_backward: shared optional parameters in the same order", f"both take {common} in this order" + (f" (keyword-only: {sorted(kb | km)})" if kb | km else ""),
                f"backward takes {ob} and mtl_backward takes {om}: a positional call written for one entry point binds retain_graph to the chunk size of the other (True passes the positivity check "
                "as 1) and leaves the flag at its default — the graph is freed although the caller asked to keep it", b.loc())


def check(index, ctx):
    memo_rule(index, ctx)
    sibling_signature_rule(index, ctx)
    ctx.rule("R1", "at every torch.autograd.grad site the retain_graph argument is, by interprocedural value flow, either the entry point's own retain_graph parameter unmodified "
             "or the literal True; single-sweep differentiations (task gradients) use the parameter")
    ctx.rule("R2", "among the sweeps of one Jacobian, the last one executed carries the caller's flag and every earlier one the literal True (so retain_graph=False works for every chunk size and frees the graph exactly once, at the end)")
    ctx.rule("R3", "create_graph never derives from retain_graph")
    P, rs = _pipe.runs(index)
    n_sites = 0
    for run in rs:
        for res in _pipe.main_paths(run):
            if _pipe.blocking(res):
                e = _pipe.blocking(res)[0]
                ctx.undecided("R1", run.label, f"construct outside the analysed subset: {e['loc']} `{e['text']}`", e["loc"])
                continue
            ag = _pipe.evs(res, "autograd")
            groups: dict = {}
            for e in ag:
                groups.setdefault(tuple(atoms_of_desc(e["outputs"]) or []), []).append(e)
            for outs, es in groups.items():
                es.sort(key=lambda e: e["seq"])
                # one site in one loop activation is one sweep per iteration (the fixpoint rounds of the abstract loop repeat its event)
                last_of = {}
                for e in es:
                    last_of[(e["loc"], tuple(e.get("loops") or ()))] = e
                es = sorted(last_of.values(), key=lambda e: e["seq"])
                if len(es) == 1 and es[0].get("loop_depth", 0) > 0 and not any("[i]" in a for a in outs) and not es[0].get("vmapped"):
                    # the same tensors differentiated once per iteration of a loop: the site is its own predecessor
                    es = [es[0], es[0]]
                for e in es:
                    n_sites += 1
                    pure, const = e["retain_graph_pure"] and e["retain_graph_origin"] == ["retain_graph"], e["retain_graph_const"]
                    k = f"{_layout.short_fn(e)}: autograd.grad(retain_graph=...) differentiating {list(outs)}"
                    org = e["retain_graph_origin"] or []
                    if pure or const is True:
                        ctx.ok("R1", k, "the caller's flag or the literal True", e["loc"], derivation={"retain_graph": e["retain_graph"], "origin": org})
                    elif "retain_graph" in org and "loop-index" in org and len(es) == 1:
                        ctx.violated("R1", k, f"retain_graph={e['retain_graph']} (origin {org}) depends on the position in a loop although this graph is differentiated once: "
                                     "with retain_graph=False some of these graphs are retained (silent memory leak)", e["loc"])
                    elif "retain_graph" in org and len(es) == 1:
                        # this graph is differentiated once: the sweep must carry the caller's flag itself — combined with anything else
                        # (`retain_graph or len(features) > 1`) it keeps the graph in situations the caller did not ask for
                        others_ = sorted(set(org) - {"retain_graph"})
                        ctx.violated("R1", k, f"retain_graph={e['retain_graph']} is computed from the caller's flag AND {others_}: this graph is differentiated once, so whenever that expression is "
                                     "true although the caller passed retain_graph=False the graph is never freed (a follow-up differentiation succeeds where torch.autograd raises; memory is kept)", e["loc"])
                    elif "retain_graph" in org:
                        # e.g. `flag if <last block> else True`: ask the runs with concrete sizes which value each sweep receives
                        st_, text_, der_ = _inst.verdict(index, run.entry, "retain", chunk=bool(run.variant.get("chunk")))
                        if st_ == "ok":
                            ctx.ok("R1", k, text_, e["loc"], derivation=der_)
                        elif st_ == "violated":
                            ctx.violated("R2", f"{run.entry}: the last sweep (and only the last) carries the caller's retain_graph", text_, e["loc"], derivation=der_)
                        else:
                            ctx.undecided("R1", k, f"retain_graph is an expression derived from the caller's flag (origin {org}); its value at this sweep cannot be decided statically; " + text_, e["loc"])
                    else:
                        ctx.violated("R1", k, f"retain_graph={e['retain_graph']} (origin {org}) does not derive from the entry point's retain_graph parameter", e["loc"])
                    cg = e.get("create_graph_origin") or []
                    ctx.require("retain_graph" not in cg, "R3", f"{_layout.short_fn(e)}: create_graph", f"create_graph={e['create_graph']}",
                                "create_graph derives from retain_graph", e["loc"], nontrivial=False)
                last = es[-1]
                kk = f"{run.entry}: last sweep over {list(outs)} on path[{res.describe_path()[-70:]}]"
                if last.get("loop_depth", 0) > 0 and len(es) > 1:
                    # all sweeps happen inside one loop: each of them may be the one executed on the last iteration
                    for e in es:
                        if e["retain_graph_const"] is True and e.get("loop_depth", 0) >= last["loop_depth"]:
                            ctx.violated("R2", f"{_layout.short_fn(e)}: a sweep that may be the last one always retains the graph",
                                         f"all sweeps over {list(outs)} run inside one loop and this one is called with the literal/default retain_graph=True on some branch "
                                         "(e.g. the single-row, non-vmap branch): when it executes on the last iteration the caller's retain_graph=False is ignored and the graph is never freed", e["loc"])
                if isinstance(last.get("outputs"), dict) and "filtered" in str(last["outputs"].get("order")):
                    ctx.violated("R2", f"{run.entry}: the sweep that frees the graph covers every differentiated tensor",
                                 f"the last sweep over {list(outs)} differentiates a selection of them made by a test on the cotangents' values (`{last['text'][:50]}` receives {last['outputs']['order']}): "
                                 "with retain_graph=False the parts of the graph that only the skipped tensors reach are never freed", last["loc"])
                lp = last["retain_graph_pure"] and last["retain_graph_origin"] == ["retain_graph"]
                if not lp and last["retain_graph_const"] is None and "retain_graph" in (last["retain_graph_origin"] or []):
                    continue  # derived expression: reported (undecided / violated) under R1
                ctx.require(lp, "R2", kk if lp else f"{run.entry}: the last sweep over {list(outs)} uses the caller's retain_graph",
                            "last sweep carries the caller's flag",
                            f"the last differentiation of {list(outs)} on path [{res.describe_path()[-90:]}] runs with retain_graph={last['retain_graph']}: with retain_graph=False the graph is never freed "
                            "(silent memory leak; a later differentiation succeeds where torch.autograd would fail)", last["loc"])
                early = [e for e in es[:-1] if e["retain_graph_const"] is not True and not (e["retain_graph_const"] is None and "loop-index" in (e["retain_graph_origin"] or []))]
                ctx.require(not early, "R2", kk + " earlier sweeps" if not early else f"{run.entry}: non-final sweeps over {list(outs)} retain the graph",
                            f"{len(es) - 1} earlier sweep events use the literal True",
                            f"a non-final sweep runs with retain_graph={early[0]['retain_graph'] if early else ''}: with retain_graph=False the graph is freed before the remaining sweeps", early[0]["loc"] if early else last["loc"])
    seen_v = set()
    for run in rs:
        for res in run.results:
            for e in _pipe.evs(res, "vmap"):
                if e.get("chunk_given") and not e.get("chunk_is_dim") and (e.get("chunk_caps") or e.get("chunk_const") is not None) and e["loc"] not in seen_v:
                    seen_v.add(e["loc"])
                    cap = (e.get("chunk_caps") or [e.get("chunk_const")])[0]
                    ctx.violated("R2", f"{_layout.short_fn(e)}: one pass of the VJP callable per sweep",
                                 f"`{e['text'][:80]}` caps vmap's own chunk size at {cap}: for a last block of more than {cap} rows the VJP callable — bound to the caller's retain_graph — runs "
                                 "several times; with retain_graph=False its second pass differentiates a graph the first one freed (the call fails for such sizes)", e["loc"])
    ctx.floor("autograd.grad events inspected", n_sites, 8)
    _pipe.common_evidence(ctx, index)
    ctx.assumptions.append("what torch frees for retain_graph=False, and that an identical second call adds an identical update (C06 + C11), are not re-decided here")
