"""Order / layout coherence rules over the events of an abstract pipeline run (C01 R2-R4, C02 R2, C15)."""

from __future__ import annotations

import ast
import re

from ..report import norm_text
from ._pipe import in_stage

GOOD_MODES = ("same", "unordered", "dict-insertion")
RESHAPE_OK = re.compile(r"^(\['-1'\]|\['rows', '-1'\]|\['(rows|-1)\+shape\(.*\)'\]|\['shape\(.*\)'\])$")


def short_fn(e):
    parts = e["function"].split(".")
    return ".".join(parts[-2:]) if len(parts) >= 2 else e["function"]


def key(e):
    return f"{short_fn(e)}: {e['text']}"


def mode_of(order_repr: str | None):
    if not order_repr or order_repr == "None":
        return None
    m = re.search(r"'([^']*)'\)$", order_repr)
    return m.group(1) if m else None


class _OnlyViolations:
    """View of a context that keeps definite violations and drops everything else (used on paths the analysis abandoned)."""

    def __init__(self, ctx):
        self._ctx = ctx

    def violated(self, *a, **kw):
        return self._ctx.violated(*a, **kw)

    def require(self, cond, rule, construct, detail_ok="", detail_bad="", loc="", nontrivial=True, derivation=None):
        if not cond:
            self._ctx.violated(rule, construct, detail_bad or detail_ok, loc, derivation)
        return cond

    def ok(self, *a, **kw):
        pass

    def undecided(self, *a, **kw):
        pass


def check_layout(ctx, rule, res, only_functions=None, label="", row_order=None, only_violations=False):
    if only_violations:
        return check_layout(_OnlyViolations(ctx), rule, res, only_functions, label, row_order)
    """Emits obligations for every pack / zip / unpack / reshape event of one path. Returns counts.
    row_order: callable returning the verdict of the instance runs on 'the rows of the Jacobian come out in the order of the
    cotangents' (asked when the order of a sequence of row blocks packed along dim 0 is unknown to the symbolic run)."""
    n = 0
    seen = set()

    def once(k):
        if k in seen:
            return False
        seen.add(k)
        return True

    for e in res.events:
        k = e["kind"]
        if only_functions is not None and not any(f in e["function"] for f in only_functions):
            continue
        if k == "pack":
            md = mode_of(e["order"])
            kk = key(e)
            if not once(("pack", kk, md)):
                continue
            n += 1
            if md is None and row_order is not None and e["dim"] == 0 and e["fn"] in ("vstack", "cat", "concatenate") and in_stage(e):
                st, text, der = row_order()
                if st == "ok":
                    ctx.ok(rule, kk, text + " [the symbolic run does not know the order of this sequence of row blocks]", e["loc"], derivation=der)
                elif st == "violated":
                    ctx.violated(rule, kk, text, e["loc"], derivation=der)
                else:
                    ctx.undecided(rule, kk, f"order of the packed sequence is unknown ({e['order']}); " + text, e["loc"])
            elif md is None:
                ctx.undecided(rule, kk, f"order of the packed sequence is unknown ({e['order']})", e["loc"])
            else:
                ctx.require(md in GOOD_MODES, rule, kk, f"packs in order {e['order']}",
                            f"members are laid side by side in order {e['order']} — not the order of the key collection they are unpacked with", e["loc"],
                            derivation={"fn": e["fn"], "dim": e["dim"], "order": e["order"]})
        elif k == "zip" and "seq" in e:
            orders = [o for o in e["orders"] if "'const'" not in o]
            if len(e["orders"]) <= 1:
                continue  # one sequence: nothing is paired
            kk = key(e)
            if not once(("zip", kk, tuple(orders))):
                continue
            n += 1
            if any(o in ("None", "?") for o in orders):
                ctx.undecided(rule, kk, f"order of a zipped sequence is unknown: {orders}", e["loc"])
                continue
            same = len(set(orders)) <= 1 or all("literal-sequence" in o for o in orders)
            if not same:
                # pairing the i-th elements of two *parameters* is definitional when both are in mode 'same'
                same = all(mode_of(o) == "same" for o in orders) and e["function"].split(".")[-1] in ("mtl_backward",)
            ctx.require(same and all(mode_of(o) in GOOD_MODES for o in orders), rule, kk, f"pairs sequences in the same order {orders[0] if orders else ''}",
                        f"pairs element-wise sequences with different orders: {orders}", e["loc"], derivation={"orders": orders})
        elif k == "unpack":
            kk = key(e)
            if not once(("unpack", kk, e["layout"], e["loop_order"])):
                continue
            const_bounds = (e["lo"] in ("None",) or e.get("lo_poly") is not None) and (e["hi"] in ("None",) or e.get("hi_poly") is not None)
            prefix = (e.get("lo_note") or "").startswith("prefix-sum") or (e.get("hi_note") or "").startswith("prefix-sum")
            if e["axis"] == 0 and e["layout_how"] in (None, "stack", "vstack") and not prefix and in_stage(e):
                continue  # row-block (chunk) slicing of the cotangents: decided under C07
            if e["layout"] is None:
                chunk = set(e.get("lo_origin") or []) | set(e.get("hi_origin") or [])
                if chunk <= {"parallel_chunk_size", "tensors", "features", "len", "matrix#meta"} or const_bounds:
                    continue  # row-block arithmetic: decided under C07
                n += 1
                ctx.undecided(rule, kk, "slice of an axis whose layout is unknown", e["loc"])
                continue
            n += 1
            lo_o = e["loop_order"]
            if lo_o in (None, "None") and "literal-sequence" in e["layout"]:
                ctx.ok(rule, kk, "axis packed from a literal (concrete) sequence and sliced in the unrolled iteration over it", e["loc"], nontrivial=False)
                continue
            if lo_o in (None, "None"):
                ctx.undecided(rule, kk, f"axis laid out as {e['layout']} is sliced outside any iteration over a key collection", e["loc"])
                continue
            ok = lo_o == e["layout"] and mode_of(lo_o) in GOOD_MODES
            ctx.require(ok, rule, kk, f"slices axis {e['axis']} (layout {e['layout']}) while iterating {lo_o}",
                        f"axis {e['axis']} was laid out in order {e['layout']} ({e['layout_how']}) but is sliced while iterating {lo_o}: each key receives another key's block",
                        e["loc"], derivation={"layout": e["layout"], "iterating": lo_o})
        elif k == "reshape":
            kk = key(e)
            if not once(("reshape", kk)):
                continue
            n += 1
            desc = repr(e["shape"])
            if e.get("how") == "view" and e["shape"] == ["-1"] and not e.get("layout"):
                ctx.violated(rule, kk, f"`{e['text'][:80]}` flattens with view(-1), which only works on memory that is contiguous in its logical order: a cotangent allocated with ones_like(value), a key or "
                             "a gradient returned by autograd has the strides of the user's tensor — for a transposed / permuted one view(-1) raises RuntimeError where reshape copies", e["loc"])
            elif e.get("interleaved"):
                ctx.violated(rule, kk, f"`{e['text'][:80]}` views a vector made of blocks laid end to end as (-1, n) and takes its columns: column c holds the entries c, c + n, c + 2n, … — one "
                             "entry of every n-th position — not block c (right only when every block has a single element, or there is one block)", e["loc"])
            elif e.get("inferred_beside_numel"):
                ctx.violated(rule, kk, f"`{e['text'][:80]}` leaves one dimension to be inferred (-1) beside a number of elements: for a tensor with zero elements (an empty parameter) the -1 cannot be "
                             "inferred — torch raises 'the unspecified dimension size -1 can be any value' — where naming the number of rows works for every shape", e["loc"])
            elif e.get("how") == "as_strided":
                ctx.violated(rule, kk, f"`{e['text'][:80]}` re-reads the row-major block of values through the strides {e.get('strides')}: it equals view(shape) only for the contiguous strides of that "
                             "shape — for a non-contiguous key (a transposed weight: shape (2, 3), strides (1, 2)) entry (i, j) receives the value that belongs to another entry", e["loc"])
            elif (mt := re.match(r"^\['(rows|-1)\+shape\((.*?)\)\+(.+)'\]$", desc)) and mt.group(3) != "1" and any("pack" in l or "cat" in l or "'same'" in l for l in (e.get("layout") or [])):
                ctx.violated(rule, kk, f"`{e['text'][:80]}` views the column axis — blocks laid side by side, one per key — as (…the key's axes…, {mt.group(3)}): the index that selects the block "
                             "becomes the fastest-varying one, so each slice along it takes every n-th column of the matrix instead of one key's block (right only when there is a single block "
                             "or every key has one element)", e["loc"])
            elif RESHAPE_OK.match(desc):
                ctx.ok(rule, kk, f"row-major (un)flattening {desc}", e["loc"], nontrivial=False)
            else:
                ctx.undecided(rule, kk, f"reshape to {desc} is not one of the recognised row-major (un)flattening forms", e["loc"])
        elif k == "axis_reorder":
            n += 1
            ctx.violated(rule, key(e), f"axis-reordering operator `{e.get('what')}` inside the pipeline", e["loc"])
    return n


# ---------------------------------------------------------------------------------------------------- idioms (AST)
def running_offset_idiom(fn_node):
    """Checks `start = 0; for ... in S: end = start + W; ...[start:end]...; start = end` loops. Returns list of (loop, ok, why)."""
    out = []
    for loop in [n for n in ast.walk(fn_node) if isinstance(n, ast.For)]:
        slices = [s for s in ast.walk(loop) if isinstance(s, ast.Slice) and s.lower is not None and s.upper is not None]
        tuples = [s for s in loop.body if isinstance(s, ast.Expr) and isinstance(s.value, ast.Call) and isinstance(s.value.func, ast.Attribute) and s.value.func.attr == "append"
                  and s.value.args and isinstance(s.value.args[0], ast.Tuple) and len(s.value.args[0].elts) == 2]
        pairs = [(s.lower, s.upper) for s in slices] + [(t.value.args[0].elts[0], t.value.args[0].elts[1]) for t in tuples]
        pairs = [(a, b) for a, b in pairs if isinstance(a, ast.Name) and isinstance(b, ast.Name)]
        if not pairs:
            continue
        a, b = pairs[0]
        body = loop.body
        end_defs = [s for s in body if isinstance(s, ast.Assign) and isinstance(s.targets[0], ast.Name) and s.targets[0].id == b.id]
        start_upd = [s for s in body if isinstance(s, ast.Assign) and isinstance(s.targets[0], ast.Name) and s.targets[0].id == a.id]
        why = []
        ok = True
        if len(end_defs) != 1 or not (isinstance(end_defs[0].value, ast.BinOp) and isinstance(end_defs[0].value.op, ast.Add)
                                      and a.id in {n.id for n in ast.walk(end_defs[0].value) if isinstance(n, ast.Name)}):
            ok = False
            why.append(f"`{b.id}` is not defined as `{a.id} + width`")
        else:
            width = end_defs[0].value.right if isinstance(end_defs[0].value.left, ast.Name) and end_defs[0].value.left.id == a.id else end_defs[0].value.left
            tnames = {n.id for n in ast.walk(loop.target) if isinstance(n, ast.Name)}
            changed = True
            while changed:  # locals of the body derived from the current element
                changed = False
                for s2 in body:
                    if isinstance(s2, ast.Assign) and isinstance(s2.targets[0], ast.Name) and s2.targets[0].id not in tnames \
                            and tnames & {n.id for n in ast.walk(s2.value) if isinstance(n, ast.Name)} and s2.targets[0].id not in (a.id, b.id):
                        tnames.add(s2.targets[0].id)
                        changed = True
            if not (tnames & {n.id for n in ast.walk(width) if isinstance(n, ast.Name)}):
                ok = False
                why.append(f"width `{norm_text(width)}` is not taken from the current element")
            if body.index(end_defs[0]) > min([body.index(s) for s in body if any(x in pairs[0] for x in ast.walk(s))] or [0]):
                pass
        if len(start_upd) != 1 or not (isinstance(start_upd[0].value, ast.Name) and start_upd[0].value.id == b.id) or body.index(start_upd[0]) != len(body) - 1:
            ok = False
            why.append(f"`{a.id} = {b.id}` is not the last statement of the loop body")
        out.append((loop, ok, "; ".join(why), a.id))
    return out


def offset_initialised_to_zero(fn_node, loop, name) -> bool:
    """`name = 0` dominates the loop (straight-line statement before it in the same block)."""
    for n in ast.walk(fn_node):
        for fld in ("body", "orelse"):
            blk = getattr(n, fld, None)
            if isinstance(blk, list) and loop in blk:
                i = blk.index(loop)
                for s in reversed(blk[:i]):
                    if isinstance(s, ast.Assign) and isinstance(s.targets[0], ast.Name) and s.targets[0].id == name:
                        return isinstance(s.value, ast.Constant) and s.value.value == 0
    return False
