"""Instance runs (fallback of the row-block rules of C01 / C02 / C07 / C13 / C15).

When the symbolic reading of the chunk loop of the Jacobian stage fails — the loop is written in a form whose index
expressions the rules cannot extract (while loops with running offsets, generators with look-ahead, lists of slice
objects, ...) — the same abstract interpreter is run with CONCRETE SIZES: m rows in the stack of cotangents and
parallel_chunk_size = k, for every pair of a small grid. Tensors stay abstract (nothing of /repo is executed); what becomes
concrete is integer arithmetic on sizes, so loops over row blocks are interpreted iteration by iteration and every abstract
tensor remembers which rows [lo, hi) of the stack it carries (TV.rowspan).  One run yields, in execution order, the sweeps
(torch.autograd.grad events) with the rows of their cotangents and their retain_graph argument, and the rows of the matrix
handed to the aggregator.

The verdicts are BOUNDED (m <= 6): 'ok' means the clause holds on every pair of the grid, 'violated' carries the pair and the
sweep sequence as a witness, 'undecided' means some run lost track of the rows or met a construct outside the subset.
"""

from __future__ import annotations

import math

from . import _pipe

GRID = [(m, k) for m in range(1, 7) for k in range(1, m + 2)] + [(m, None) for m in (1, 2, 5)]
_CACHE: dict = {}


def rows_atom(entry):
    return "tensors" if entry == "backward" else "features"


def evidence(index, entry):
    """[(m, k, [path dict])] for the explicit variant of `entry`; cached per index."""
    key = (id(index), entry)
    if _CACHE and next(iter(_CACHE))[0] != id(index):
        _CACHE.clear()
    if key in _CACHE:
        return _CACHE[key]
    P, _ = _pipe.runs(index, (entry,))
    out = []
    atom = rows_atom(entry)
    for m, k in GRID:
        try:
            results = P.run_instance(entry, m, k)
        except Exception as ex:  # AnalysisError (path explosion, unsupported statement) — reported as undecided by the callers
            out.append((m, k, None, f"{type(ex).__name__}: {ex}"))
            continue
        run = _pipe.Run(entry, f"{entry}[m={m}, k={k}]", {"chunk": k is not None}, results)
        paths = []
        for res in _pipe.main_paths(run):
            sweeps = [e for e in _pipe.evs(res, "autograd") if isinstance(e.get("outputs"), dict) and atom in (e["outputs"].get("atoms") or [])]
            sweeps.sort(key=lambda e: e["seq"])
            agg = _pipe.evs(res, "aggregator_call")
            paths.append({"res": res, "sweeps": sweeps, "agg": agg, "blocking": _pipe.blocking(res)})
        out.append((m, k, paths, None))
    _CACHE[key] = out
    return out


def _rows(sp):
    return [r for lo, hi in sp for r in range(lo, hi)]


def _fmt(sweeps):
    return "[" + ", ".join(("rows " + "+".join(f"{lo}:{hi}" for lo, hi in e["rowspan"]) if isinstance(e.get("rowspan"), tuple) else "rows ?") +
                            f" retain_graph={'True' if e['retain_graph_const'] is True else ('<flag>' if e['retain_graph_pure'] else e['retain_graph'])}" for e in sweeps) + "]"


def verdict(index, entry, aspect, chunk=None):
    """aspect in {'partition', 'vmap', 'order', 'retain'} -> (status, text, derivation). chunk: True = only pairs with a chunk size,
    False = only pairs without, None = all."""
    ev = [x for x in evidence(index, entry) if chunk is None or (x[1] is not None) == chunk]
    n = 0
    for m, k, paths, err in ev:
        tag = f"m={m} rows, parallel_chunk_size={k}"
        if paths is None:
            return "undecided", f"instance run {tag} failed: {err}", {}
        keff = m if k is None else k
        tag0 = tag
        for p in paths:
            import re as _re

            free = _re.findall(r"\[(numel\([^\]]*)\]", p["res"].describe_path())
            tag = tag0 + (" and " + ", ".join(free) if free else "")
            if p["blocking"]:
                b = p["blocking"][0]
                return "undecided", f"instance run {tag}: construct outside the analysed subset: {b['loc']} `{b['text']}`", {}
            sw = p["sweeps"]
            if not sw:
                return "undecided", f"instance run {tag}: a returning path [{p['res'].describe_path()[-80:]}] differentiates nothing", {}
            n += 1
            if aspect == "partition":
                so = [e for e in _pipe.evs(p["res"], "unpack") if e.get("axis") == 0 and ("set-order" in (e.get("lo_origin") or []) or "set-order" in (e.get("hi_origin") or []))]
                if so:
                    return "violated", (f"for {tag}: the bounds of the row blocks (`{so[0]['text'][:60]}`) are read from a set of integers in iteration order, which is hash-table order, not numeric order "
                                        "(list({0, 5, 10, 12}) == [0, 10, 12, 5]): for such row counts the blocks are empty, overlapping or out of order"), {"m": m, "k": k}
                if any(not isinstance(e.get("rowspan"), tuple) for e in sw):
                    return "undecided", f"instance run {tag}: the rows carried by the cotangents of a sweep were lost: {_fmt(sw)}", {}
                blocks = [_rows(e["rowspan"]) for e in sw]
                flat = [r for b in blocks for r in b]
                bad = None
                if flat != list(range(m)):
                    bad = f"the sweeps {_fmt(sw)} do not cover rows 0..{m - 1} exactly once, in order"
                elif any(not b for b in blocks):
                    bad = f"an empty block is differentiated: {_fmt(sw)}"
                elif max(len(b) for b in blocks) > keff:
                    bad = f"sweep sizes {[len(b) for b in blocks]} contain a sweep of more than {keff} rows"
                elif len(blocks) != math.ceil(m / keff):
                    bad = f"{len(blocks)} sweeps of sizes {[len(b) for b in blocks]} instead of ceil(m/k)={math.ceil(m / keff)}"
                if bad:
                    return "violated", f"for {tag}: {bad}", {"m": m, "k": k, "sweeps": _fmt(sw)}
            elif aspect == "vmap":
                if any(not isinstance(e.get("rowspan"), tuple) for e in sw):
                    return "undecided", f"instance run {tag}: the rows carried by the cotangents of a sweep were lost: {_fmt(sw)}", {}
                for e in sw:
                    nrows = len(_rows(e["rowspan"]))
                    if nrows == 1 and e.get("vmapped"):
                        return "violated", (f"for {tag}: the sweep over rows {_rows(e['rowspan'])} has a single row but runs torch.autograd.grad under torch.vmap "
                                            f"({e['loc']}): computations that vmap cannot handle fail although differentiation could be sequential"), {"m": m, "k": k, "sweeps": _fmt(sw)}
                    if nrows > 1 and not e.get("vmapped"):
                        return "undecided", f"instance run {tag}: a sweep of {nrows} rows is not under torch.vmap ({e['loc']})", {}
            elif aspect == "vmapchunk":
                evs_ = [e for e in p["res"].events if e["kind"] == "vmap_chunk_vs_rows"]
                for e in evs_:
                    if e.get("chunk") is None or e.get("rows") is None:
                        return "undecided", f"instance run {tag}: vmap's chunk_size or the rows of the block it is applied to are not known ({e['loc']})", {}
                    if e["chunk"] < e["rows"]:
                        return "violated", (f"for {tag}: torch.vmap(chunk_size={e['chunk']}) is applied to a block of {e['rows']} rows ({e['loc']}): the VJP callable runs "
                                            f"{math.ceil(e['rows'] / e['chunk'])} times for that block — more sweeps than ceil(m/k), and with retain_graph=False the second one meets a freed graph"), \
                            {"m": m, "k": k, "chunk": e["chunk"], "rows": e["rows"]}
            elif aspect == "order":
                if len(p["agg"]) != 1:
                    return "undecided", f"instance run {tag}: {len(p['agg'])} aggregator calls on a returning path", {}
                sp = p["agg"][0].get("rowspan")
                unw = [e for e in p["res"].events if e["kind"] == "unwritten_rows"]
                if unw or (isinstance(sp, tuple) and sp and sp[0] == "buf"):
                    # a pre-allocated buffer filled block of rows by block of rows is read although some rows were never written: uninitialised memory
                    missing = unw[0]["missing"] if unw else [i for i, c in enumerate(sp[1]) if c is None]
                    return "violated", (f"for {tag}: rows {missing} of the buffer handed to the aggregator were never written (the blocks of the sweeps {_fmt(sw)} were stored over one another): "
                                        "they hold uninitialised memory"), {"m": m, "k": k, "unwritten": missing}
                if not isinstance(sp, tuple):
                    return "undecided", f"instance run {tag}: the rows of the matrix handed to the aggregator were lost", {}
                if _rows(sp) != list(range(m)):
                    return "violated", (f"for {tag}: row i of the matrix handed to the aggregator is not the Jacobian of row i of the cotangents: its rows are those of cotangent rows "
                                        f"{_rows(sp)} (sweeps {_fmt(sw)})"), {"m": m, "k": k, "rows": _rows(sp)}
            elif aspect == "retain":
                last, early = sw[-1], sw[:-1]
                if not (last["retain_graph_pure"] and last["retain_graph_origin"] == ["retain_graph"]):
                    if last["retain_graph_const"] is None and "retain_graph" in (last["retain_graph_origin"] or []):
                        return "undecided", f"instance run {tag}: the last sweep's retain_graph is an expression of the caller's flag ({last['retain_graph']})", {}
                    return "violated", (f"for {tag}: the last of the sweeps {_fmt(sw)} runs with retain_graph={last['retain_graph']}, not with the caller's flag: with retain_graph=False "
                                        "the graph is never freed"), {"m": m, "k": k, "sweeps": _fmt(sw)}
                badv = [e for e in early if e["retain_graph_const"] is not True]
                if badv:
                    if all(e["retain_graph_const"] is None and not e["retain_graph_pure"] and "retain_graph" in (e["retain_graph_origin"] or []) for e in badv):
                        return "undecided", f"instance run {tag}: a non-final sweep's retain_graph is an expression of the caller's flag", {}
                    return "violated", (f"for {tag}: a non-final sweep of {_fmt(sw)} does not retain the graph: with retain_graph=False the graph is freed before the remaining sweeps"), \
                        {"m": m, "k": k, "sweeps": _fmt(sw)}
    if n == 0:
        return "undecided", "no instance run reached a sweep", {}
    return "ok", (f"instance runs (sizes concrete, tensors abstract) on {len(ev)} (m, k) pairs, m <= 6, {n} paths: "
                  + {"partition": "the sweeps cover rows 0..m-1 exactly once, in order, in ceil(m/k) non-empty blocks of at most k rows",
                     "vmap": "every sweep of a single row calls torch.autograd.grad directly; only sweeps of more than one row run under torch.vmap",
                     "vmapchunk": "wherever torch.vmap is given a chunk_size, it is at least the number of rows of the block it is applied to",
                     "order": "row i of the matrix handed to the aggregator is the Jacobian of row i of the cotangents",
                     "retain": "every sweep but the last retains the graph; the last carries the caller's flag"}[aspect]), {"bounded": True, "pairs": len(ev), "paths": n}
