"""C14 — transform pipelines are key-typed: ill-formed ones cannot be built or run (DESIGN.md 5/C14)."""

from __future__ import annotations

import ast
import itertools

from .. import AnalysisError
from ..cfg import cfg_of, own_exprs
from ..interp import AbsRaise
from ..pipeline import PipeAnalysis
from ..pipeops import keys_list
from ..report import norm_text
from ..values import ClassV, Const, ListV, ObjV, SetV
from . import _layout, _pipe

T = "torchjd.autojac._transform"
MUTATORS = ["__setitem__", "__delitem__", "update", "pop", "clear"]


def klist(*atoms):
    from ..pipeops import key_tv

    if len(atoms) == 1:
        return keys_list(atoms[0])
    return ListV(items=None, elem=key_tv("+".join(atoms)).but(origin=frozenset(atoms)), kind="list", order=(tuple(atoms), "same"))


def _returns(fn_node):
    return [r.value for r in ast.walk(fn_node) if isinstance(r, ast.Return) and r.value is not None]


def _required_keys_exprs(cls):
    """Normalised texts of what `required_keys` of `cls` returns (plus `self.required_keys` itself)."""
    r = cls.lookup("required_keys")
    out = {"self.required_keys"}
    if r is not None:
        out |= {norm_text(v) for v in _returns(r[1].node)}
    return out


def redundant_bypass(index, base, f, call, COMPUTE="_compute"):
    """A direct `X._compute(arg)` skips `arg.check_keys_are(X.required_keys)`. It is redundant when the caller is the `_compute` of
    a transform S, `arg` is S._compute's own (never reassigned) parameter — which Transform.__call__ has just checked against
    S.required_keys — and S.required_keys equals X.required_keys for every instance of S:
      (A) S.required_keys returns X.required_keys, or
      (B) X ranges over the collection stored by S.__init__, whose every path compares each member's required_keys with its own
          and raises ValueError on a difference (a loop without break/continue/return, or an any()/all() guard)."""
    S = f.cls
    if S is None or base not in S.mro or f.name != COMPUTE or f.parent is not None:
        return "violated", "the caller is not the _compute of a transform (nothing has checked the dictionary)"
    params = [a.arg for a in f.node.args.args if a.arg not in ("self",)]
    if len(call.args) != 1 or call.keywords or not isinstance(call.args[0], ast.Name) or not params or call.args[0].id != params[0]:
        return "violated", "the argument is not the dictionary that Transform.__call__ checked (the caller's own parameter)"
    pname = params[0]
    for x in ast.walk(f.node):
        if isinstance(x, ast.Name) and x.id == pname and isinstance(x.ctx, (ast.Store, ast.Del)):
            return "undecided", f"`{pname}` is rebound inside {f.short}"
    recv = call.func.value
    mine = _required_keys_exprs(S)
    # (A)
    r = S.lookup("required_keys")
    if r is not None:
        rets = {norm_text(v) for v in _returns(r[1].node)}
        if rets and rets == {norm_text(recv) + ".required_keys"}:
            return "ok", f"(A) {S.name}.required_keys returns {norm_text(recv)}.required_keys"
    # (B)
    if not isinstance(recv, ast.Name):
        return "undecided", f"{S.name}.required_keys is not defined as {norm_text(recv)}.required_keys"
    coll = None
    for x in ast.walk(f.node):
        gens = x.generators if isinstance(x, (ast.ListComp, ast.GeneratorExp, ast.SetComp, ast.DictComp)) else ([x] if isinstance(x, ast.For) else [])
        for g in gens:
            if isinstance(g.target, ast.Name) and g.target.id == recv.id and any(y is call for y in ast.walk(x)):
                coll = norm_text(g.iter)
    if coll is None or not coll.startswith("self."):
        return "undecided", f"`{recv.id}` does not range over a collection stored on the transform"
    ini = S.lookup("__init__")
    if ini is None:
        return "undecided", f"{S.name} has no constructor enforcing equal required keys"
    inode = ini[1].node
    src_names = {coll}
    for a in ast.walk(inode):
        if isinstance(a, ast.Assign) and any(norm_text(t) == coll for t in a.targets):
            v = a.value
            if isinstance(v, ast.Call) and isinstance(v.func, ast.Name) and v.func.id in ("list", "tuple") and len(v.args) == 1:
                v = v.args[0]
            src_names.add(norm_text(v))
    writes_after = [a for a in ast.walk(inode) if isinstance(a, ast.Call) and isinstance(a.func, ast.Attribute) and norm_text(a.func.value) == coll
                    and a.func.attr in ("append", "extend", "insert", "add", "update")]
    if writes_after:
        return "undecided", f"{coll} is grown in place by the constructor"

    def differs(test, var):
        """`var.required_keys != <own required keys>` (either order)."""
        if isinstance(test, ast.UnaryOp) and isinstance(test.op, ast.Not) and isinstance(test.operand, ast.Compare) and len(test.operand.ops) == 1 and isinstance(test.operand.ops[0], ast.Eq):
            sides = {norm_text(test.operand.left), norm_text(test.operand.comparators[0])}
        elif isinstance(test, ast.Compare) and len(test.ops) == 1 and isinstance(test.ops[0], ast.NotEq):
            sides = {norm_text(test.left), norm_text(test.comparators[0])}
        else:
            return False
        return f"{var}.required_keys" in sides and bool((sides - {f"{var}.required_keys"}) & mine)

    def raises_value_error(body):
        return any(isinstance(y, ast.Raise) and "ValueError" in norm_text(y) for y in body)

    for st in inode.body:
        if isinstance(st, ast.For) and norm_text(st.iter) in src_names and isinstance(st.target, ast.Name) and not st.orelse:
            if any(isinstance(y, (ast.Break, ast.Continue, ast.Return)) for y in ast.walk(st)):
                continue
            for y in st.body:
                if isinstance(y, ast.If) and differs(y.test, st.target.id) and raises_value_error(y.body):
                    return "ok", f"(B) {S.name}.__init__ rejects any member of {coll} whose required_keys differ from its own (loop at line {st.lineno})"
        if isinstance(st, ast.If) and raises_value_error(st.body) and isinstance(st.test, ast.Call) and isinstance(st.test.func, ast.Name) and st.test.func.id == "any" \
                and len(st.test.args) == 1 and isinstance(st.test.args[0], (ast.GeneratorExp, ast.ListComp)):
            g = st.test.args[0]
            if len(g.generators) == 1 and not g.generators[0].ifs and isinstance(g.generators[0].target, ast.Name) and norm_text(g.generators[0].iter) in src_names \
                    and differs(g.elt, g.generators[0].target.id):
                return "ok", f"(B) {S.name}.__init__ rejects any member of {coll} whose required_keys differ from its own (any() guard at line {st.lineno})"
    return "undecided", f"no constructor check of {S.name} was recognised that makes every member of {coll} require the transform's own keys"


def _generic_pair_check(td, overridden):
    """Layout in which the per-pair check is ONE method of TensorDict that compares the value's shape with what a hook overridden by
    the typed subclasses says it must be: returns (name of that method, name of the hook) or None. The method must raise ValueError
    under a comparison one side of which comes from `cls.<hook>(...)` / `self.<hook>(...)`."""
    for name, f in td.methods.items():
        if name in overridden or name == "__init__":
            continue
        hooks = [x.func.attr for x in ast.walk(f.node) if isinstance(x, ast.Call) and isinstance(x.func, ast.Attribute) and isinstance(x.func.value, ast.Name)
                 and x.func.value.id in ("self", "cls") and x.func.attr in overridden]
        if len(set(hooks)) != 1:
            continue
        h = hooks[0]
        defs = {a.targets[0].id: a.value for a in ast.walk(f.node) if isinstance(a, ast.Assign) and len(a.targets) == 1 and isinstance(a.targets[0], ast.Name)}

        def from_hook(e):
            e = defs.get(e.id, e) if isinstance(e, ast.Name) else e
            return any(isinstance(x, ast.Call) and isinstance(x.func, ast.Attribute) and x.func.attr == h for x in ast.walk(e))

        hc = cfg_of(f.node)
        raises = [n for n in hc.stmt_nodes() if isinstance(n.ast, ast.Raise) and "ValueError" in norm_text(n.ast)]
        good = bool(raises) and all(any(t.kind == "test" and any(isinstance(y, ast.Compare) and len(y.ops) == 1 and isinstance(y.ops[0], (ast.Eq, ast.NotEq))
                                                              and (from_hook(y.left) != from_hook(y.comparators[0])) and ".shape" in norm_text(y) for y in ast.walk(t.ast.test))
                                        for t, _ in hc.guards_of(n)) for n in raises)
        if good:
            return name, h
    return None


def _hook_driven_checks(index, ctx, td, ini, c, sup, T, PAIR, DICT, overridden, covering, SPEC=None):
    ALLPAIRS = next((n for n, f in td.methods.items() if n not in overridden and n != "__init__" and any(
        isinstance(l, ast.For) and any(isinstance(x, ast.Call) and isinstance(x.func, ast.Attribute) and x.func.attr == PAIR for x in ast.walk(l)) for l in ast.walk(f.node))), None)
    cd = covering(DICT)
    cp = covering(ALLPAIRS) if ALLPAIRS is not None else []
    # the per-pair loop may be written in __init__ itself: `for key, value in <mapping>.items(): self._check_key_value_pair(key, value)` without early exit
    for n_ in c.nodes:
        a_ = n_.ast
        if isinstance(a_, ast.For) and "items" in norm_text(a_.iter) and not any(isinstance(x, (ast.Break, ast.Return, ast.Continue)) for x in ast.walk(a_)) \
                and any(isinstance(x, ast.Call) and isinstance(x.func, ast.Attribute) and x.func.attr == PAIR for x in ast.walk(a_)):
            cp = list(cp) + [n_]
    ok = bool(sup) and all(any(c.dominates(x, s) for x in cd) and any(c.dominates(x, s) for x in cp) for s in sup)
    ctx.require(ok, "R6", "TensorDict.__init__: checks dominate the store", f"{DICT} and the per-pair check ({ALLPAIRS or PAIR}) run on every path before super().__init__",
                f"a path reaches super().__init__(...) without running {DICT} / the check of every pair: a dictionary can exist with values whose shapes contradict its type", ini[1].loc())
    ap = td.lookup(ALLPAIRS) if ALLPAIRS is not None else None
    if ap is not None:
        loops = [n for n in ast.walk(ap[1].node) if isinstance(n, ast.For)]
        good = len(loops) == 1 and "items" in norm_text(loops[0].iter) and not any(isinstance(x, (ast.Break, ast.Return, ast.Continue)) for x in ast.walk(loops[0])) and \
            any(isinstance(x, ast.Call) and isinstance(x.func, ast.Attribute) and x.func.attr == PAIR for x in ast.walk(loops[0]))
        reporting_driver = len(loops) == 1 and "items" in norm_text(loops[0].iter) and not any(isinstance(x, (ast.Break, ast.Continue)) for x in ast.walk(loops[0])) and \
            all(isinstance(x.value, ast.Name) for x in ast.walk(loops[0]) if isinstance(x, ast.Return) and x.value is not None) and any(isinstance(x, ast.Return) for x in ast.walk(loops[0]))
        if not good and reporting_driver:
            ctx.undecided("R6", "TensorDict: the all-pairs driver visits every item", "the driver returns the first reported violation instead of letting the hook raise: a layout this rule does not read", ap[1].loc())
        else:
            ctx.require(good, "R6", "TensorDict: the all-pairs driver visits every item", "loop over items() without early exit", "the per-pair check does not visit every (key, value) pair", ap[1].loc())
    for hf in [f for f in td.module.functions.values() if any(isinstance(x, ast.Raise) and "ValueError" in norm_text(x) for x in ast.walk(f.node))]:
        for comp in [n for n in ast.walk(hf.node) if isinstance(n, (ast.ListComp, ast.SetComp, ast.GeneratorExp, ast.DictComp))]:
            filt = [g for g in comp.generators if g.ifs]
            ctx.require(not filt, "R6", f"{hf.short}: `{norm_text(comp)[:70]}` considers every value", "no filter in the comprehension",
                        f"the check skips some values (`if {norm_text(filt[0].ifs[0]) if filt else ''}`): a dictionary with such values escapes the shape rule of its type", hf.loc(comp))
        for loop in [n for n in ast.walk(hf.node) if isinstance(n, ast.For)]:
            if any(isinstance(x, ast.Continue) for x in ast.walk(loop)):
                ctx.violated("R6", f"{hf.short}: loop skips some values", "`continue` inside a shape check", hf.loc(loop))
    typed = {"Gradients": [PAIR], "Jacobians": [DICT, PAIR], "GradientVectors": [PAIR], "JacobianMatrices": [DICT, PAIR]}
    for cname, hooks in typed.items():
        cls = index.find_class(f"{T}.tensor_dict.{cname}")
        if cls is None:
            raise AnalysisError(f"anchor vanished: {cname}")
        for h in hooks:
            f = cls.methods.get(h)
            if f is None and h in cls.class_attrs:
                # `_check_dict = staticmethod(_some_module_function)` / `_check_dict = _some_module_function`
                e_ = cls.class_attrs[h]
                if isinstance(e_, ast.Call) and norm_text(e_.func) in ("staticmethod", "classmethod") and e_.args:
                    e_ = e_.args[0]
                if isinstance(e_, ast.Name) and e_.id in cls.module.functions:
                    f = cls.module.functions[e_.id]
            okh = False
            if h == PAIR and SPEC is not None:
                # the pair check is TensorDict's own comparison `value.shape != cls.<SPEC>(key, value)`: the typed class says what the shape
                # must be — on every path an expression, never None ("unconstrained")
                sf = cls.methods.get(SPEC)
                rets = [r_ for r_ in ast.walk(sf.node) if isinstance(r_, ast.Return)] if sf is not None else []
                oks = bool(rets) and all(r_.value is not None and not (isinstance(r_.value, ast.Constant) and r_.value.value is None) for r_ in rets)
                ctx.require(oks, "R6", f"{cname}.{SPEC}", f"states the shape its values must have (compared by TensorDict.{PAIR})",
                            f"{cname} does not override `{SPEC}` with a shape on every path: TensorDict.{PAIR} treats None as 'unconstrained'", cls.loc())
                continue
            if f is not None:
                # the hook (or the helpers it calls in the same module) raises ValueError under a comparison
                helpers = [f] + [cls.module.functions[n.func.id] for n in ast.walk(f.node) if isinstance(n, ast.Call) and isinstance(n.func, ast.Name) and n.func.id in cls.module.functions]
                okh = len(helpers) > 1 or any(isinstance(x, ast.Raise) for x in ast.walk(f.node))
                for hf in helpers[1:] or helpers:
                    hc = cfg_of(hf.node)
                    raises = [n for n in hc.stmt_nodes() if isinstance(n.ast, ast.Raise) and "ValueError" in norm_text(n.ast)]
                    guarded = all(any(t.kind == "test" and any(isinstance(y, ast.Compare) for y in ast.walk(t.ast.test)) for t, _ in hc.guards_of(n)) for n in raises)
                    okh = okh and bool(raises) and guarded
            reporting = f is not None and not okh and any(isinstance(r_, ast.Return) and r_.value is not None and not (isinstance(r_.value, ast.Constant) and r_.value.value is None) for r_ in ast.walk(f.node)) \
                and not any(isinstance(x, ast.Raise) for x in ast.walk(f.node))
            if reporting:
                # the hook REPORTS (returns something) instead of raising: another layout of the checks, whose obligations this rule does not express
                ctx.undecided("R6", f"{cname}.{h}", f"`{h}` returns a value instead of raising: the checks are laid out in a form this rule does not read (reporting hooks, one raise site)", cls.loc())
                continue
            ctx.require(okh, "R6", f"{cname}.{h}", "overrides the hook with ValueError guards", f"{cname} does not override `{h}` with a shape guard raising ValueError", cls.loc())
        if "__init__" in cls.methods:
            ctx.violated("R6", f"{cname}.__init__", f"{cname} overrides __init__ (the checks of TensorDict.__init__ may be skipped)", cls.loc())


def _shape_check_ok(cls, e_):
    """The table entry `e_` names a function of the module (possibly through functools.partial) every ValueError of which sits under a comparison."""
    if isinstance(e_, ast.Call) and norm_text(e_.func).split(".")[-1] == "partial" and e_.args:
        e_ = e_.args[0]
    if isinstance(e_, ast.Call) and norm_text(e_.func) in ("staticmethod",) and e_.args:
        e_ = e_.args[0]
    if not (isinstance(e_, ast.Name) and e_.id in cls.module.functions):
        return False
    hf = cls.module.functions[e_.id]
    hc = cfg_of(hf.node)
    raises = [n for n in hc.stmt_nodes() if isinstance(n.ast, ast.Raise) and "ValueError" in norm_text(n.ast)]
    return bool(raises) and all(any(t.kind == "test" and any(isinstance(y, ast.Compare) for y in ast.walk(t.ast.test)) for t, _ in hc.guards_of(n)) for n in raises)


def _whole_shape_rule(index, ctx, T):
    """Gradients / Jacobians pin the value's shape to the key's shape (all of it / all but the first axis). Scalar summaries of a shape — its
    length, its number of elements, one of its entries — cannot do that for keys with two or more axes ((2, 3) and (3, 2) agree on all
    of them). Positive witness only: violated when every comparison of the class's checks is between such scalars; ok when a
    comparison between shapes as wholes is found; undecided otherwise."""
    for cname in ("Gradients", "Jacobians", "GradientVectors", "JacobianMatrices"):
        cls = index.find_class(f"{T}.tensor_dict.{cname}")
        if cls is None:
            raise AnalysisError(f"anchor vanished: {cname}")
        mod = cls.module
        roots = [f.node for f in cls.methods.values()] + [e for e in cls.class_attrs.values() if isinstance(e, ast.AST)]
        seen, todo = {}, [n.id for r in roots for n in ast.walk(r) if isinstance(n, ast.Name) and n.id in mod.functions]
        while todo:
            nm = todo.pop()
            if nm in seen:
                continue
            seen[nm] = mod.functions[nm]
            todo += [n.id for n in ast.walk(mod.functions[nm].node) if isinstance(n, ast.Name) and n.id in mod.functions]
        inherited = {}
        for c_ in reversed([x for x in cls.mro if getattr(x, "module", None) is mod]):
            inherited.update(c_.methods)  # most derived definition wins
        for f_ in list(inherited.values()):
            for n in ast.walk(f_.node):
                if isinstance(n, ast.Name) and n.id in mod.functions and n.id not in seen:
                    seen[n.id] = mod.functions[n.id]
        # what construction runs: the methods reachable from __init__ (through self./cls. calls), with the class's own overrides
        reach, todo2 = set(), ["__init__"]
        while todo2:
            nm = todo2.pop()
            if nm in reach or nm not in inherited:
                continue
            reach.add(nm)
            todo2 += [x.func.attr for x in ast.walk(inherited[nm].node) if isinstance(x, ast.Call) and isinstance(x.func, ast.Attribute) and isinstance(x.func.value, ast.Name)
                      and x.func.value.id in ("self", "cls")]
            todo2 += [x.attr for x in ast.walk(inherited[nm].node) if isinstance(x, ast.Attribute) and isinstance(x.value, ast.Name) and x.value.id in ("self", "cls") and x.attr in inherited]
        seen = {}
        todo3 = [n.id for nm in reach for n in ast.walk(inherited[nm].node) if isinstance(n, ast.Name) and n.id in mod.functions]
        todo3 += [n.id for e in cls.class_attrs.values() if isinstance(e, ast.AST) for n in ast.walk(e) if isinstance(n, ast.Name) and n.id in mod.functions]
        for c_ in [x for x in cls.mro if getattr(x, "module", None) is mod]:
            todo3 += [n.id for e in c_.class_attrs.values() if isinstance(e, ast.AST) for n in ast.walk(e) if isinstance(n, ast.Name) and n.id in mod.functions]
        while todo3:
            nm = todo3.pop()
            if nm in seen:
                continue
            seen[nm] = mod.functions[nm]
            todo3 += [n.id for n in ast.walk(mod.functions[nm].node) if isinstance(n, ast.Name) and n.id in mod.functions]
        bodies = [inherited[nm].node for nm in sorted(reach)] + [f.node for f in seen.values()]

        def kind(e, defs, depth=0):
            """'shape' (a whole shape or a slice of one), 'scalar' (a number summarising a shape), None (something else)"""
            if depth > 4:
                return None
            if isinstance(e, ast.Attribute):
                if e.attr == "shape":
                    return "shape"
                if e.attr == "ndim":
                    return "scalar"
            if isinstance(e, ast.Call):
                f_ = e.func
                if isinstance(f_, ast.Attribute) and isinstance(f_.value, ast.Name) and f_.value.id in ("self", "cls") and f_.attr in inherited:
                    # what the class's own definition of that method returns
                    ks_ = {kind(r_.value, {}, depth + 1) for r_ in ast.walk(inherited[f_.attr].node) if isinstance(r_, ast.Return) and r_.value is not None}
                    return ks_.pop() if len(ks_) == 1 else None
                if isinstance(f_, ast.Attribute) and f_.attr == "size" and not e.args:
                    return "shape"
                if isinstance(f_, ast.Attribute) and f_.attr in ("dim", "numel", "nelement", "ndimension") or (isinstance(f_, ast.Attribute) and f_.attr == "size" and e.args):
                    return "scalar"
                if isinstance(f_, ast.Name) and f_.id == "len":
                    return "scalar"
                if isinstance(f_, ast.Name) and f_.id in ("tuple", "list") and e.args or norm_text(f_) in ("torch.Size", "Size") and e.args:
                    return kind(e.args[0], defs, depth + 1)
                if norm_text(f_) in ("math.prod", "prod") and e.args and kind(e.args[0], defs, depth + 1) == "shape":
                    return "scalar"
            if isinstance(e, ast.Subscript):
                k_ = kind(e.value, defs, depth + 1)
                if k_ == "shape":
                    return "shape" if isinstance(e.slice, ast.Slice) else "scalar"
            if isinstance(e, ast.BinOp) and isinstance(e.op, ast.Add) and "shape" in (kind(e.left, defs, depth + 1), kind(e.right, defs, depth + 1)):
                return "shape"
            if isinstance(e, ast.BinOp) and {kind(e.left, defs, depth + 1), kind(e.right, defs, depth + 1)} <= {"scalar", None} and "scalar" in (kind(e.left, defs, depth + 1), kind(e.right, defs, depth + 1)):
                return "scalar"
            if isinstance(e, ast.Constant) and isinstance(e.value, int):
                return "scalar"
            if isinstance(e, ast.Name) and len(defs.get(e.id, ())) == 1:
                return kind(defs[e.id][0], defs, depth + 1)
            if isinstance(e, ast.Name):
                return "scalar" if e.id in defs.get("__int_params__", ()) else None
            return None

        whole, scalars, other = [], [], []
        for b in bodies:
            defs = {}
            for a_ in ast.walk(b):
                if isinstance(a_, ast.Assign) and len(a_.targets) == 1 and isinstance(a_.targets[0], ast.Name):
                    defs.setdefault(a_.targets[0].id, []).append(a_.value)
            if isinstance(b, ast.FunctionDef):
                defs["__int_params__"] = [a_.arg for a_ in b.args.args + b.args.kwonlyargs if a_.annotation is not None and norm_text(a_.annotation) == "int"]
            for c_ in ast.walk(b):
                if isinstance(c_, ast.Compare) and len(c_.ops) == 1 and isinstance(c_.ops[0], (ast.Eq, ast.NotEq, ast.Lt, ast.Gt, ast.LtE, ast.GtE)):
                    ks = (kind(c_.left, defs), kind(c_.comparators[0], defs))
                    (whole if ks == ("shape", "shape") else scalars if set(ks) <= {"scalar"} else other).append(c_)
        if cname in ("GradientVectors", "JacobianMatrices"):
            # flattened forms: the NUMBER of axes is fixed (1 / 2) — by an equality on it, or by comparing the shape as a whole with a tuple
            def axes_count(e, defs):
                e = defs[e.id][0] if isinstance(e, ast.Name) and len(defs.get(e.id, ())) == 1 else e
                return (isinstance(e, ast.Call) and isinstance(e.func, ast.Attribute) and e.func.attr in ("dim", "ndimension") and not e.args) or \
                    (isinstance(e, ast.Attribute) and e.attr == "ndim") or \
                    (isinstance(e, ast.Call) and isinstance(e.func, ast.Name) and e.func.id == "len" and e.args and kind(e.args[0], defs) == "shape")

            eq_, ord_ = [], []
            tuple_cmp = []
            for b in bodies:
                defs = {}
                for a_ in ast.walk(b):
                    if isinstance(a_, ast.Assign) and len(a_.targets) == 1 and isinstance(a_.targets[0], ast.Name):
                        defs.setdefault(a_.targets[0].id, []).append(a_.value)
                for c_ in ast.walk(b):
                    if isinstance(c_, ast.Compare) and len(c_.ops) == 1:
                        sides = (c_.left, c_.comparators[0])
                        if any(axes_count(x, defs) for x in sides):
                            (eq_ if isinstance(c_.ops[0], (ast.Eq, ast.NotEq)) else ord_).append(c_)
                        if isinstance(c_.ops[0], (ast.Eq, ast.NotEq)) and any(kind(x, defs) == "shape" and not isinstance(x, ast.Subscript) for x in sides):
                            tuple_cmp.append(c_)
            key2 = f"{cname}: the number of axes of a value is fixed"
            if eq_ or tuple_cmp or whole:
                ctx.ok("R6", key2, f"`{norm_text((eq_ or tuple_cmp or whole)[0])[:70]}`", cls.loc())
            elif scalars and not other:
                w_ = ord_[0] if ord_ else scalars[0]
                ctx.violated("R6", key2, f"no check of {cname} compares the number of axes of a value for equality (`{norm_text(w_)[:60]}` {'bounds it from one side only' if ord_ else 'looks at one entry of the shape'}): "
                             f"a value with extra trailing axes — shape (6, 1) for a key of 6 elements — is accepted although {cname} holds {'vectors' if cname == 'GradientVectors' else 'matrices'}", cls.loc())
            else:
                ctx.undecided("R6", key2, "no equality on the number of axes found, and some comparisons are of a form that is not recognised", cls.loc())
            continue
        key_ = f"{cname}: the value's shape is compared with the key's shape as a whole"
        if whole:
            ctx.ok("R6", key_, f"`{norm_text(whole[0])[:70]}`", cls.loc())
        elif scalars and not other:
            ctx.violated("R6", key_, f"every comparison made by the checks of {cname} is between numbers summarising a shape ({', '.join('`' + norm_text(x)[:40] + '`' for x in scalars[:3])}): the number of "
                         "axes and the number of elements do not determine a shape — a value of shape (3, 2) passes for a key of shape (2, 3) — so a dictionary whose values contradict its type can be created", cls.loc())
        else:
            ctx.undecided("R6", key_, f"no comparison between shapes found among the checks of {cname}, and some comparisons are of a form that is not recognised "
                          f"({', '.join('`' + norm_text(x)[:40] + '`' for x in other[:3])})", cls.loc())


def _table_driven_checks(index, ctx, td, ini_f, c, sup, T) -> bool:
    """R6 when the checks of the typed dictionaries are declared as TABLES: class attributes holding tuples of check functions, which
    TensorDict.__init__ walks (the dictionary-level ones on the mapping, the per-pair ones on every item) before storing. Returns False
    when the class is not written that way."""
    tables = {n: e for n, e in td.class_attrs.items() if isinstance(e, (ast.Tuple, ast.List))}
    fn = ini_f.node
    local = {a.targets[0].id: a.value for a in ast.walk(fn) if isinstance(a, ast.Assign) and len(a.targets) == 1 and isinstance(a.targets[0], ast.Name)}

    def table_of(it):
        it = local.get(it.id, it) if isinstance(it, ast.Name) else it
        return it.attr if isinstance(it, ast.Attribute) and isinstance(it.value, ast.Name) and it.value.id in ("self", "cls") and it.attr in tables else None

    dict_loops, pair_loops = [], []
    for n_ in c.nodes:
        a_ = n_.ast
        if not isinstance(a_, ast.For) or any(isinstance(x, (ast.Break, ast.Return, ast.Continue)) for x in ast.walk(a_)):
            continue
        t_ = table_of(a_.iter)
        if t_ is not None and isinstance(a_.target, ast.Name) and any(isinstance(x, ast.Call) and isinstance(x.func, ast.Name) and x.func.id == a_.target.id and len(x.args) == 1 for x in ast.walk(a_)):
            dict_loops.append((n_, t_))
        if "items" in norm_text(a_.iter):
            for inner in [x for x in ast.walk(a_) if isinstance(x, ast.For) and x is not a_]:
                t2 = table_of(inner.iter)
                if t2 is not None and isinstance(inner.target, ast.Name) and any(isinstance(x, ast.Call) and isinstance(x.func, ast.Name) and x.func.id == inner.target.id and len(x.args) == 2 for x in ast.walk(inner)):
                    pair_loops.append((n_, t2))
    if not dict_loops or not pair_loops:
        return False
    DT, PT = dict_loops[0][1], pair_loops[0][1]
    ok = bool(sup) and all(any(c.dominates(n_, s_) for n_, _ in dict_loops) and any(c.dominates(n_, s_) for n_, _ in pair_loops) for s_ in sup)
    ctx.require(ok, "R6", "TensorDict.__init__: checks dominate the store", f"the tables self.{DT} (on the mapping) and self.{PT} (on every item) are walked on every path before super().__init__",
                "a path reaches super().__init__(...) without walking the tables of checks: a dictionary can exist with values whose shapes contradict its type", ini_f.loc())
    typed = {"Gradients": [PT], "Jacobians": [DT, PT], "GradientVectors": [PT], "JacobianMatrices": [DT, PT]}
    for cname, need in typed.items():
        cls = index.find_class(f"{T}.tensor_dict.{cname}")
        if cls is None:
            raise AnalysisError(f"anchor vanished: {cname}")
        for tname in need:
            e_ = cls.class_attrs.get(tname)
            entries = list(e_.elts) if isinstance(e_, (ast.Tuple, ast.List)) else []
            okh = bool(entries) and all(_shape_check_ok(cls, x) for x in entries)
            ctx.require(okh, "R6", f"{cname}.{tname}", f"{len(entries)} shape check(s), each raising ValueError under a comparison",
                        f"{cname} does not declare `{tname}` as a non-empty table of shape checks raising ValueError", cls.loc())
        if "__init__" in cls.methods:
            ctx.violated("R6", f"{cname}.__init__", f"{cname} overrides __init__ (the checks of TensorDict.__init__ may be skipped)", cls.loc())
    for hf in [f for f in td.module.functions.values() if any(isinstance(x, ast.Raise) and "ValueError" in norm_text(x) for x in ast.walk(f.node))]:
        for comp in [n for n in ast.walk(hf.node) if isinstance(n, (ast.ListComp, ast.SetComp, ast.GeneratorExp, ast.DictComp))]:
            filt = [g for g in comp.generators if g.ifs]
            ctx.require(not filt, "R6", f"{hf.short}: `{norm_text(comp)[:70]}` considers every value", "no filter in the comprehension",
                        f"the check skips some values (`if {norm_text(filt[0].ifs[0]) if filt else ''}`): a dictionary with such values escapes the shape rule of its type", hf.loc(comp))
    return True


def shape_guards_rule(index, ctx):
    """R8: the shape validators of the typed dictionaries compare shapes; they do not quantify over the rows of the value (a test
    `any(row.shape != key.shape for row in value)` is vacuously false for a value with zero rows, whatever its other dimensions)."""
    ctx.rule("R8", "shape validators of the typed dictionaries decide on the shapes themselves: no raise of theirs is guarded by a quantifier (any / all / loop) over the elements of the "
                   "validated tensor, which is vacuous for a tensor with a leading dimension of 0")
    mod = next((m for m in index.modules.values() if m.name.endswith("_transform.tensor_dict")), None)
    if mod is None:
        ctx.undecided("R8", "shape validators", "anchor vanished: the tensor_dict module", "")
        return
    n = 0
    for f in index.functions.values():
        if f.module is not mod:
            continue
        raises = [x for x in ast.walk(f.node) if isinstance(x, ast.Raise)]
        if not raises or not any(isinstance(x, ast.Attribute) and x.attr in ("shape", "ndim") for x in ast.walk(f.node)):
            continue
        params = {a.arg for a in f.node.args.args if a.arg not in ("self", "cls")}
        n += 1
        bad = None
        for x in ast.walk(f.node):
            gens = []
            if isinstance(x, (ast.GeneratorExp, ast.ListComp, ast.SetComp)):
                gens = [g.iter for g in x.generators]
            elif isinstance(x, ast.For):
                gens = [x.iter]
            for it in gens:
                if isinstance(it, ast.Name) and it.id in params and any(isinstance(y, ast.Attribute) and y.attr in ("shape", "ndim") for y in ast.walk(x)):
                    # iterating the tensor parameter itself (not `.items()` of a dictionary, not `.shape`)
                    ann = next((a.annotation for a in f.node.args.args if a.arg == it.id), None)
                    if ann is not None and "Tensor" in ast.unparse(ann) and "dict" not in ast.unparse(ann).lower():
                        bad = (x, it.id)
        ctx.require(bad is None, "R8", f"{f.short}: decides on shapes", "compares shape attributes directly",
                    (f"`{norm_text(bad[0])[:80]}` quantifies over the rows of `{bad[1]}`: for a value whose first dimension is 0 nothing is compared, so a value whose remaining shape "
                     "contradicts the key's is accepted") if bad else "", f.loc(bad[0]) if bad else f.loc())
    # R9: "all values have the same first dimension" is not decided by a reduction in which differences cancel
    ctx.rule("R9", "the dictionary-level check on first dimensions is not a signed reduction (sum / mean of consecutive differences telescopes to last - first: row counts (5, 6, 5) would pass)")
    n9 = 0
    for f in index.functions.values():
        if f.module is not mod or not any(isinstance(x, ast.Raise) for x in ast.walk(f.node)):
            continue
        txt = ast.unparse(f.node)
        if ".values()" not in txt or not (".shape[0]" in txt or ".size(0)" in txt or "len(" in txt):
            continue
        n9 += 1
        single = {}
        for a in ast.walk(f.node):
            if isinstance(a, ast.Assign) and len(a.targets) == 1 and isinstance(a.targets[0], ast.Name):
                single.setdefault(a.targets[0].id, []).append(a.value)

        def names_in(e, depth=0):
            out = set()
            for x in ast.walk(e):
                if isinstance(x, ast.Attribute):
                    out.add(x.attr)
                elif isinstance(x, ast.Name):
                    out.add(x.id)
                    if depth < 3 and len(single.get(x.id, [])) == 1:
                        out |= names_in(single[x.id][0], depth + 1)
                elif isinstance(x, ast.BinOp) and isinstance(x.op, ast.Pow):
                    out.add("**")
            return out

        for iff in [x for x in ast.walk(f.node) if isinstance(x, ast.If) and any(isinstance(y, ast.Raise) for b in x.body for y in ast.walk(b))]:
            ns = names_in(iff.test)
            signed = ns & {"diff", "ediff1d"} and ns & {"sum", "mean", "nansum", "fsum"}
            safe = ns & {"abs", "absolute", "square", "pow", "**", "any", "count_nonzero", "ne", "nonzero", "unique", "set", "norm", "vector_norm", "max", "min", "amax", "amin", "all"}
            ctx.require(not (signed and not safe), "R9", f"{f.short}: `{norm_text(iff.test)[:70]}`", "no signed reduction of differences",
                        "the test sums (or averages) consecutive differences of the first dimensions: the sum telescopes to last - first, so values whose first and last row counts "
                        "agree are accepted whatever lies between them (e.g. 5, 6, 5) and a dictionary whose shapes contradict its type is created", f.loc(iff))
    ctx.floor("shape validators inspected", n, 2)  # at least the per-pair and the dictionary-level validator (a single generic per-pair comparison is one)


def check(index, ctx):
    ctx.rule("R1", "the key check cannot be bypassed: Transform.__call__ runs input.check_keys_are(self.required_keys) before self._compute on every path; check_keys_are raises ValueError "
             "exactly when the key sets differ (decided under the five relations two symbolic sets can have); no subclass defines __call__; _compute is called nowhere else — except, inside the _compute of a transform, on "
             "its own checked argument for a part whose required keys provably equal the transform's own (by the definition of required_keys, or by a constructor check over all members)")
    ctx.rule("R2", "constructor rules, decided by abstract execution over symbolic key sets: Composition raises ValueError iff outer.required_keys != inner.output_keys; Conjunction raises iff "
             "some member requires different keys or two members (adjacent or not) output a common key; declared keys of both are the documented combinations")
    ctx.rule("R3", "declared = computed keys: every runtime key check executed by the real backward / mtl_backward pipelines is decided 'equal' (so each stage returned exactly its declared output keys)")
    ctx.rule("R4", "the least common ancestor of every ordered pair of dictionary types is the most specific common base (abstract execution of the real helper vs. the class table)")
    ctx.rule("R5", "TensorDict rebinds every listed mutator to a function whose every path raises; no subclass rebinds them")
    ctx.rule("R6", "TensorDict.__init__ runs the dictionary-level and the per-pair checks on every path before storing; the per-pair check visits every item; typed subclasses override the hooks with "
             "ValueError guards; EmptyTensorDict rejects non-empty input")
    base = index.get_class(f"{T}.base.Transform")
    td = index.get_class(f"{T}.tensor_dict.TensorDict")
    # ------------------------------------------------------------------------------------------------ R1
    call = base.lookup("__call__")
    if call is None or call[0] is not base:
        raise AnalysisError("anchor vanished: Transform.__call__")
    cfn = call[1]
    cfg = cfg_of(cfn.node)
    chk = cfg.nodes_containing(lambda x: isinstance(x, ast.Call) and isinstance(x.func, ast.Attribute) and x.func.attr == "check_keys_are"
                               and any("required_keys" in norm_text(a) for a in x.args))
    COMPUTE = _pipe.compute_method_name(index)
    comp = cfg.nodes_containing(lambda x: isinstance(x, ast.Call) and norm_text(x.func) == "self." + COMPUTE)
    ok = bool(chk) and bool(comp) and all(any(cfg.dominates(c, k) and c is not k for c in chk) for k in comp)
    ctx.require(ok, "R1", "Transform.__call__: key check dominates _compute", "check_keys_are(self.required_keys) precedes self._compute(input) on every path",
                "self._compute can run without (or before) input.check_keys_are(self.required_keys)", cfn.loc())
    overriders = [c for c in index.subclasses(base) if "__call__" in c.methods or "__call__" in c.aliases]
    ctx.require(not overriders, "R1", "no Transform subclass defines __call__", f"{len(index.subclasses(base))} subclasses inspected",
                f"{[c.name for c in overriders]} define their own __call__, bypassing the key check", overriders[0].loc() if overriders else base.loc())
    stray = []
    for fi in index.all_functions("torchjd"):
        if fi.qualname == cfn.qualname:
            continue
        for n in ast.walk(fi.node):
            if isinstance(n, ast.Call) and isinstance(n.func, ast.Attribute) and n.func.attr == COMPUTE and index.function_of_node(n) is None:
                stray.append((fi, n))
    seen = set()
    stray = [(f, n) for f, n in stray if id(n) not in seen and not seen.add(id(n))]
    # scenarios for check_keys_are
    P = PipeAnalysis(index)
    P.ops.strict_atoms = True
    I = P.interp
    Select = index.get_class(f"{T}.select.Select")
    Grads = index.get_class(f"{T}.tensor_dict.TensorDict")

    def make_select(keys, required):
        res = I.run_paths(lambda: I.instantiate(Select, [klist(*keys), klist(*required)], {}, Select.node, None))
        objs = [r.value for r in res if r.kind == "return"]
        return objs[0] if objs else None

    def accepts_mixed_members(S):
        """Witness search: does S([member requiring {r}, member requiring {s}]) get built?"""
        ini = S.lookup("__init__")
        ps = [a.arg for a in ini[1].node.args.args if a.arg != "self"] if ini else []
        if len(ps) != 1:
            return None
        m1, m2 = make_select(("a",), ("r", "a", "b")), make_select(("b",), ("s", "a", "b"))
        if m1 is None or m2 is None:
            return None
        res = I.run_paths(lambda: I.instantiate(S, [ListV(items=(m1, m2), kind="list")], {}, S.node, None))
        if any(e["kind"] in ("unknown", "unknown_call") for r in res for e in r.events):
            return None
        return any(r.kind == "return" for r in res)

    if not stray:
        ctx.ok("R1", "_compute is only called by Transform.__call__", "no direct call", base.loc())
    for f, n in stray:
        verdict, why = redundant_bypass(index, base, f, n, COMPUTE)
        k = f"{f.short}: `{norm_text(n)}` calls _compute directly"
        if verdict == "undecided" and f.cls is not None and accepts_mixed_members(f.cls) is True:
            verdict, why = "violated", (f"{f.cls.name}([t1, t2]) is built although t1 requires {{r,a,b}} and t2 requires {{s,a,b}}; applied to a dictionary with t1's keys, "
                                        f"t2._compute runs on keys it does not require and no ValueError is raised")
        if verdict == "ok":
            ctx.ok("R1", k + " (skipped key check is redundant)", why, f.loc(n))
        elif verdict == "violated":
            ctx.violated("R1", "_compute is only called by Transform.__call__", f"{f.short}: `{norm_text(n)}` calls _compute directly, skipping the key check: {why}", f.loc(n))
        else:
            ctx.undecided("R1", k, "the key check of Transform.__call__ is skipped and the engine could not show it redundant: " + why, f.loc(n))
    REL = {"equal": (("a",), ("a",)), "strict subset": (("a",), ("a", "b")), "strict superset": (("a", "b"), ("a",)), "overlapping": (("a", "b"), ("b", "c")), "disjoint": (("a",), ("b",))}
    from ..values import DictV
    from ..pipeops import key_tv, opaque

    for rel, (have, want) in REL.items():
        d = ObjV(td)
        d.payload = DictV(items=None, keys=klist(*have), val=opaque())
        meth = td.lookup("check_keys_are")
        from ..values import BoundV, FuncV

        res = I.run_paths(lambda: I.call_value(BoundV(FuncV(meth[1], None), d), [P.ops.to_set(klist(*want), None)], {}, td.node, None))
        raised = [r for r in res if r.kind == "raise" and r.exc.exc_name == "ValueError"]
        returned = [r for r in res if r.kind == "return"]
        good = (rel == "equal" and returned and not raised) or (rel != "equal" and raised and not returned)
        ctx.require(good, "R1", f"check_keys_are: dictionary keys {rel} to the required keys", "no raise" if rel == "equal" else "ValueError on every path",
                    f"with dictionary keys {set(have)} and required keys {set(want)} ({rel}): {len(raised)} raising / {len(returned)} returning paths", meth[1].loc())
    # ------------------------------------------------------------------------------------------------ R2 Composition
    Comp = index.get_class(f"{T}.base.Composition")
    Conj = index.get_class(f"{T}.base.Conjunction")
    for rel, (outer_req, inner_out) in REL.items():
        outer = make_select(outer_req, outer_req)
        inner = make_select(inner_out, inner_out)
        if outer is None or inner is None:
            ctx.undecided("R2", f"Composition: scenario {rel}", "could not build the Select scenario objects", Comp.loc())
            continue
        res = I.run_paths(lambda: I.instantiate(Comp, [outer, inner], {}, Comp.node, None))
        raised = [r for r in res if r.kind == "raise" and r.exc.exc_name == "ValueError"]
        built = [r for r in res if r.kind == "return"]
        good = (rel == "equal" and built and not raised) or (rel != "equal" and raised and not built)
        ctx.require(good, "R2", f"Composition(outer, inner): outer.required_keys {rel} to inner.output_keys", "built" if rel == "equal" else "rejected with ValueError",
                    f"outer requires {set(outer_req)}, inner outputs {set(inner_out)} ({rel}): {len(built)} paths build the composition, {len(raised)} raise ValueError", Comp.loc(),
                    derivation={"outer.required": sorted(outer_req), "inner.output": sorted(inner_out)})
        if rel == "equal" and built:
            c = built[0].value
            rk = I.run_paths(lambda: I.getattr(c, "required_keys", Comp.node, None))[0].value
            okk = I.run_paths(lambda: I.getattr(c, "output_keys", Comp.node, None))[0].value
            ctx.require(isinstance(rk, SetV) and isinstance(okk, SetV) and P.ops.atoms_of(rk) == frozenset(inner_out) and P.ops.atoms_of(okk) == frozenset(outer_req), "R2",
                        "Composition: required_keys = inner's, output_keys = outer's", "declared keys as documented", f"required_keys={rk!r}, output_keys={okk!r}", Comp.loc())
    # ------------------------------------------------------------------------------------------------ R2 Conjunction
    CONJ = {
        "same required keys, disjoint outputs": ([("a",), ("b",), ("c",)], [("r",)] * 3, True),
        "adjacent members output a common key": ([("a",), ("a",), ("c",)], [("r",)] * 3, False),
        "non-adjacent members output a common key": ([("a",), ("b",), ("a",)], [("r",)] * 3, False),
        "last two members overlap": ([("a",), ("b", "c"), ("c",)], [("r",)] * 3, False),
        "one member requires other keys": ([("a",), ("b",), ("c",)], [("r",), ("r",), ("s",)], False),
        "one member requires a superset": ([("a",), ("b",), ("c",)], [("r",), ("r", "s"), ("r",)], False),
        "one member listed twice (the same object)": ([("a",), ("b",), ("a",)], [("r",)] * 3, False),
    }
    for name, (outs, reqs, should_build) in CONJ.items():
        members = []
        for o, r in zip(outs, reqs):
            # outputs must be a subset of the required keys for Select: require r + o
            members.append(make_select(o, tuple(dict.fromkeys(r + o))))
        if any(m is None for m in members):
            ctx.undecided("R2", f"Conjunction: scenario {name}", "could not build members", Conj.loc())
            continue
        # make the required keys exactly `reqs` relation: Select(keys=o, required=r+o) -> required differ by o; use a uniform superset instead
        allk = tuple(dict.fromkeys(k for o in outs for k in o))
        members = [make_select(o, tuple(dict.fromkeys(r + allk))) for o, r in zip(outs, reqs)]
        if "same object" in name:
            members[-1] = members[0]  # (a collection keyed by the members themselves collapses the two)
        lst = ListV(items=tuple(members), kind="list")
        res = I.run_paths(lambda: I.instantiate(Conj, [lst], {}, Conj.node, None))
        raised = [r for r in res if r.kind == "raise" and r.exc.exc_name == "ValueError"]
        built = [r for r in res if r.kind == "return"]
        unk = [e for r in res for e in r.events if e["kind"] in ("unknown", "unknown_call")]
        if unk:
            ctx.undecided("R2", f"Conjunction: {name}", f"construct outside the analysed subset: {unk[0]['loc']} {unk[0].get('why')} `{unk[0]['text']}`", unk[0]["loc"])
            continue
        good = (should_build and built and not raised) or (not should_build and raised and not built)
        ctx.require(good, "R2", f"Conjunction: {name}", "built" if should_build else "rejected with ValueError",
                    f"members output {outs} and require {reqs}: {len(built)} paths build the conjunction, {len(raised)} raise ValueError (expected: {'built' if should_build else 'rejected'})", Conj.loc(),
                    derivation={"outputs": [list(o) for o in outs]})
        if should_build and built:
            c = built[0].value
            rk = I.run_paths(lambda: I.getattr(c, "required_keys", Conj.node, None))[0].value
            okk = I.run_paths(lambda: I.getattr(c, "output_keys", Conj.node, None))[0].value
            ctx.require(isinstance(okk, SetV) and P.ops.atoms_of(okk) == frozenset(k for o in outs for k in o), "R2", "Conjunction: output_keys is the union of the members'",
                        "union", f"output_keys={okk!r}", Conj.loc())
    # ------------------------------------------------------------------------------------------------ R2 nested terms
    # Exhaustive small scope: every term of depth <= 2 over five Select leaves and the empty conjunction. The specification is
    # evaluated on the term, the real constructors are executed abstractly on symbolic key sets, and both must agree on
    # "is built" and on the declared keys.
    LEAVES = [(("a",), ("a",)), (("b",), ("b",)), (("a",), ("a", "b")), (("b",), ("a", "b")), (("c",), ("a", "b", "c"))]

    def spec(t):
        """(valid, required, outputs) of a term ('S', keys, req) | ('J', [terms]) | ('C', outer, inner)."""
        if t[0] == "S":
            return set(t[1]) <= set(t[2]), frozenset(t[2]), frozenset(t[1])
        if t[0] == "J":
            subs = [spec(x) for x in t[1]]
            if not all(v for v, _, _ in subs):
                return False, None, None
            reqs = {r for _, r, _ in subs}
            outs = [o for _, _, o in subs]
            disjoint = sum(len(o) for o in outs) == len(frozenset().union(*outs)) if outs else True
            return len(reqs) <= 1 and disjoint, (next(iter(reqs)) if reqs else frozenset()), (frozenset().union(*outs) if outs else frozenset())
        vo, ro, oo = spec(t[1])
        vi, ri, oi = spec(t[2])
        if not (vo and vi):
            return False, None, None
        return ro == oi, ri, oo

    built_cache: dict = {}

    def build(t):
        """ObjV of a (valid) term, or None when the constructors reject it / 'unk' when the engine lost track."""
        key = repr(t)
        if key in built_cache:
            return built_cache[key]
        if t[0] == "S":
            o = make_select(t[1], t[2])
        else:
            if t[0] == "J":
                parts = [build(x) for x in t[1]]
                cls_, args_ = Conj, None
            else:
                parts = [build(t[1]), build(t[2])]
                cls_, args_ = Comp, None
            if any(p_ is None or p_ == "unk" for p_ in parts):
                o = "unk" if any(p_ == "unk" for p_ in parts) else None
                built_cache[key] = o
                return o
            args_ = [ListV(items=tuple(parts), kind="list")] if t[0] == "J" else parts
            res_ = I.run_paths(lambda: I.instantiate(cls_, args_, {}, cls_.node, None))
            if any(e["kind"] in ("unknown", "unknown_call") for r in res_ for e in r.events):
                o = "unk"
            else:
                rets = [r.value for r in res_ if r.kind == "return"]
                rais = [r for r in res_ if r.kind == "raise"]
                o = "unk" if (rets and rais) else (rets[0] if rets else None)
        built_cache[key] = o
        return o

    leaves = [("S", k_, r_) for k_, r_ in LEAVES]
    level1 = [("J", [])] + [("J", [x]) for x in leaves] + [("J", [x, y]) for x in leaves for y in leaves] + [("C", x, y) for x in leaves for y in leaves]
    pool = leaves + [t for t in level1 if spec(t)[0]]
    level2 = [("J", [x, y]) for x in pool for y in pool if x[0] != "S" or y[0] != "S"] + [("C", x, y) for x in pool for y in pool if x[0] != "S" or y[0] != "S"]
    level2 += [("J", [x, y, z]) for x in leaves[:3] for y in leaves[:4] for z in leaves]
    n_terms = n_bad = n_unk = 0
    for t in level1 + level2:
        valid, req, outs = spec(t)
        # only terms whose parts are all valid are constructible at all
        parts_ok = all(spec(x)[0] for x in (t[1] if t[0] == "J" else t[1:]))
        if not parts_ok:
            continue
        n_terms += 1
        o = build(t)

        def show(t):
            if t[0] == "S":
                return f"Select({'+'.join(t[1])} | {'+'.join(t[2])})"
            if t[0] == "J":
                return "Conjunction([" + ", ".join(show(x) for x in t[1]) + "])"
            return f"({show(t[1])} << {show(t[2])})"

        if o == "unk":
            n_unk += 1
            if n_unk <= 2:
                ctx.undecided("R2", f"nested term {show(t)}", "the abstract execution of the constructors lost track of a key set", Conj.loc())
            continue
        if (o is not None) != valid:
            n_bad += 1
            if n_bad <= 3:
                ctx.violated("R2", f"nested terms: {show(t)} is {'built' if o is not None else 'rejected'}",
                             f"by the documented rules this term is {'well-formed (required ' + str(sorted(req)) + ', outputs ' + str(sorted(outs)) + ')' if valid else 'ill-formed'}, "
                             f"but its constructor {'accepts' if o is not None else 'rejects'} it", (Conj if t[0] == "J" else Comp).loc())
            continue
        if valid:
            rk = I.run_paths(lambda: I.getattr(o, "required_keys", Conj.node, None))[0].value
            okk = I.run_paths(lambda: I.getattr(o, "output_keys", Conj.node, None))[0].value
            got_r = P.ops.atoms_of(rk) if isinstance(rk, SetV) and rk.items is None else (frozenset() if isinstance(rk, SetV) and not rk.items else None)
            got_o = P.ops.atoms_of(okk) if isinstance(okk, SetV) and okk.items is None else (frozenset() if isinstance(okk, SetV) and not okk.items else None)
            if got_r is None or got_o is None:
                n_unk += 1
                continue
            if got_r != req or got_o != outs:
                n_bad += 1
                if n_bad <= 3:
                    ctx.violated("R2", f"nested terms: declared keys of {show(t)}", f"declares required {sorted(got_r)} / outputs {sorted(got_o)}, documented: required {sorted(req)} / outputs {sorted(outs)}",
                                 (Conj if t[0] == "J" else Comp).loc())
    if n_bad == 0 and n_unk == 0:
        ctx.ok("R2", f"nested terms: {n_terms} terms of depth <= 2 (5 Select leaves, empty conjunction)", "constructors accept exactly the well-formed terms and declare the documented keys", Conj.loc())
    ctx.floor("nested transform terms enumerated", n_terms, 300)
    # ------------------------------------------------------------------------------------------------ R2 Stack
    StackC = index.find_class(f"{T}.stack.Stack")
    if StackC is not None:
        STK = {
            "members require the same keys": ([("r",), ("r",), ("r",)], True),
            "one member requires other keys": ([("r",), ("r",), ("s",)], False),
            "the first member requires a superset": ([("r", "s"), ("r",), ("r",)], False),
            "the last member requires a superset": ([("r",), ("r",), ("r", "s")], False),
            "the members' requirements grow": ([("r",), ("r", "s")], False),
        }
        for name, (reqs, should_build) in STK.items():
            members = [make_select(r, r) for r in reqs]
            if any(m is None for m in members):
                ctx.undecided("R2", f"Stack: scenario {name}", "could not build members", StackC.loc())
                continue
            lst = ListV(items=tuple(members), kind="list")
            res = I.run_paths(lambda: I.instantiate(StackC, [lst], {}, StackC.node, None))
            raised = [r for r in res if r.kind == "raise" and r.exc.exc_name == "ValueError"]
            built = [r for r in res if r.kind == "return"]
            unk = [e for r in res for e in r.events if e["kind"] in ("unknown", "unknown_call")]
            if unk:
                ctx.undecided("R2", f"Stack: {name}", f"construct outside the analysed subset: {unk[0]['loc']} {unk[0].get('why')} `{unk[0]['text']}`", unk[0]["loc"])
                continue
            good = (should_build and built and not raised) or (not should_build and raised and not built)
            ctx.require(good, "R2", f"Stack: {name}", "built" if should_build else "rejected with ValueError",
                        f"members require {reqs}: {len(built)} paths build the stack, {len(raised)} raise ValueError (expected: {'built' if should_build else 'rejected'})", StackC.loc(),
                        derivation={"required": [list(r) for r in reqs]})
    # ------------------------------------------------------------------------------------------------ R7 one-shot key collections
    ctx.rule("R7", "a transform constructor (or helper) that receives its keys as an Iterable materialises them before any other traversal: a check that walks a one-shot iterable "
                   "leaves nothing for the assignment that follows, so the declared keys would not be the ones passed")
    from .C01 import single_pass_rule

    n_iter = 0
    TERMS = ("Init", "Select", "Diagonalize", "Stack", "Conjunction", "Composition", "Accumulate")  # the transforms the property quantifies over
    for fi_ in index.all_functions(T):
        if fi_.parent is None and fi_.cls is not None and fi_.cls.name in TERMS and fi_.name == "__init__" \
                and any("Iterable" in (ast.unparse(a_.annotation) if a_.annotation is not None else "") for a_ in fi_.node.args.args):
            n_iter += 1
            single_pass_rule(ctx, index, "R7", fi_)
    ctx.floor("constructors of the quantified transforms with Iterable parameters", n_iter, 3)
    # ------------------------------------------------------------------------------------------------ R4
    dict_types = [c for c in index.classes.values() if td in c.mro]
    lca = index.find_function(f"{T}.tensor_dict._least_common_ancestor")
    if lca is None:
        raise AnalysisError("anchor vanished: _least_common_ancestor")
    from ..values import FuncV as FV

    for a, b in itertools.product(dict_types, repeat=2):
        want = next((c for c in a.mro if c in b.mro), None)
        res = I.run_paths(lambda: I.call_value(FV(lca, None), [ClassV(a), ClassV(b)], {}, lca.node, None))
        got = {r.value.cls.name if isinstance(r.value, ClassV) else repr(r.value) for r in res if r.kind == "return"}
        nonclass = [r for r in res if r.kind == "return" and not isinstance(r.value, ClassV)]
        blk = [e for r in res for e in _pipe.blocking(r)]
        if nonclass or blk:
            why = f"{blk[0]['loc']} `{blk[0]['text']}` ({blk[0].get('why', '')})" if blk else f"returned value {sorted(got)} is not a class the engine could determine"
            ctx.undecided("R4", f"_least_common_ancestor({a.name}, {b.name})", "construct outside the analysed subset: " + why, lca.loc())
            continue
        ctx.require(got == {want.name} if want else False, "R4", f"_least_common_ancestor({a.name}, {b.name})", f"= {want.name if want else '?'}",
                    f"returns {sorted(got)} but the most specific common base is {want.name if want else '?'}", lca.loc(), derivation={"mro_first": [c.name for c in a.mro]})
    ctx.floor("dictionary types", len(dict_types), 6)
    un = index.find_function(f"{T}._utils._union")
    if un is not None:
        uses = any(isinstance(n, ast.Name) and n.id == lca.name and isinstance(n.ctx, ast.Load) for n in ast.walk(un.node))  # called directly or folded with reduce()
        ctx.require(uses, "R4", "_union folds _least_common_ancestor over the member types", "uses the helper", "_union does not determine its result type with _least_common_ancestor", un.loc(), nontrivial=False)
        # ... over ALL members: an empty dictionary contributes no item but it does contribute its type
        par = un.node.args.args[0].arg if un.node.args.args else None
        srcs = [n.iter for n in ast.walk(un.node) if isinstance(n, (ast.For, ast.comprehension))] + \
               [a_ for c_ in ast.walk(un.node) if isinstance(c_, ast.Call) and norm_text(c_.func) in ("map", "reduce", "functools.reduce") for a_ in c_.args[1:]]
        srcs = [s_ for s_ in srcs if par in {x.id for x in ast.walk(s_) if isinstance(x, ast.Name)}]
        filtered = [s_ for s_ in srcs if any(isinstance(x, ast.Call) and norm_text(x.func) in ("filter", "itertools.compress", "compress", "itertools.filterfalse") for x in ast.walk(s_))
                    or any(isinstance(x, ast.comprehension) and x.ifs for x in ast.walk(s_))]
        filtered += [c_ for c_ in ast.walk(un.node) if isinstance(c_, (ast.ListComp, ast.GeneratorExp, ast.SetComp)) and any(g.ifs and par in {x.id for x in ast.walk(g.iter) if isinstance(x, ast.Name)} for g in c_.generators)]
        skips = [n for n in ast.walk(un.node) if isinstance(n, ast.For) and par in {x.id for x in ast.walk(n.iter) if isinstance(x, ast.Name)} and any(isinstance(x, ast.Continue) for x in ast.walk(n))]
        bad_ = (filtered or skips or [un.node])[0]
        ctx.require(not filtered and not skips, "R4", "_union: every member takes part in the result type", "the members are walked unfiltered",
                    f"`{norm_text(bad_)[:80]}` leaves some members out (e.g. the empty ones): their dictionary type no longer enters the least common ancestor, so the result can be "
                    "more specific than a part", un.loc(bad_) if (filtered or skips) else un.loc(), nontrivial=False)
    # the conjunction hands back what its members produced — never what it was given: the input has the type of the previous stage,
    # not the type common to the parts (for no part at all that is the bottom type, whatever came in)
    conj = index.find_class(f"{T}.base.Conjunction")
    if conj is not None:
        from . import _pipe as _pp

        cm = conj.lookup(_pp.compute_method_name(index))
        if cm is not None and cm[0] is conj:
            fn_ = cm[1]
            par_ = [a_.arg for a_ in fn_.node.args.args if a_.arg not in ("self", "cls")]
            single = {}
            for a_ in ast.walk(fn_.node):
                if isinstance(a_, ast.Assign) and len(a_.targets) == 1 and isinstance(a_.targets[0], ast.Name):
                    single.setdefault(a_.targets[0].id, []).append(a_.value)

            def is_input(e_, depth=0):
                if isinstance(e_, ast.Name):
                    if e_.id in par_ and e_.id not in single:
                        return True
                    if depth < 4 and len(single.get(e_.id, ())) == 1:
                        return is_input(single[e_.id][0], depth + 1)
                if isinstance(e_, ast.IfExp):
                    return is_input(e_.body, depth + 1) or is_input(e_.orelse, depth + 1)
                return False

            rets_ = [r_ for r_ in ast.walk(fn_.node) if isinstance(r_, ast.Return) and r_.value is not None]
            bad_r = [r_ for r_ in rets_ if is_input(r_.value)]
            ctx.require(not bad_r, "R4", "Conjunction: the result is built from what the members return", f"{len(rets_)} return statement(s), none hands the input back",
                        f"`{norm_text(bad_r[0])[:60]}` returns the dictionary the conjunction was applied to: its type is that of the previous stage (e.g. Gradients), not the most specific type "
                        "common to the parts — for a conjunction without members that is the bottom type EmptyTensorDict" if bad_r else "", fn_.loc(bad_r[0]) if bad_r else fn_.loc(), nontrivial=False)
    # ------------------------------------------------------------------------------------------------ R5
    def first_provider(cls_, mname, depth=0):
        """The class that python's attribute lookup finds `mname` in: the class itself, then its bases from left to right (the built-in
        dictionary provides every mutator)."""
        if mname in cls_.methods or mname in cls_.aliases:
            return cls_
        for b in cls_.bases if depth < 6 else ():
            if isinstance(b, str):
                if b.split(".")[-1].split("[")[0] in ("dict", "OrderedDict", "defaultdict", "UserDict", "MutableMapping"):
                    return b
                continue
            r_ = first_provider(b, mname, depth + 1)
            if r_ is not None:
                return r_
        return None

    for mname in MUTATORS:
        prov = first_provider(td, mname)
        if isinstance(prov, str):
            ctx.violated("R5", f"TensorDict.{mname}", f"`{mname}` is found in the built-in `{prov}` before any class that blocks it (the bases of a class are searched from left to right): "
                         "item assignment/deletion/update/pop/clear mutate the dictionary", td.loc())
            continue
        host = prov if prov is not None else td
        target = host.aliases.get(mname)
        fn = host.methods.get(mname) or (host.methods.get(target) if target else None) or (host.module.functions.get(target) if target else None)  # (a module-level function bound in the class body)
        if fn is None and target:
            r_ = host.lookup(target)
            fn = r_[1] if r_ is not None else None
        if fn is None:
            ctx.violated("R5", f"TensorDict.{mname}", f"TensorDict does not rebind `{mname}`: item assignment/deletion/update/pop/clear would mutate the dictionary", td.loc())
            continue
        c = cfg_of(fn.node)
        always_raises = c.exit not in c.reachable()
        ctx.require(always_raises, "R5", f"TensorDict.{mname}", f"bound to {fn.name}, every path raises", f"`{mname}` is bound to {fn.name}, which can return normally", fn.loc())
        for sub in index.subclasses(td):
            if sub.defines(mname):
                ctx.violated("R5", f"{sub.name}.{mname}", f"{sub.name} rebinds `{mname}`", sub.loc())
    # ------------------------------------------------------------------------------------------------ R6
    ini = td.lookup("__init__")
    if ini is None or ini[0] is not td:
        raise AnalysisError("anchor vanished: TensorDict.__init__")
    c = cfg_of(ini[1].node)
    sup = c.nodes_containing(lambda x: isinstance(x, ast.Call) and isinstance(x.func, ast.Attribute) and x.func.attr == "__init__" and isinstance(x.func.value, ast.Call) and norm_text(x.func.value.func) == "super")
    def always_calls(fi, name, depth=0):
        """Every path of method `fi` to its normal exit calls `name` (directly or through another method of the class)."""
        if depth > 3:
            return False
        g = cfg_of(fi.node)
        hits = g.nodes_containing(lambda x: isinstance(x, ast.Call) and isinstance(x.func, ast.Attribute) and (
            x.func.attr == name or (isinstance(x.func.value, ast.Name) and x.func.value.id in ("self", "cls") and x.func.attr in td.methods and x.func.attr != fi.name
                                    and always_calls(td.methods[x.func.attr], name, depth + 1))))
        return bool(hits) and all(any(n is h for n in p) for p in g.acyclic_paths() for h in [next((h for h in hits if h in p), None)] if True) and all(any(h in p for h in hits) for p in g.acyclic_paths())

    def covering(name):
        return c.nodes_containing(lambda x: isinstance(x, ast.Call) and isinstance(x.func, ast.Attribute) and (
            x.func.attr == name or (isinstance(x.func.value, ast.Name) and x.func.value.id in ("self", "cls") and x.func.attr in td.methods and x.func.attr != "__init__"
                                    and always_calls(td.methods[x.func.attr], name))))

    # hook roles, by what the classes do (not by their names): a hook is a TensorDict method that a typed subclass overrides;
    # the per-pair hook takes (key, value), the dictionary-level hook takes the mapping; the all-pairs driver is the TensorDict
    # method that loops over items() calling the per-pair hook
    def n_params(f):
        return len([a for a in f.node.args.args if a.arg not in ("self", "cls")])

    overridden = {n for sub in index.subclasses(td) for n in list(sub.methods) + list(sub.class_attrs) if n in td.methods and not n.startswith("__")}
    PAIR = sorted(n for n in overridden if n_params(td.methods[n]) == 2)
    DICT = sorted(n for n in overridden if n_params(td.methods[n]) == 1)
    SPEC = None
    gen_ = _generic_pair_check(td, overridden)
    if gen_ is not None and gen_[1] in PAIR:
        # one comparison in TensorDict against a per-class "expected shape" hook: the role of the per-pair check is played by that method
        PAIR = [gen_[0]] + [x for x in PAIR if x != gen_[1]]
        SPEC = gen_[1]
    if not PAIR and not DICT and _table_driven_checks(index, ctx, td, ini[1], c, sup, T):
        PAIR = DICT = None
    elif len(PAIR) != 1 or len(DICT) != 1:
        raise AnalysisError(f"anchor vanished: TensorDict hooks (per-pair candidates {PAIR}, dictionary-level candidates {DICT})")
    else:
        PAIR, DICT = PAIR[0], DICT[0]
    if PAIR is not None:
        _hook_driven_checks(index, ctx, td, ini, c, sup, T, PAIR, DICT, overridden, covering, SPEC)
    _whole_shape_rule(index, ctx, T)
    emp = index.find_class(f"{T}.tensor_dict.EmptyTensorDict")
    if emp is not None and "__init__" in emp.methods:
        f = emp.methods["__init__"]
        # the rejection may sit in __init__ or in a method of the class that __init__ calls (e.g. an override of the dictionary-level hook)
        called = [emp.methods[x.func.attr] for x in ast.walk(f.node) if isinstance(x, ast.Call) and isinstance(x.func, ast.Attribute) and isinstance(x.func.value, ast.Name)
                  and x.func.value.id in ("self", "cls", emp.name) and x.func.attr in emp.methods and x.func.attr != "__init__"]
        raises, guard_ok = [], False
        for g_ in [f] + called:
            ec = cfg_of(g_.node)
            rs_ = [n for n in ec.stmt_nodes() if isinstance(n.ast, ast.Raise) and "ValueError" in norm_text(n.ast)]
            raises += rs_
            guard_ok = guard_ok or any(("len(" in norm_text(t.ast.test) and ("!= 0" in norm_text(t.ast.test) or "> 0" in norm_text(t.ast.test))) or
                                       (isinstance(t.ast.test, ast.Name) and lbl in ("True", True))  # `if tensor_dict:` truthiness of the mapping
                                       for n in rs_ for t, lbl in ec.guards_of(n) if t.kind == "test")
        reaches_super = any(isinstance(x, ast.Call) and norm_text(x.func) == "super().__init__" for x in ast.walk(f.node))
        ctx.require(bool(raises) and guard_ok and reaches_super, "R6", "EmptyTensorDict.__init__", "rejects non-empty input and delegates to TensorDict.__init__",
                    "EmptyTensorDict does not reject a non-empty mapping with ValueError / does not reach TensorDict.__init__", f.loc())
    try:
        # ------------------------------------------------------------------------------------------------ R3
        P2, rs = _pipe.runs(index)
        n_cmp = 0
        chk = index.find_function(f"{T}.tensor_dict.TensorDict.check_keys_are")
        chk_q = chk.qualname if chk is not None else "check_keys_are"
        for run in rs:
            for res in _pipe.main_paths(run):
                for e in res.events:
                    # a key check is "decided equal" when the engine needed no case split inside it: an open decision there means the
                    # sets could differ as far as the analysis can tell
                    if e["kind"] == "set_compare" and e["function"].endswith("check_keys_are"):
                        n_cmp += 1
                        if e["equal"] is True:
                            ctx.ok("R3", f"{run.label}: runtime key check {e['left_atoms']} vs {e['right_atoms']}", "decided equal", e["loc"])
                        elif "Unk(" in e["left"] or "Unk(" in e["right"]:
                            ctx.undecided("R3", f"{run.entry}: runtime key check", f"a key set could not be determined: {e['right'][:80]} vs {e['left'][:80]}", e["loc"])
                        else:
                            ctx.violated("R3", f"{run.entry}: a stage's dictionary has keys {e['right'][:60]} but the next transform requires {e['left'][:60]}",
                                         "key sets at a runtime check of the real pipeline are not provably equal: a stage returns other keys than it declares", e["loc"])
                    elif e["kind"] == "decision" and not e.get("forced") and e["function"] == chk_q:
                        n_cmp += 1
                        cm = [x for x in res.events if x["kind"] == "set_compare" and x["function"] == chk_q and x["loc"] == e["loc"]]
                        if not cm:
                            ctx.undecided("R3", f"{run.entry}: runtime key check `{e['test']}`", "the comparison of the key sets is written in a form whose outcome the engine cannot decide", e["loc"])
        ctx.floor("runtime key checks decided in the real pipelines", n_cmp, 20)
        _pipe.common_evidence(ctx, index)
    except AnalysisError as e:
        ctx.undecided("R3", "abstract runs of the real pipelines", str(e), "")
    shape_guards_rule(index, ctx)
    ctx.analysed(*sorted(I.functions_entered))
    ctx.assumptions.append("symbolic key sets (atoms) denote non-empty, pairwise disjoint sets; algebraic clauses (associativity, commutativity) follow from the extracted constructor rules")
