"""C02 — mtl_backward(): own-task gradients for heads, aggregated Jacobian for the trunk (DESIGN.md 5/C02).
Pipeline shape, row/column order coherence, overlap rejection, single-pass iterables.  Numerical values are NOT decided."""

from __future__ import annotations

from . import _inst, _layout, _pipe
from .C01 import atoms_of_desc, materialise_rule, single_pass_rule


def atoms(run):
    t = "tasks_params[i]" if run.variant["tasks"] else "leaves(losses[i]\\features)"
    s = "shared_params" if run.variant["shared"] else "leaves(features)"
    return t, s


def sequence_forms_rule(ctx, index, entry):
    """R7: `features` and `losses` are Sequences — the same abstract run with both given as TUPLES must not end in a TypeError (list + tuple,
    a method only lists have) where the run with lists returns."""
    from dataclasses import replace as _rp

    from ..pipeline import PipeAnalysis, key_tv, keys_list
    from ..values import ListV

    ctx.rule("R7", "argument forms: with `features` and `losses` passed as tuples (the other admissible Sequence type) no path of mtl_backward raises TypeError / AttributeError")
    P = PipeAnalysis(index)
    P.ops.strict_sequence_kinds = True
    f = index.get_function("torchjd.autojac.mtl_backward.mtl_backward")
    tp = ListV(items=None, elem=keys_list("tasks_params[i]"), kind="list", order=(("tasks",), "same"))
    from ..pipeline import flag

    args = {"losses": ListV(items=None, elem=key_tv("losses[i]"), kind="tuple", order=(("tasks",), "same")), "features": _rp(keys_list("features"), kind="tuple"),
            "aggregator": P.aggregator(), "tasks_params": tp, "shared_params": keys_list("shared_params"), "retain_graph": flag("retain_graph"), "parallel_chunk_size": P.chunk_arg(False, None)}
    try:
        results = P._run(f, args)
    except Exception as ex:  # AnalysisError
        ctx.undecided("R7", "mtl_backward(features=<tuple>, losses=<tuple>)", f"{type(ex).__name__}: {ex}", entry.loc())
        return
    bad = [(r.exc.exc_name, r.exc.where) for r in results if r.kind == "raise" and r.exc.exc_name in ("TypeError", "AttributeError")]
    bad += [(e.get("exc"), e["loc"]) for r in results for e in r.events if e["kind"] in ("raise_site", "may_raise_in_loop") and e.get("exc") in ("TypeError", "AttributeError")]
    rets = [r for r in results if r.kind == "return"]
    if not bad and not rets:
        ctx.undecided("R7", "mtl_backward(features=<tuple>, losses=<tuple>)", "no returning path of the run with tuples could be followed", entry.loc())
        return
    ctx.require(not bad, "R7", "mtl_backward(features=<tuple>, losses=<tuple>)", f"{len(rets)} returning paths, no TypeError",
                (f"with `features` / `losses` given as tuples the call raises {bad[0][0]} at {bad[0][1]} (a list is concatenated with / treated like the tuple): "
                 "features may be one tensor or any sequence of tensors") if bad else "", entry.loc())


def losses_positions_rule(ctx, index, entry):
    """R6: one task per POSITION of `losses`. The same loss tensor may be listed twice (two rows); turning the losses into dictionary
    keys or set elements merges those positions (tensors hash by identity), so rows — and the parameters of the merged tasks — are lost."""
    import ast

    from ..report import norm_text

    ctx.rule("R6", "row i belongs to losses[i] for every position i: the losses are never used as dictionary keys or set elements on the way to the per-task transforms "
                   "(a loss listed twice must give two rows)")
    fn = entry.node
    lname = next((a.arg for a in fn.args.args if a.arg == "losses"), None)
    if lname is None:
        ctx.undecided("R6", "mtl_backward: positions of the losses", "no parameter named `losses`", entry.loc())
        return
    # names holding the losses or their elements (aliases, loop variables over them)
    holds = {lname}
    elems = set()
    changed = True
    while changed:
        changed = False
        for n in ast.walk(fn):
            if isinstance(n, ast.Assign) and len(n.targets) == 1 and isinstance(n.targets[0], ast.Name) and isinstance(n.value, (ast.Name, ast.Call)):
                src = n.value if isinstance(n.value, ast.Name) else (n.value.args[0] if (norm_text(n.value.func) in ("list", "tuple") and n.value.args and isinstance(n.value.args[0], ast.Name)) else None)
                if isinstance(src, ast.Name) and src.id in holds and n.targets[0].id not in holds:
                    holds.add(n.targets[0].id)
                    changed = True
            gens = n.generators if isinstance(n, (ast.ListComp, ast.SetComp, ast.DictComp, ast.GeneratorExp)) else ([n] if isinstance(n, ast.For) else [])
            for g in gens:
                it, tg = g.iter, g.target
                if isinstance(it, ast.Name) and it.id in holds and isinstance(tg, ast.Name) and tg.id not in elems:
                    elems.add(tg.id)
                    changed = True
                if isinstance(it, ast.Call) and norm_text(it.func) in ("zip", "enumerate") and isinstance(tg, ast.Tuple):
                    args = it.args if norm_text(it.func) == "zip" else [None] + list(it.args[:1])
                    for a_, t_ in zip(args, tg.elts):
                        if isinstance(a_, ast.Name) and a_.id in holds and isinstance(t_, ast.Name) and t_.id not in elems:
                            elems.add(t_.id)
                            changed = True
    bad = None
    for n in ast.walk(fn):
        if isinstance(n, ast.Call):
            f = norm_text(n.func)
            if f in ("dict", "OrderedDict", "collections.OrderedDict") and n.args and isinstance(n.args[0], ast.Call) and norm_text(n.args[0].func) == "zip" and n.args[0].args \
                    and isinstance(n.args[0].args[0], ast.Name) and n.args[0].args[0].id in holds:
                bad = n
            if f in ("set", "frozenset", "dict.fromkeys", "OrderedDict.fromkeys", "collections.OrderedDict.fromkeys") and n.args and isinstance(n.args[0], ast.Name) and n.args[0].id in holds:
                bad = n
        if isinstance(n, ast.DictComp) and isinstance(n.key, ast.Name) and n.key.id in elems:
            bad = n
        if isinstance(n, ast.SetComp) and isinstance(n.elt, ast.Name) and n.elt.id in elems:
            bad = n
        if isinstance(n, ast.Assign) and isinstance(n.targets[0], ast.Subscript) and isinstance(n.targets[0].slice, ast.Name) and n.targets[0].slice.id in elems:
            bad = n
    ctx.require(bad is None, "R6", "mtl_backward: one task per position of `losses`", "the losses are walked as a sequence (zip / enumerate / index), never keyed",
                f"`{norm_text(bad)[:90] if bad is not None else ''}` makes the losses dictionary keys / set elements: a loss tensor listed at two positions yields one entry, so a row of the "
                "feature-level Jacobian and the parameters of one of the two tasks are silently dropped", entry.loc(bad) if bad is not None else entry.loc())


def check(index, ctx):
    ctx.rule("R1", "on every non-empty returning path: each task differentiates exactly its own loss w.r.t. its own parameters + the features and accumulates only its own parameters; "
             "the per-task feature gradients are stacked along dim 0 in the order of `losses`; the shared Jacobian differentiates exactly the features w.r.t. exactly the shared parameters; "
             "the aggregator is applied once, after all sweeps, and only then are the shared parameters accumulated")
    ctx.rule("R2", "order/layout coherence of every pack / zip / slice site (row i belongs to losses[i]; column blocks belong to their own parameter)")
    ctx.rule("R3", "the overlap check between shared and task parameters runs before anything is differentiated or written and rejects with ValueError")
    ctx.rule("R4", "allow_unused + zero materialisation at every differentiation; absent keys in a task's gradients become zeros")
    ctx.rule("R5", "parameters annotated Iterable[...] are materialised before any other traversal")
    entry = index.get_function("torchjd.autojac.mtl_backward.mtl_backward")
    P, rs = _pipe.runs(index, ("mtl_backward",))
    n_main = 0
    for run in rs:
        ta, sa = atoms(run)
        mains = _pipe.main_paths(run)
        if not mains:
            ctx.undecided("R1", run.label, "no non-empty returning path", entry.loc())
        # coverage on EVERY returning path: a collection that the path did not find empty receives its .grad, whatever the other one is
        for res in run.returning():
            if _pipe.blocking(res):
                continue
            empties = _pipe.empty_atoms(res)
            written = {a for e in _pipe.evs(res, "grad_write") for a in e["target"]}
            for atom_, what in ((ta, "task-specific"), (sa, "shared")):
                if atom_ in empties or atom_ in written:
                    continue
                ctx.violated("R1", f"{run.entry}: {what} parameters {atom_} receive no .grad on a returning path",
                             f"path [{res.describe_path()[-120:]}] returns without writing the .grad of {atom_} although nothing on it says that collection is empty "
                             f"(collections found empty on this path: {sorted(empties) or 'none'})", entry.loc())
        for res in mains:
            n_main += 1
            key = f"{run.label} path[{res.describe_path()[-100:]}]"
            blk = _pipe.blocking(res)
            if blk:
                ctx.undecided("R1", key, "constructs outside the analysed subset: " + "; ".join(f"{e['loc']} {e.get('why', e.get('name', ''))} `{e['text']}`" for e in blk[:3]), entry.loc())
                continue
            ag = _pipe.evs(res, "autograd")
            task_ag = [e for e in ag if atoms_of_desc(e["outputs"]) == ["losses[i]"]]
            jac_ag = [e for e in ag if atoms_of_desc(e["outputs"]) == ["features"]]
            other = [e for e in ag if e not in task_ag and e not in jac_ag]
            agg = _pipe.evs(res, "aggregator_call")
            for _b in _pipe.evs(res, "aggregator_bypass"):
                ctx.violated("R1", f"{_layout.short_fn(_b)}: aggregator applied through forward()", "the aggregator's forward() is called directly instead of aggregator(matrix): hooks registered on the aggregator (nn.Module.__call__) are skipped, so what is deposited is not aggregator(J)", _b["loc"])
            gw = _pipe.evs(res, "grad_write")
            gw_task = [e for e in gw if e["target"] == [ta]]
            gw_sh = [e for e in gw if e["target"] == [sa]]
            gw_other = [e for e in gw if e not in gw_task and e not in gw_sh]
            st = [e for e in _pipe.evs(res, "pack") if e["fn"] == "stack" and not _pipe.in_stage(e)]  # (row blocks re-assembled inside the Jacobian stage are C07's)
            problems = []
            if other:
                problems.append(f"{other[0]['loc']}: a differentiation of {atoms_of_desc(other[0]['outputs'])} that is neither a task loss nor the features")
            if not task_ag:
                problems.append("no task differentiates its loss on this path")
            for e in task_ag:
                if sorted(atoms_of_desc(e["inputs"]) or []) != sorted([ta, "features"]):
                    problems.append(f"{e['loc']}: task gradient taken w.r.t. {atoms_of_desc(e['inputs'])}, expected its own parameters + the features")
            if not jac_ag:
                problems.append("the features are never differentiated w.r.t. the shared parameters")
            for e in jac_ag:
                if atoms_of_desc(e["inputs"]) != [sa]:
                    problems.append(f"{e['loc']}: shared Jacobian taken w.r.t. {atoms_of_desc(e['inputs'])}, expected [{sa}]")
                if isinstance(e["grad_outputs"], dict) and isinstance(e["outputs"], dict) and e["grad_outputs"]["order"] != e["outputs"]["order"]:
                    problems.append(f"{e['loc']}: features in order {e['outputs']['order']} but stacked cotangents in order {e['grad_outputs']['order']}")
            if not gw_task:
                problems.append("task-specific parameters receive no .grad on this path")
            if not gw_sh:
                problems.append("shared parameters receive no .grad on this path")
            if gw_other:
                problems.append(f"{gw_other[0]['loc']}: .grad written on {gw_other[0]['target']}")
            if len(agg) != 1:
                problems.append(f"the aggregator is applied {len(agg)} times (expected once, to the united shared Jacobian)")
            if len(st) < 1 or any(e["dim"] != 0 or "'same'" not in (e["order"] or "") or "tasks" not in (e["order"] or "") for e in st):
                problems.append("per-task feature gradients are not stacked along dim 0 in the order of the losses: " + "; ".join(f"stack(dim={e['dim']}, order={e['order']})" for e in st))
            if agg and jac_ag and gw_sh and task_ag and gw_task and st:
                if not (max(e["seq"] for e in task_ag) < min(e["seq"] for e in st) <= max(e["seq"] for e in st) < min(e["seq"] for e in jac_ag)
                        and max(e["seq"] for e in jac_ag) < agg[0]["seq"] < min(e["seq"] for e in gw_sh)):
                    problems.append("stages are not ordered tasks -> stack -> shared Jacobian -> aggregate -> accumulate shared")
                if sa not in (agg[0]["column_layout"] or ""):
                    problems.append(f"aggregated columns laid out as {agg[0]['column_layout']}, not over [{sa}]")
            ctx.require(not problems, "R1", key if not problems else f"mtl_backward: pipeline stages ({problems[0][:90]})",
                        f"{len(task_ag)} task sweep site(s), stack over tasks, {len(jac_ag)} shared sweeps, 1 aggregation, accumulate", "; ".join(problems[:4]), entry.loc(),
                        derivation={"task_autograd": len(task_ag), "jac_autograd": len(jac_ag), "grad_writes": len(gw)})
            if problems:
                continue
            _layout.check_layout(ctx, "R2", res, row_order=lambda run=run: _inst.verdict(index, run.entry, "order", chunk=bool(run.variant.get("chunk"))))
            materialise_rule(ctx, res, "R4", entry)
            # R3 overlap check first
            ov = [e for e in _pipe.evs(res, "set_op") if e["op"] in ("BitAnd", "In") and {tuple(e["left"]), tuple(e["right"])} == {(ta,), (sa,)}]
            first = min(e["seq"] for e in ag + gw)
            ctx.require(bool(ov) and ov[0]["seq"] < first, "R3", f"{run.label}: overlap of task and shared parameters is tested first" if ov else "mtl_backward: overlap check",
                        "intersection of the (defaulted or given) collections computed before any differentiation",
                        "no intersection of the task parameters with the shared parameters is computed before the pipeline runs", entry.loc())
        rej = [r for r in run.raising() if r.exc.exc_name == "ValueError" and _pipe.overlap_rejection(r)
               and not _pipe.evs(r, "autograd", "grad_write")]
        rej = rej or [r for r in run.results if _pipe.loop_overlap_rejection(r)]
        ctx.require(bool(rej), "R3", f"{run.label}: overlapping collections are rejected", "a path raises ValueError on a non-empty intersection before anything runs",
                    "no path rejects overlapping shared/task parameters with ValueError before the pipeline runs", entry.loc())
    from .C01 import idiom_rules

    from .C07 import partition_rule

    partition_rule(ctx, P, rs, "R2")
    seen_sm = set()
    for run in rs:
        for res in run.results:
            for e in _pipe.evs(res, "stack_members"):
                if (e["loc"], e.get("mode")) in seen_sm:
                    continue
                seen_sm.add((e["loc"], e.get("mode")))
                md = e.get("mode")
                k_ = f"mtl_backward: the task transforms handed to the stack are in the order of the losses ({md})"
                if md in ("same", "concrete"):
                    ctx.ok("R2", k_, f"members in order {e['order']}", e["loc"], nontrivial=False)
                elif md is not None and ("regrouped" in md or "filtered" in md or "reversed" in md or "sorted" in md or "unordered" in md or (md == "mixed" and e["order"].count("'tasks'") > 1)):
                    ctx.violated("R2", "mtl_backward: row i of the stacked Jacobian belongs to losses[i]",
                                 f"`{e['text'][:70]}` receives the per-task transforms in order {e['order']}: tasks are grouped / selected by a condition (or re-ordered), so the rows of the "
                                 "feature-level Jacobian are not in the order of `losses` — a row-order-sensitive aggregator weighs the wrong task", e["loc"])
                else:
                    ctx.undecided("R2", k_, f"the order of the members ({e['order']}) could not be related to the order of the losses", e["loc"])
    single_pass_rule(ctx, index, "R5", entry)
    losses_positions_rule(ctx, index, entry)
    sequence_forms_rule(ctx, index, entry)
    ctx.floor("non-empty returning paths of mtl_backward", n_main, 5)
    _pipe.common_evidence(ctx, index, ("mtl_backward",))
    ctx.assumptions.append("numerical values of gradients/Jacobians are NOT decided; accumulation semantics is decided under C06")
