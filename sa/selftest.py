"""Thorough tier: the quick analysis of /repo plus the mutation corpus derived from the current tree (see selftest/)."""

from __future__ import annotations


def run_thorough(prop, repo, seed, write_evidence=True):
    from .cli import run_property

    try:
        from selftest.corpus import run_corpus  # type: ignore
    except Exception:
        run_corpus = None
    if run_corpus is None:
        return run_property(prop, repo, "thorough", seed, write_evidence=write_evidence)
    return run_corpus(prop, repo, seed, write_evidence)
