"""Source-level normalisation used by the idiom rules (C18 PCGrad, ...): the same algorithm written with an extracted helper,
a walrus in the test, or `reduce(add, <generator>, init)` is rewritten into the plain nested-loop shape before it is read.
Only the shape is changed; every statement of the result comes from the analysed tree."""

from __future__ import annotations

import ast
import copy


class _Rename(ast.NodeTransformer):
    def __init__(self, mapping):
        self.m = mapping

    def visit_Name(self, node):
        if node.id in self.m:
            rep = self.m[node.id]
            if isinstance(rep, str):
                return ast.copy_location(ast.Name(id=rep, ctx=node.ctx), node)
            if isinstance(node.ctx, ast.Load):
                return copy.deepcopy(rep)
        return node


def _simple_helper(fn: ast.FunctionDef) -> bool:
    """Straight-line / loop code with at most one `return`, which is the last statement."""
    rets = [n for n in ast.walk(fn) if isinstance(n, ast.Return)]
    if len(rets) > 1 or (rets and fn.body[-1] is not rets[0]):
        return False
    if any(isinstance(n, (ast.FunctionDef, ast.AsyncFunctionDef, ast.Lambda, ast.ClassDef, ast.Yield, ast.YieldFrom, ast.Global, ast.Nonlocal)) for n in ast.walk(fn) if n is not fn):
        return False
    a = fn.args
    return not (a.vararg or a.kwarg or a.kwonlyargs or a.posonlyargs)


def _resolve_helper(call: ast.Call, cls, module, index):
    from .index import FunctionInfo

    f = call.func
    if isinstance(f, ast.Name):
        r = index.resolve_name(module, f.id)
        return r if isinstance(r, FunctionInfo) and r.module is module and r.cls is None else None
    if isinstance(f, ast.Attribute) and isinstance(f.value, ast.Name) and cls is not None and f.value.id in ("self", "cls", cls.name):
        r = cls.lookup(f.attr)
        return r[1] if r is not None else None
    return None


def _expand(call: ast.Call, helper, counter):
    """(prologue statements, result expression or None) of inlining one call."""
    fn = helper.node
    params = [a.arg for a in fn.args.args]
    if params and params[0] in ("self", "cls") and not helper.is_static:
        params = params[1:]
    defaults = fn.args.defaults
    dmap = dict(zip([a.arg for a in fn.args.args][len(fn.args.args) - len(defaults):], defaults))
    bound = {}
    for p, a in zip(params, call.args):
        if isinstance(a, ast.Starred):
            return None
        bound[p] = a
    for kw in call.keywords:
        if kw.arg is None or kw.arg not in params:
            return None
        bound[kw.arg] = kw.value
    for p in params:
        if p not in bound:
            if p not in dmap:
                return None
            bound[p] = dmap[p]
    n = counter[0] = counter[0] + 1
    assigned = {t.id for s in ast.walk(fn) for t in ast.walk(s) if isinstance(t, ast.Name) and isinstance(t.ctx, ast.Store)}
    mapping, pro = {}, []
    for p, a in bound.items():
        if isinstance(a, (ast.Name, ast.Constant)) and p not in assigned:
            mapping[p] = a.id if isinstance(a, ast.Name) else a
        elif isinstance(a, ast.Attribute) and p not in assigned:
            mapping[p] = a
        else:
            tmp = f"{p}__h{n}"
            pro.append(ast.Assign(targets=[ast.Name(id=tmp, ctx=ast.Store())], value=copy.deepcopy(a)))
            mapping[p] = tmp
    for v in assigned:
        if v not in mapping:
            mapping[v] = f"{v}__h{n}" if v in bound or True else v
    body = [_Rename(mapping).visit(copy.deepcopy(s)) for s in fn.body if not (isinstance(s, ast.Expr) and isinstance(s.value, ast.Constant))]
    res = None
    if body and isinstance(body[-1], ast.Return):
        res = body[-1].value
        body = body[:-1]
    return pro + body, res


def inline_helpers(fi, index, depth: int = 2):
    """Copy of fi.node with calls to simple helpers of the same class / module expanded in place."""
    fn = copy.deepcopy(fi.node)
    counter = [0]
    for _ in range(depth):
        changed = [False]

        def rewrite(stmts):
            out = []
            for st in stmts:
                for fld in ("body", "orelse", "finalbody"):
                    blk = getattr(st, fld, None)
                    if isinstance(blk, list) and blk and isinstance(blk[0], ast.stmt):
                        setattr(st, fld, rewrite(blk))
                # reduce(add, (E for v in IT), INIT)  ->  acc = INIT; for v in IT: acc = acc + E
                if isinstance(st, ast.Assign) and isinstance(st.value, ast.Call) and ast.unparse(st.value.func).split(".")[-1] == "reduce" and len(st.value.args) == 3 \
                        and ast.unparse(st.value.args[0]).split(".")[-1] in ("add", "iadd") and isinstance(st.targets[0], ast.Name):
                    gen = st.value.args[1]
                    if isinstance(gen, ast.Name):
                        d = [s2 for s2 in stmts if isinstance(s2, ast.Assign) and isinstance(s2.targets[0], ast.Name) and s2.targets[0].id == gen.id and isinstance(s2.value, (ast.GeneratorExp, ast.ListComp))]
                        gen = d[0].value if len(d) == 1 else gen
                        if len(d) == 1 and d[0] in out:
                            out.remove(d[0])
                    if isinstance(gen, (ast.GeneratorExp, ast.ListComp)) and len(gen.generators) == 1 and not gen.generators[0].ifs:
                        acc = st.targets[0].id
                        g = gen.generators[0]
                        out.append(ast.Assign(targets=[ast.Name(id=acc, ctx=ast.Store())], value=st.value.args[2]))
                        loop = ast.For(target=g.target, iter=g.iter, orelse=[],
                                       body=[ast.Assign(targets=[ast.Name(id=acc, ctx=ast.Store())], value=ast.BinOp(left=ast.Name(id=acc, ctx=ast.Load()), op=ast.Add(), right=gen.elt))])
                        loop.body = rewrite(loop.body)
                        out.append(loop)
                        changed[0] = True
                        continue
                lazy = {id(x) for sc in ast.walk(st) if isinstance(sc, (ast.GeneratorExp, ast.ListComp, ast.SetComp, ast.DictComp, ast.Lambda)) for x in ast.walk(sc)}
                calls = [c for c in ast.walk(st) if isinstance(c, ast.Call) and id(c) not in lazy] if isinstance(st, (ast.Assign, ast.AugAssign, ast.Expr, ast.Return)) else []
                done = False
                for c in calls:
                    h = _resolve_helper(c, fi.cls, fi.module, index)
                    if h is None or h is fi or not _simple_helper(h.node):
                        continue
                    ex = _expand(c, h, counter)
                    if ex is None:
                        continue
                    pro, res = ex
                    out.extend(pro)
                    if res is None:
                        res = ast.Constant(value=None)

                    class Sub(ast.NodeTransformer):
                        def visit_Call(self, node):
                            if node is c:
                                return res
                            return self.generic_visit(node)

                    out.append(Sub().visit(st))
                    changed[0] = done = True
                    break
                if not done:
                    out.append(st)
            return out

        fn.body = rewrite(fn.body)
        if not changed[0]:
            break
    return ast.fix_missing_locations(fn)


def split_walrus(fn: ast.FunctionDef):
    """`if A and (v := E) < c: B` -> `if A: v = E; if v < c: B`   and   `if (v := E) < c: B else: C` -> `v = E; if v < c: B else: C`."""
    fn = copy.deepcopy(fn)

    def named(e):
        return [n for n in ast.walk(e) if isinstance(n, ast.NamedExpr)]

    def strip(e):
        class S(ast.NodeTransformer):
            def visit_NamedExpr(self, node):
                return ast.Name(id=node.target.id, ctx=ast.Load())

        return S().visit(copy.deepcopy(e))

    def rewrite(stmts):
        out = []
        for st in stmts:
            for fld in ("body", "orelse", "finalbody"):
                blk = getattr(st, fld, None)
                if isinstance(blk, list) and blk and isinstance(blk[0], ast.stmt):
                    setattr(st, fld, rewrite(blk))
            if isinstance(st, ast.If) and named(st.test):
                t = st.test
                if isinstance(t, ast.BoolOp) and isinstance(t.op, ast.And) and not st.orelse and not any(named(v) for v in t.values[:-1]) and len(named(t.values[-1])) == 1:
                    w = named(t.values[-1])[0]
                    inner = ast.If(test=strip(t.values[-1]), body=st.body, orelse=[])
                    first = t.values[0] if len(t.values) == 2 else ast.BoolOp(op=ast.And(), values=t.values[:-1])
                    out.append(ast.If(test=first, body=[ast.Assign(targets=[ast.Name(id=w.target.id, ctx=ast.Store())], value=w.value), inner], orelse=[]))
                    continue
                if not isinstance(t, ast.BoolOp) and len(named(t)) == 1:
                    w = named(t)[0]
                    out.append(ast.Assign(targets=[ast.Name(id=w.target.id, ctx=ast.Store())], value=w.value))
                    out.append(ast.If(test=strip(t), body=st.body, orelse=st.orelse))
                    continue
            out.append(st)
        return out

    fn.body = rewrite(fn.body)
    return ast.fix_missing_locations(fn)


def canonical(fi, index):
    return split_walrus(inline_helpers(fi, index))


# ------------------------------------------------------------------------------------------ endless generators fused with their consumer
def fuse_generators(fn: ast.FunctionDef, module, index):
    """`it = gen(a, b)` ... `for _, pat in zip(range(N), it): BODY` (or `for pat in islice(it, N)` / `for pat in it`) where `gen`
    is a generator function of the same module of the shape  PRELUDE; while True: STEP; yield E   becomes

        PRELUDE[params := args]; for _ in range(N): STEP; pat = E; BODY

    i.e. the loop the generator and its consumer execute together, written in one place. Returns a rewritten deep copy of `fn`
    (unchanged copy when nothing matches). Every statement of the result comes from the analysed tree."""
    from .index import FunctionInfo

    fn = copy.deepcopy(fn)

    def gen_shape(g: ast.FunctionDef):
        if not g.body:
            return None
        body = [st for st in g.body if not (isinstance(st, ast.Expr) and isinstance(st.value, ast.Constant))]  # docstring
        if not body or not isinstance(body[-1], ast.While):
            return None
        w = body[-1]
        if not (isinstance(w.test, ast.Constant) and w.test.value is True) or w.orelse or not w.body:
            return None
        last = w.body[-1]
        if not (isinstance(last, ast.Expr) and isinstance(last.value, ast.Yield) and last.value.value is not None):
            return None
        inner = [n for st in body[:-1] + w.body[:-1] for n in ast.walk(st)]
        if any(isinstance(n, (ast.Yield, ast.YieldFrom, ast.Return)) for n in inner) or any(isinstance(n, (ast.Break,)) for st in w.body for n in ast.walk(st)):
            return None
        a = g.args
        if a.vararg or a.kwarg or a.kwonlyargs or a.posonlyargs or a.defaults:
            return None
        return body[:-1], w.body[:-1], last.value.value

    def rewrite(stmts):
        out = list(stmts)
        for i, st in enumerate(out):
            if not (isinstance(st, ast.Assign) and len(st.targets) == 1 and isinstance(st.targets[0], ast.Name) and isinstance(st.value, ast.Call) and isinstance(st.value.func, ast.Name)):
                continue
            callee = index.resolve_name(module, st.value.func.id)
            if not (isinstance(callee, FunctionInfo) and callee.cls is None and callee.parent is None):
                continue
            shape = gen_shape(callee.node)
            if shape is None or st.value.keywords or any(isinstance(x, ast.Starred) for x in st.value.args):
                continue
            it_name = st.targets[0].id
            params = [x.arg for x in callee.node.args.args]
            if len(params) != len(st.value.args):
                continue
            # the single consumer: a later `for` statement of the same block
            for j in range(i + 1, len(out)):
                f = out[j]
                uses = [n for n in ast.walk(f) if isinstance(n, ast.Name) and n.id == it_name]
                if not uses:
                    continue
                if not isinstance(f, ast.For) or f.orelse and False:
                    break
                itx, count, pat = f.iter, None, f.target
                if isinstance(itx, ast.Call) and isinstance(itx.func, ast.Name) and itx.func.id == "zip" and len(itx.args) == 2 and isinstance(itx.args[1], ast.Name) and itx.args[1].id == it_name \
                        and isinstance(itx.args[0], ast.Call) and isinstance(itx.args[0].func, ast.Name) and itx.args[0].func.id == "range" and len(itx.args[0].args) == 1 \
                        and isinstance(pat, ast.Tuple) and len(pat.elts) == 2:
                    count, idx_t, pat = itx.args[0].args[0], pat.elts[0], pat.elts[1]
                elif isinstance(itx, ast.Call) and isinstance(itx.func, ast.Name) and itx.func.id == "islice" and len(itx.args) == 2 and isinstance(itx.args[0], ast.Name) and itx.args[0].id == it_name:
                    count, idx_t = itx.args[1], ast.Name(id="_", ctx=ast.Store())
                else:
                    break
                if len(uses) != 1 or any(isinstance(n, ast.Name) and n.id == it_name for k in range(j + 1, len(out)) for n in ast.walk(out[k])):
                    break
                prelude, step, yielded = (copy.deepcopy(x) for x in shape)
                binds, ren = [], {}
                for p_, a_ in zip(params, st.value.args):
                    if isinstance(a_, ast.Name):
                        ren[p_] = a_.id
                    else:
                        binds.append(ast.Assign(targets=[ast.Name(id=p_, ctx=ast.Store())], value=copy.deepcopy(a_)))
                rn = _Rename(ren)
                prelude = [rn.visit(x) for x in prelude]
                step = [rn.visit(x) for x in step]
                yielded = rn.visit(yielded)
                assign = ast.Assign(targets=[copy.deepcopy(pat)], value=yielded)
                for n in ast.walk(assign.targets[0]):
                    if isinstance(n, (ast.Name, ast.Tuple, ast.List)):
                        n.ctx = ast.Store()
                new_for = ast.For(target=idx_t, iter=ast.Call(func=ast.Name(id="range", ctx=ast.Load()), args=[copy.deepcopy(count)], keywords=[]),
                                  body=step + [assign] + f.body, orelse=f.orelse)
                for x in binds + prelude + [new_for]:
                    ast.copy_location(x, f)
                out[j:j + 1] = binds + prelude + [new_for]
                del out[i]
                return rewrite(out)
        for st in out:
            for fld in ("body", "orelse", "finalbody"):
                sub = getattr(st, fld, None)
                if isinstance(sub, list) and sub and isinstance(sub[0], ast.stmt):
                    setattr(st, fld, rewrite(sub))
        return out

    fn.body = rewrite(fn.body)
    return ast.fix_missing_locations(fn)


# ------------------------------------------------------------------------------------------ a, b = (E1, E2)  ->  a = E1; b = E2
def split_tuple_assigns(fn: ast.FunctionDef):
    """Tuple assignments from a tuple display are written as one assignment per target when no right-hand side reads a target
    assigned before it in the same statement (then the sequential reading is the simultaneous one)."""
    fn = copy.deepcopy(fn)

    def rewrite(stmts):
        out = []
        for st in stmts:
            for fld in ("body", "orelse", "finalbody"):
                blk = getattr(st, fld, None)
                if isinstance(blk, list) and blk and isinstance(blk[0], ast.stmt):
                    setattr(st, fld, rewrite(blk))
            if isinstance(st, ast.Assign) and len(st.targets) == 1 and isinstance(st.targets[0], ast.Tuple) and isinstance(st.value, ast.Tuple) \
                    and len(st.targets[0].elts) == len(st.value.elts) and all(isinstance(t, ast.Name) for t in st.targets[0].elts):
                names = [t.id for t in st.targets[0].elts]
                safe = all(not ({n.id for n in ast.walk(v) if isinstance(n, ast.Name)} & set(names[:i])) for i, v in enumerate(st.value.elts))
                if safe:
                    for t, v in zip(st.targets[0].elts, st.value.elts):
                        if isinstance(v, ast.Name) and v.id == t.id:
                            continue  # x = x
                        out.append(ast.copy_location(ast.Assign(targets=[t], value=v), st))
                    continue
            out.append(st)
        return out

    fn.body = rewrite(fn.body)
    return ast.fix_missing_locations(fn)


# ------------------------------------------------------------------------------------------ a loop over a precomputed schedule of pairs
def unflatten_schedules(fn: ast.FunctionDef):
    """`sched = [(i, j) for i... in A for j in B if c]` ... `for i2, j2 in sched: BODY` is read as the loop nest the comprehension
    enumerates: `for i... in A: for j in B: if not c: continue; BODY[i2 := i, j2 := j]` — when `sched` is bound once, used once, and
    BODY does not change what A and B read."""
    fn = copy.deepcopy(fn)
    binds = {}
    for a in ast.walk(fn):
        if isinstance(a, ast.Assign) and len(a.targets) == 1 and isinstance(a.targets[0], ast.Name):
            binds.setdefault(a.targets[0].id, []).append(a)

    def rewrite(stmts):
        out = []
        for st in stmts:
            for fld in ("body", "orelse", "finalbody"):
                blk = getattr(st, fld, None)
                if isinstance(blk, list) and blk and isinstance(blk[0], ast.stmt):
                    setattr(st, fld, rewrite(blk))
            if isinstance(st, ast.For) and isinstance(st.iter, ast.Name) and not st.orelse and isinstance(st.target, ast.Tuple) and len(st.target.elts) == 2 \
                    and all(isinstance(e, ast.Name) for e in st.target.elts) and len(binds.get(st.iter.id, [])) == 1:
                comp = binds[st.iter.id][0].value
                uses = [n for n in ast.walk(fn) if isinstance(n, ast.Name) and n.id == st.iter.id and isinstance(n.ctx, ast.Load)]
                if isinstance(comp, ast.ListComp) and len(comp.generators) == 2 and isinstance(comp.elt, ast.Tuple) and len(comp.elt.elts) == 2 and len(uses) == 1 \
                        and all(isinstance(e, ast.Name) for e in comp.elt.elts) and not comp.generators[0].ifs:
                    g0, g1 = comp.generators
                    ren = _Rename({st.target.elts[0].id: comp.elt.elts[0].id, st.target.elts[1].id: comp.elt.elts[1].id})
                    body = [ren.visit(copy.deepcopy(b)) for b in st.body]
                    guards = [ast.If(test=ast.UnaryOp(op=ast.Not(), operand=copy.deepcopy(c)), body=[ast.Continue()], orelse=[]) for c in g1.ifs]
                    inner = ast.For(target=copy.deepcopy(g1.target), iter=copy.deepcopy(g1.iter), body=guards + body, orelse=[])
                    outer = ast.For(target=copy.deepcopy(g0.target), iter=copy.deepcopy(g0.iter), body=[inner], orelse=[])
                    for x in ast.walk(outer):
                        ast.copy_location(x, st)
                    out.append(outer)
                    continue
            out.append(st)
        return out

    fn.body = rewrite(fn.body)
    return ast.fix_missing_locations(fn)


# ------------------------------------------------------------------------------------------ zip(order, X[order]) walked in parallel
def unzip_gathers(fn: ast.FunctionDef):
    """`for j, xj in zip(a, X[a]): BODY`  ->  `for j in a: BODY[xj := X[j]]`  (also `zip(X[a], a)`; `X[a]` may be `X[a, :]` or
    `X.index_select(0, a)`): element k of `X[a]` is row a[k] of X, so the second loop variable is a name for `X[j]`. Only applied
    when the loop body does not rebind either variable. Returns a rewritten deep copy."""
    fn = copy.deepcopy(fn)

    def gathered(e, idx_name):
        """X when e is X[idx] / X[idx, :] / X.index_select(0, idx)."""
        if isinstance(e, ast.Subscript):
            s = e.slice
            if isinstance(s, ast.Name) and s.id == idx_name:
                return e.value
            if isinstance(s, ast.Tuple) and s.elts and isinstance(s.elts[0], ast.Name) and s.elts[0].id == idx_name and \
                    all(isinstance(x, ast.Slice) and x.lower is None and x.upper is None and x.step is None for x in s.elts[1:]):
                return e.value
        if isinstance(e, ast.Call) and isinstance(e.func, ast.Attribute) and e.func.attr == "index_select" and len(e.args) == 2 and \
                isinstance(e.args[0], ast.Constant) and e.args[0].value == 0 and isinstance(e.args[1], ast.Name) and e.args[1].id == idx_name:
            return e.func.value
        return None

    class T(ast.NodeTransformer):
        def visit_For(self, node):
            self.generic_visit(node)
            it, tg = node.iter, node.target
            if not (isinstance(it, ast.Call) and isinstance(it.func, ast.Name) and it.func.id == "zip" and len(it.args) == 2 and not it.keywords
                    and isinstance(tg, ast.Tuple) and len(tg.elts) == 2 and all(isinstance(x, ast.Name) for x in tg.elts)):
                return node
            for a_pos in (0, 1):
                idx, oth = it.args[a_pos], it.args[1 - a_pos]
                if not isinstance(idx, ast.Name):
                    continue
                base = gathered(oth, idx.id)
                if base is None:
                    continue
                jn, xn = tg.elts[a_pos].id, tg.elts[1 - a_pos].id
                stores = {n.id for b in node.body for n in ast.walk(b) if isinstance(n, ast.Name) and isinstance(n.ctx, ast.Store)}
                if {jn, xn} & stores:
                    continue

                class S(ast.NodeTransformer):
                    def visit_Name(self, n):
                        if n.id == xn and isinstance(n.ctx, ast.Load):
                            return ast.Subscript(value=copy.deepcopy(base), slice=ast.Name(id=jn, ctx=ast.Load()), ctx=ast.Load())
                        return n

                    def visit_Subscript(self, n):
                        # xj[k] is X[j, k]
                        if isinstance(n.value, ast.Name) and n.value.id == xn and isinstance(n.ctx, ast.Load) and not isinstance(n.slice, (ast.Tuple, ast.Slice)):
                            k_ = self.visit(n.slice)
                            return ast.Subscript(value=copy.deepcopy(base), slice=ast.Tuple(elts=[ast.Name(id=jn, ctx=ast.Load()), k_], ctx=ast.Load()), ctx=ast.Load())
                        self.generic_visit(n)
                        return n

                body = [S().visit(b) for b in node.body]
                return ast.For(target=ast.Name(id=jn, ctx=ast.Store()), iter=idx, body=body, orelse=node.orelse, type_comment=None)
            return node

    fn = T().visit(fn)
    return ast.fix_missing_locations(fn)


# ------------------------------------------------------------------------------------------ local closures called as statements
def inline_local_closures(fn: ast.FunctionDef):
    """`def g(x): BODY` nested in fn, used only as statements `g(v)` with plain names as arguments, BODY without return value / yield:
    every such statement is replaced by BODY[x := v] and the definition is dropped. Returns a rewritten deep copy."""
    fn = copy.deepcopy(fn)
    nested = [s for s in fn.body if isinstance(s, ast.FunctionDef)]
    for g in nested:
        a = g.args
        if a.vararg or a.kwarg or a.kwonlyargs or a.defaults or a.posonlyargs:
            continue
        if any(isinstance(x, (ast.Yield, ast.YieldFrom)) or (isinstance(x, ast.Return) and x.value is not None) or isinstance(x, (ast.Nonlocal, ast.Global)) for x in ast.walk(g)):
            continue
        params = [p.arg for p in a.args]
        uses = [x for x in ast.walk(fn) if isinstance(x, ast.Name) and x.id == g.name and isinstance(x.ctx, ast.Load)]
        calls = [x for x in ast.walk(fn) if isinstance(x, ast.Expr) and isinstance(x.value, ast.Call) and isinstance(x.value.func, ast.Name) and x.value.func.id == g.name
                 and not x.value.keywords and len(x.value.args) == len(params) and all(isinstance(z, ast.Name) for z in x.value.args)]
        if not calls or len(calls) != len(uses):
            continue
        body = [s for s in g.body if not (isinstance(s, ast.Expr) and isinstance(s.value, ast.Constant))]

        def expand(call):
            m = dict(zip(params, [z.id for z in call.value.args]))

            class R(ast.NodeTransformer):
                def visit_Name(self, n):
                    return ast.copy_location(ast.Name(id=m[n.id], ctx=n.ctx), call) if n.id in m else n

            out = [R().visit(copy.deepcopy(s)) for s in body]
            for s in out:
                for x in ast.walk(s):
                    if hasattr(x, "lineno"):
                        x.lineno, x.end_lineno = call.lineno, getattr(call, "end_lineno", call.lineno)
            return out

        ids = {id(c) for c in calls}

        def splice(stmts):
            out = []
            for st in stmts:
                if id(st) in ids:
                    out.extend(expand(st))
                    continue
                if st is g:
                    continue
                for fld in ("body", "orelse", "finalbody"):
                    blk = getattr(st, fld, None)
                    if isinstance(blk, list) and blk and isinstance(blk[0], ast.stmt):
                        setattr(st, fld, splice(blk))
                out.append(st)
            return out

        fn.body = splice(fn.body)
    return ast.fix_missing_locations(fn)


def split_skip_guards(fn: ast.FunctionDef):
    """Inside loop bodies: `if A or B: continue` -> `if A: continue` / `if B: continue`, and `if not C: continue ; REST` (REST = the
    remainder of the loop body) -> `if C: REST`. Both are the same control flow written differently. Returns a rewritten deep copy."""
    fn = copy.deepcopy(fn)

    def only_continue(st):
        return isinstance(st, ast.If) and len(st.body) == 1 and isinstance(st.body[0], ast.Continue) and not st.orelse

    def rewrite(body):
        out = []
        for st in body:
            if only_continue(st) and isinstance(st.test, ast.BoolOp) and isinstance(st.test.op, ast.Or):
                out.extend(ast.If(test=v, body=[ast.Continue()], orelse=[]) for v in st.test.values)
            else:
                out.append(st)
        for k, st in enumerate(out):
            if only_continue(st) and isinstance(st.test, ast.UnaryOp) and isinstance(st.test.op, ast.Not) and isinstance(st.test.operand, ast.Compare) and out[k + 1:]:
                return out[:k] + [ast.If(test=st.test.operand, body=rewrite(out[k + 1:]), orelse=[])]
        return out

    for n in ast.walk(fn):
        if isinstance(n, (ast.For, ast.While)):
            n.body = rewrite(n.body)
    return ast.fix_missing_locations(fn)


def expand_maintained_products(fn: ast.FunctionDef):
    """A vector of products kept up to date instead of recomputed:

        P = X[i].clone()            # w is the i-th unit vector here, so P == X @ w (X symmetric: X[i] is column i)
        for j in ...:
            ... P[j] ...            # read
            w[j] -= c
            P -= c * X[j]           # keeps P == X @ w

    is read as `X[j] @ w` wherever `P[j]` is loaded; the bookkeeping statements are dropped. Applied only when every in-place
    change of w inside the loop is `w[j] -= c` paired, in the same block, with `P -= c * X[j]` for the same c and j, P and w are
    changed nowhere else in the loop, and w is set to the i-th unit vector (`w = zeros(..); w[i] = 1`) next to the initialisation
    of P. The symmetry of X is the caller's concern (the Gramian). Returns a rewritten deep copy (unchanged if the idiom is absent)."""
    fn = copy.deepcopy(fn)
    txt = lambda e: ast.unparse(e)

    def strip_clone(e):
        while isinstance(e, ast.Call) and isinstance(e.func, ast.Attribute) and e.func.attr in ("clone", "detach", "contiguous") and not e.args:
            e = e.func.value
        return e

    for outer in [n for n in ast.walk(fn) if isinstance(n, ast.For)]:
        for k, st in enumerate(outer.body):
            if not (isinstance(st, ast.Assign) and len(st.targets) == 1 and isinstance(st.targets[0], ast.Name)):
                continue
            P = st.targets[0].id
            src = strip_clone(st.value)
            if not (isinstance(src, ast.Subscript) and isinstance(src.slice, ast.Name) and isinstance(src.value, ast.Name)):
                continue
            X, i = src.value.id, src.slice.id
            inner = [s2 for s2 in outer.body[k + 1:] if isinstance(s2, ast.For)]
            if len(inner) != 1 or not isinstance(inner[0].target, ast.Name):
                continue
            loop, j = inner[0], inner[0].target.id
            # updates of P inside the loop
            p_upd = [(blk, s2) for blk in _blocks(loop) for s2 in blk if isinstance(s2, ast.AugAssign) and isinstance(s2.op, ast.Sub) and isinstance(s2.target, ast.Name) and s2.target.id == P]
            p_other = [n for n in ast.walk(loop) if isinstance(n, ast.Name) and n.id == P and isinstance(n.ctx, ast.Store)]
            if not p_upd or len(p_other) != len(p_upd):
                continue
            ok, w = True, None
            for blk, s2 in p_upd:
                v = s2.value
                if not (isinstance(v, ast.BinOp) and isinstance(v.op, ast.Mult)):
                    ok = False
                    break
                c, row = (v.left, v.right) if txt(v.right) == f"{X}[{j}]" else ((v.right, v.left) if txt(v.left) == f"{X}[{j}]" else (None, None))
                if c is None:
                    ok = False
                    break
                mate = [s3 for s3 in blk if isinstance(s3, ast.AugAssign) and isinstance(s3.op, ast.Sub) and isinstance(s3.target, ast.Subscript) and isinstance(s3.target.value, ast.Name)
                        and txt(s3.target.slice) == j and txt(s3.value) == txt(c)]
                if len(mate) != 1 or (w is not None and mate[0].target.value.id != w):
                    ok = False
                    break
                w = mate[0].target.value.id
            if not ok or w is None:
                continue
            # w is changed only by those paired statements inside the loop ...
            w_stores = [n for n in ast.walk(loop) if (isinstance(n, ast.Subscript) and isinstance(n.value, ast.Name) and n.value.id == w and isinstance(n.ctx, ast.Store))
                        or (isinstance(n, ast.Name) and n.id == w and isinstance(n.ctx, ast.Store))]
            if len(w_stores) != len(p_upd):
                continue
            # ... and is the i-th unit vector when P is initialised
            before = outer.body[:outer.body.index(loop)]
            unit = any(isinstance(s2, ast.Assign) and len(s2.targets) == 1 and txt(s2.targets[0]) == f"{w}[{i}]" and isinstance(s2.value, ast.Constant) and s2.value.value == 1 for s2 in before) and \
                any(isinstance(s2, ast.Assign) and len(s2.targets) == 1 and txt(s2.targets[0]) == w and isinstance(s2.value, ast.Call) and txt(s2.value.func).split(".")[-1] in ("zeros", "zeros_like", "new_zeros")
                    for s2 in before)
            if not unit:
                continue

            class R(ast.NodeTransformer):
                def visit_Subscript(self, n):
                    if isinstance(n.value, ast.Name) and n.value.id == P and isinstance(n.ctx, ast.Load) and not isinstance(n.slice, (ast.Slice, ast.Tuple)):
                        return ast.BinOp(left=ast.Subscript(value=ast.Name(id=X, ctx=ast.Load()), slice=self.visit(n.slice), ctx=ast.Load()), op=ast.MatMult(), right=ast.Name(id=w, ctx=ast.Load()))
                    self.generic_visit(n)
                    return n

            drop = {id(s2) for _, s2 in p_upd}
            sub_values = {id(n.value) for n in ast.walk(loop) if isinstance(n, ast.Subscript) and isinstance(n.ctx, ast.Load) and not isinstance(n.slice, (ast.Slice, ast.Tuple))}
            whole = [n for s2 in ast.walk(loop) if isinstance(s2, ast.stmt) and id(s2) not in drop and not isinstance(s2, (ast.For, ast.While, ast.If, ast.With, ast.Try))
                     for n in ast.walk(s2) if isinstance(n, ast.Name) and n.id == P and isinstance(n.ctx, ast.Load) and id(n) not in sub_values]
            whole += [n for s2 in ast.walk(loop) if isinstance(s2, (ast.If, ast.While)) for n in ast.walk(s2.test) if isinstance(n, ast.Name) and n.id == P and id(n) not in sub_values]
            after = outer.body[outer.body.index(loop) + 1:]
            if whole or any(isinstance(n, ast.Name) and n.id == P for s2 in after for n in ast.walk(s2)):
                continue  # P is read as a whole somewhere, or after the loop: not this idiom
            for blk in _blocks(loop):
                blk[:] = [s2 for s2 in blk if id(s2) not in drop] or [ast.Pass()]
            R().visit(loop)
            outer.body.remove(st)
            return ast.fix_missing_locations(fn)
    return fn


def _blocks(node):
    """All statement lists below a node (bodies, else-branches, handlers)."""
    out = []
    for n in ast.walk(node):
        for f in ("body", "orelse", "finalbody"):
            b = getattr(n, f, None)
            if isinstance(b, list) and b and isinstance(b[0], ast.stmt):
                out.append(b)
    return out


def flag_while_to_for(fn: ast.FunctionDef):
    """`it = iter(X); flag = False; while not flag and next(it, None) is not None: BODY; flag = bool(T)`  ->
    `for _ in X: BODY; if T: break` — the same iterations, left at the same point (the flag is only written by the last statement of the
    body and read by the loop test). Returns a rewritten deep copy (unchanged if the idiom is absent)."""
    fn = copy.deepcopy(fn)
    for blk in _blocks(fn):
        for k, st in enumerate(blk):
            if not (isinstance(st, ast.While) and isinstance(st.test, ast.BoolOp) and isinstance(st.test.op, ast.And) and len(st.test.values) == 2 and not st.orelse and st.body):
                continue
            flag = itn = None
            for v in st.test.values:
                if isinstance(v, ast.UnaryOp) and isinstance(v.op, ast.Not) and isinstance(v.operand, ast.Name):
                    flag = v.operand.id
                elif isinstance(v, ast.Compare) and len(v.ops) == 1 and isinstance(v.ops[0], ast.IsNot) and isinstance(v.comparators[0], ast.Constant) and v.comparators[0].value is None \
                        and isinstance(v.left, ast.Call) and isinstance(v.left.func, ast.Name) and v.left.func.id == "next" and len(v.left.args) == 2 \
                        and isinstance(v.left.args[0], ast.Name) and isinstance(v.left.args[1], ast.Constant) and v.left.args[1].value is None:
                    itn = v.left.args[0].id
            if flag is None or itn is None:
                continue
            last = st.body[-1]
            if not (isinstance(last, ast.Assign) and len(last.targets) == 1 and isinstance(last.targets[0], ast.Name) and last.targets[0].id == flag):
                continue
            stores = [n for n in ast.walk(st) if isinstance(n, ast.Name) and n.id in (flag, itn) and isinstance(n.ctx, ast.Store)]
            uses_it = [n for b in st.body for n in ast.walk(b) if isinstance(n, ast.Name) and n.id == itn]
            if len(stores) != 1 or uses_it:
                continue
            init_f = [s2 for s2 in blk[:k] if isinstance(s2, ast.Assign) and len(s2.targets) == 1 and isinstance(s2.targets[0], ast.Name) and s2.targets[0].id == flag]
            init_i = [s2 for s2 in blk[:k] if isinstance(s2, ast.Assign) and len(s2.targets) == 1 and isinstance(s2.targets[0], ast.Name) and s2.targets[0].id == itn]
            if len(init_f) != 1 or len(init_i) != 1 or not (isinstance(init_f[0].value, ast.Constant) and init_f[0].value.value is False):
                continue
            src = init_i[0].value
            if not (isinstance(src, ast.Call) and isinstance(src.func, ast.Name) and src.func.id == "iter" and len(src.args) == 1):
                continue
            if any(isinstance(n, ast.Name) and n.id in (flag, itn) for s2 in blk[k + 1:] for n in ast.walk(s2)):
                continue  # the flag / the iterator is read after the loop: not this idiom
            t = last.value
            if isinstance(t, ast.Call) and isinstance(t.func, ast.Name) and t.func.id == "bool" and len(t.args) == 1:
                t = t.args[0]
            body = st.body[:-1] + [ast.If(test=t, body=[ast.Break()], orelse=[])]
            new = ast.For(target=ast.Name(id="_", ctx=ast.Store()), iter=src.args[0], body=body, orelse=[], type_comment=None)
            ast.copy_location(new, st)
            blk[k] = new
            blk[:] = [s2 for s2 in blk if s2 is not init_f[0] and s2 is not init_i[0]]
            return ast.fix_missing_locations(fn)
    return fn


def inline_local_objects(fi, index, fn: ast.FunctionDef | None = None, depth: int = 3, known: dict | None = None):
    """`row = _Helper(a, b); ...; row.step(j); ...; use(row.field)` with `_Helper` a small class of the same module (fields set in
    `__init__`, simple methods) is read as the code it stands for: the fields become locals `row__field`, the constructor and the
    method calls are expanded in place. Returns a rewritten deep copy of `fn` (default: fi.node)."""
    from .index import ClassInfo

    fn = copy.deepcopy(fn if fn is not None else fi.node)
    counter = [1000]

    class _H:  # what _expand needs of a helper
        is_static = False

        def __init__(self, node):
            self.node = node

    objs = {}
    for a in ast.walk(fn):
        if isinstance(a, ast.Assign) and len(a.targets) == 1 and isinstance(a.targets[0], ast.Name) and isinstance(a.value, ast.Call) and isinstance(a.value.func, ast.Name):
            c = index.resolve_name(fi.module, a.value.func.id)
            if isinstance(c, ClassInfo) and c.module is fi.module and "__init__" in c.methods and not [b for b in c.bases if not (isinstance(b, str) and b.endswith("object"))] \
                    and all(_simple_helper(m.node) for m in c.methods.values()):
                v = a.targets[0].id
                if sum(1 for n in ast.walk(fn) if isinstance(n, ast.Name) and n.id == v and isinstance(n.ctx, ast.Store)) == 1:
                    objs[v] = c
    for v_, c_ in (known or {}).items():
        objs.setdefault(v_, c_)  # names known to hold such an object although this function does not create it (an attribute of self, renamed by the caller)
    if not objs:
        return fn
    props = {}

    def localise(stmts, v, fields, expanded=True):
        """`expanded`: the statements come out of a method of the helper class (their `self` is the object)."""
        recv = ("self", v) if expanded else (v,)

        class T(ast.NodeTransformer):
            def visit_Attribute(self, n):
                self.generic_visit(n)
                if isinstance(n.value, ast.Name) and n.value.id in recv and n.attr in fields:
                    return ast.copy_location(ast.Name(id=f"{v}__{n.attr}", ctx=n.ctx), n)
                if isinstance(n.value, ast.Name) and n.value.id in recv and isinstance(n.ctx, ast.Load) and n.attr in props.get(v, {}):
                    # a property of the helper whose body is one `return <expr>`: the expression, read on the object's fields
                    return localise([ast.Expr(value=copy.deepcopy(props[v][n.attr]))], v, fields, expanded=True)[0].value
                return n

            def visit_Name(self, n):
                return ast.copy_location(ast.Name(id=v, ctx=n.ctx), n) if (expanded and n.id == "self") else n

        return [T().visit(s) for s in stmts]

    for v, c in objs.items():
        props[v] = {}
        for mname_, m_ in c.methods.items():
            body_ = [s_ for s_ in m_.node.body if not (isinstance(s_, ast.Expr) and isinstance(s_.value, ast.Constant))]
            if any("property" in ast.unparse(d_) for d_ in m_.node.decorator_list) and len(body_) == 1 and isinstance(body_[0], ast.Return) and body_[0].value is not None:
                props[v][mname_] = body_[0].value
        fields = {t.attr for s in ast.walk(c.methods["__init__"].node) if isinstance(s, (ast.Assign, ast.AnnAssign, ast.AugAssign))
                  for t in (s.targets if isinstance(s, ast.Assign) else [s.target]) for t in [t] if isinstance(t, ast.Attribute) and isinstance(t.value, ast.Name) and t.value.id == "self"}
        for _ in range(depth):
            changed = [False]

            def rewrite(stmts):
                out = []
                for st in stmts:
                    for fld in ("body", "orelse", "finalbody"):
                        blk = getattr(st, fld, None)
                        if isinstance(blk, list) and blk and isinstance(blk[0], ast.stmt):
                            setattr(st, fld, rewrite(blk))
                    if isinstance(st, ast.Assign) and len(st.targets) == 1 and isinstance(st.targets[0], ast.Name) and st.targets[0].id == v and isinstance(st.value, ast.Call):
                        ex = _expand(st.value, _H(c.methods["__init__"].node), counter)
                        if ex is not None:
                            out.extend(localise(ex[0], v, fields))
                            changed[0] = True
                            continue
                    calls = [x for x in ast.walk(st) if isinstance(x, ast.Call) and isinstance(x.func, ast.Attribute) and isinstance(x.func.value, ast.Name) and x.func.value.id == v
                             and x.func.attr in c.methods] if isinstance(st, (ast.Assign, ast.AugAssign, ast.Expr, ast.Return, ast.If)) else []
                    if isinstance(st, ast.If):
                        calls = [x for x in calls if any(x is y for y in ast.walk(st.test))]
                    done = False
                    for x in calls:
                        # the caller's own `self` inside the arguments is not the helper object: kept apart while the expanded body is localised
                        x2 = copy.copy(x)
                        x2.args = [_Rename({"self": "self__outer"}).visit(copy.deepcopy(a_)) for a_ in x.args]
                        x2.keywords = [ast.keyword(arg=k_.arg, value=_Rename({"self": "self__outer"}).visit(copy.deepcopy(k_.value))) for k_ in x.keywords]
                        ex = _expand(x2, _H(c.methods[x.func.attr].node), counter)
                        if ex is None:
                            continue
                        pro, res = ex
                        back = lambda sts: [_Rename({"self__outer": "self"}).visit(s_) for s_ in sts]
                        out.extend(back(localise(pro, v, fields)))
                        res = back([localise([ast.Expr(value=res)], v, fields)[0]])[0].value if res is not None else ast.Constant(value=None)

                        class Sub(ast.NodeTransformer):
                            def visit_Call(self, node):
                                return res if node is x else self.generic_visit(node)

                        new_st = Sub().visit(st)
                        if not (isinstance(new_st, ast.Expr) and isinstance(new_st.value, ast.Constant)):
                            out.append(new_st)
                        changed[0] = done = True
                        break
                    if not done:
                        out.append(st)
                return out

            fn.body = rewrite(fn.body)
            if not changed[0]:
                break
        fn.body = localise(fn.body, v, fields, expanded=False)
    return ast.fix_missing_locations(fn)


def unflag_dict(fn: ast.FunctionDef):
    """A dictionary used as "visited set + per-node flag":

        D = dict.fromkeys(E)            D[x] = None (mark)        D[n] = TEST(n) (classify)        x in D
        deque(D) / list(D)              return {n for n, f in D.items() if f}

    is read as a visited set V = set(E) and a result set R: marks become V.add(x), classifications `if TEST(n): R.add(n)`, the final
    comprehension `R`. Applied only when D is bound once, every other use of D is one of the forms above, and classification values are
    never None. Returns a rewritten deep copy (unchanged if the idiom is absent)."""
    fn = copy.deepcopy(fn)
    binds = [a for a in ast.walk(fn) if isinstance(a, (ast.Assign, ast.AnnAssign)) and isinstance((a.targets[0] if isinstance(a, ast.Assign) else a.target), ast.Name)
             and isinstance(a.value, ast.Call) and ast.unparse(a.value.func) == "dict.fromkeys" and len(a.value.args) == 1]
    for b in binds:
        D = (b.targets[0] if isinstance(b, ast.Assign) else b.target).id
        if sum(1 for n in ast.walk(fn) if isinstance(n, ast.Name) and n.id == D and isinstance(n.ctx, ast.Store)) != 1:
            continue
        V, R = f"{D}__visited", f"{D}__result"
        ok = [True]
        src = b.value.args[0]

        class T(ast.NodeTransformer):
            def visit_Assign(self, n):
                if len(n.targets) == 1 and isinstance(n.targets[0], ast.Subscript) and isinstance(n.targets[0].value, ast.Name) and n.targets[0].value.id == D:
                    key = n.targets[0].slice
                    if isinstance(n.value, ast.Constant) and n.value.value is None:
                        return ast.copy_location(ast.Expr(value=ast.Call(func=ast.Attribute(value=ast.Name(id=V, ctx=ast.Load()), attr="add", ctx=ast.Load()), args=[key], keywords=[])), n)
                    if isinstance(n.value, ast.Constant):
                        ok[0] = False
                        return n
                    add = ast.Expr(value=ast.Call(func=ast.Attribute(value=ast.Name(id=R, ctx=ast.Load()), attr="add", ctx=ast.Load()), args=[copy.deepcopy(key)], keywords=[]))
                    return ast.copy_location(ast.If(test=n.value, body=[add], orelse=[]), n)
                self.generic_visit(n)
                return n

            def visit_Compare(self, n):
                self.generic_visit(n)
                if len(n.ops) == 1 and isinstance(n.ops[0], (ast.In, ast.NotIn)) and isinstance(n.comparators[0], ast.Name) and n.comparators[0].id == D:
                    n.comparators[0] = ast.Name(id=V, ctx=ast.Load())
                return n

            def visit_Call(self, n):
                self.generic_visit(n)
                if isinstance(n.func, ast.Name) and n.func.id in ("deque", "list", "iter") and len(n.args) == 1 and isinstance(n.args[0], ast.Name) and n.args[0].id == D:
                    n.args[0] = copy.deepcopy(src)
                return n

            def visit_Return(self, n):
                v = n.value
                if isinstance(v, (ast.SetComp, ast.ListComp)) and len(v.generators) == 1:
                    g = v.generators[0]
                    if isinstance(g.iter, ast.Call) and isinstance(g.iter.func, ast.Attribute) and g.iter.func.attr == "items" and isinstance(g.iter.func.value, ast.Name) and g.iter.func.value.id == D \
                            and isinstance(g.target, ast.Tuple) and len(g.target.elts) == 2 and all(isinstance(x, ast.Name) for x in g.target.elts) \
                            and isinstance(v.elt, ast.Name) and v.elt.id == g.target.elts[0].id and len(g.ifs) == 1 and isinstance(g.ifs[0], ast.Name) and g.ifs[0].id == g.target.elts[1].id:
                        return ast.copy_location(ast.Return(value=ast.Name(id=R, ctx=ast.Load())), n)
                self.generic_visit(n)
                return n

        new = T().visit(copy.deepcopy(fn))
        left = [n for n in ast.walk(new) if isinstance(n, ast.Name) and n.id == D]
        if not ok[0] or len(left) != 1:  # only the binding itself may remain
            continue

        def rebind(stmts):
            out = []
            for st in stmts:
                tgt = (st.targets[0] if isinstance(st, ast.Assign) else st.target) if isinstance(st, (ast.Assign, ast.AnnAssign)) else None
                if isinstance(tgt, ast.Name) and tgt.id == D:
                    out.append(ast.copy_location(ast.Assign(targets=[ast.Name(id=V, ctx=ast.Store())], value=ast.Call(func=ast.Name(id="set", ctx=ast.Load()), args=[copy.deepcopy(src)], keywords=[])), st))
                    out.append(ast.copy_location(ast.Assign(targets=[ast.Name(id=R, ctx=ast.Store())], value=ast.Call(func=ast.Name(id="set", ctx=ast.Load()), args=[], keywords=[])), st))
                    continue
                for fld in ("body", "orelse", "finalbody"):
                    blk = getattr(st, fld, None)
                    if isinstance(blk, list) and blk and isinstance(blk[0], ast.stmt):
                        setattr(st, fld, rebind(blk))
                out.append(st)
            return out

        new.body = rebind(new.body)
        fn = ast.fix_missing_locations(new)
    return fn


def counter_while_to_for(fn: ast.FunctionDef):
    """`c = s; [flag = False;] while <stop-test> and c < N: BODY  (with exactly one top-level `c += 1`, and `flag = T` / a direct test on a body
    variable)`  ->  `for _ in range(s, N): BODY'; if T: break`.  The stop test is `not flag` (flag set once, at the top level of the body) or
    `not (T)` with T a comparison of a variable the body assigns (then T is tested at the end of every iteration, which is when the
    while loop tests it next). Returns a rewritten deep copy (unchanged if the idiom is absent)."""
    fn = copy.deepcopy(fn)
    for blk in _blocks(fn):
        for k, st in enumerate(blk):
            if not (isinstance(st, ast.While) and isinstance(st.test, ast.BoolOp) and isinstance(st.test.op, ast.And) and len(st.test.values) == 2 and not st.orelse and st.body):
                continue
            cnt = bound = stop = None
            for v in st.test.values:
                if isinstance(v, ast.Compare) and len(v.ops) == 1 and isinstance(v.ops[0], ast.Lt) and isinstance(v.left, ast.Name) \
                        and any(isinstance(s2, ast.AugAssign) and isinstance(s2.target, ast.Name) and s2.target.id == v.left.id for s2 in st.body):
                    cnt, bound = v.left.id, v.comparators[0]
                elif isinstance(v, ast.UnaryOp) and isinstance(v.op, ast.Not):
                    stop = v.operand
            if cnt is None or stop is None:
                continue
            incs = [s2 for s2 in st.body if isinstance(s2, ast.AugAssign) and isinstance(s2.target, ast.Name) and s2.target.id == cnt and isinstance(s2.op, ast.Add)
                    and isinstance(s2.value, ast.Constant) and s2.value.value == 1]
            others = [n for n in ast.walk(st) if isinstance(n, ast.Name) and n.id == cnt and isinstance(n.ctx, ast.Store)]
            reads = [n for s2 in st.body if s2 not in incs for n in ast.walk(s2) if isinstance(n, ast.Name) and n.id == cnt]
            init_c = [s2 for s2 in blk[:k] if isinstance(s2, ast.Assign) and len(s2.targets) == 1 and isinstance(s2.targets[0], ast.Name) and s2.targets[0].id == cnt]
            if len(incs) != 1 or len(others) != 1 or reads or len(init_c) != 1 or not (isinstance(init_c[0].value, ast.Constant) and isinstance(init_c[0].value.value, int)):
                continue
            if any(isinstance(n, ast.Name) and n.id == cnt for s2 in blk[k + 1:] for n in ast.walk(s2)):
                continue
            body = [s2 for s2 in st.body if s2 is not incs[0]]
            drop = [init_c[0]]
            if isinstance(stop, ast.Name):
                flag = stop.id
                sets = [s2 for s2 in body if isinstance(s2, ast.Assign) and len(s2.targets) == 1 and isinstance(s2.targets[0], ast.Name) and s2.targets[0].id == flag]
                init_f = [s2 for s2 in blk[:k] if isinstance(s2, ast.Assign) and len(s2.targets) == 1 and isinstance(s2.targets[0], ast.Name) and s2.targets[0].id == flag]
                n_st = sum(1 for n in ast.walk(st) if isinstance(n, ast.Name) and n.id == flag and isinstance(n.ctx, ast.Store))
                if len(sets) != 1 or n_st != 1 or len(init_f) != 1 or not (isinstance(init_f[0].value, ast.Constant) and init_f[0].value.value is False):
                    continue
                if any(isinstance(n, ast.Name) and n.id == flag for s2 in blk[k + 1:] for n in ast.walk(s2)) or any(isinstance(n, ast.Name) and n.id == flag for s2 in body[body.index(sets[0]) + 1:] for n in ast.walk(s2)):
                    continue
                t = sets[0].value
                if isinstance(t, ast.Call) and isinstance(t.func, ast.Name) and t.func.id == "bool" and len(t.args) == 1:
                    t = t.args[0]
                pos = body.index(sets[0])
                # statements after the flag assignment still run in that iteration: the break comes after them
                body = body[:pos] + body[pos + 1:] + [ast.If(test=t, body=[ast.Break()], orelse=[])]
                drop.append(init_f[0])
            elif isinstance(stop, ast.Compare):
                names = {n.id for n in ast.walk(stop) if isinstance(n, ast.Name)}
                assigned = {s2.targets[0].id for s2 in ast.walk(st) if isinstance(s2, ast.Assign) and len(s2.targets) == 1 and isinstance(s2.targets[0], ast.Name)}
                if not (names & assigned):
                    continue
                body = body + [ast.If(test=copy.deepcopy(stop), body=[ast.Break()], orelse=[])]
            else:
                continue
            s0 = init_c[0].value.value
            args = [bound] if s0 == 0 else [ast.Constant(value=s0), bound]
            new = ast.For(target=ast.Name(id="_", ctx=ast.Store()), iter=ast.Call(func=ast.Name(id="range", ctx=ast.Load()), args=args, keywords=[]), body=body, orelse=[], type_comment=None)
            ast.copy_location(new, st)
            blk[k] = new
            blk[:] = [s2 for s2 in blk if not any(s2 is d for d in drop)]
            return ast.fix_missing_locations(fn)
    return fn


def filter_loops_to_comprehensions(stmts: list) -> list:
    """`out = {}` followed by `for T in ITER: if COND: out[K] = V` (or `if not COND: continue` before the store) is the dictionary
    comprehension `{K: V for T in ITER if COND}`; returns a new statement list (the nodes of the other statements are shared, nothing is mutated).
    Only applied when the loop targets are not read afterwards and `out` occurs nowhere else in the loop."""
    def names(t, ctx=None):
        return {x.id for x in ast.walk(t) if isinstance(x, ast.Name) and (ctx is None or isinstance(x.ctx, ctx))}

    out, i = [], 0
    while i < len(stmts):
        a = stmts[i]
        b = stmts[i + 1] if i + 1 < len(stmts) else None
        new = None
        if isinstance(a, (ast.Assign, ast.AnnAssign)) and isinstance(b, ast.For) and not b.orelse:
            tg = a.targets[0] if isinstance(a, ast.Assign) and len(a.targets) == 1 else (a.target if isinstance(a, ast.AnnAssign) else None)
            val = a.value
            empty = (isinstance(val, ast.Dict) and not val.keys) or (isinstance(val, ast.Call) and isinstance(val.func, ast.Name) and val.func.id == "dict" and not val.args and not val.keywords)
            if isinstance(tg, ast.Name) and empty:
                body, cond = b.body, None
                if len(body) == 1 and isinstance(body[0], ast.If) and not body[0].orelse and len(body[0].body) == 1:
                    cond, st = body[0].test, body[0].body[0]
                elif len(body) == 2 and isinstance(body[0], ast.If) and not body[0].orelse and len(body[0].body) == 1 and isinstance(body[0].body[0], ast.Continue):
                    cond, st = ast.UnaryOp(op=ast.Not(), operand=body[0].test), body[1]
                    if isinstance(body[0].test, ast.UnaryOp) and isinstance(body[0].test.op, ast.Not):
                        cond = body[0].test.operand
                    ast.copy_location(cond, body[0].test)
                else:
                    st = None
                if st is not None and isinstance(st, ast.Assign) and len(st.targets) == 1 and isinstance(st.targets[0], ast.Subscript) \
                        and isinstance(st.targets[0].value, ast.Name) and st.targets[0].value.id == tg.id:
                    key, value = st.targets[0].slice, st.value
                    bound = names(b.target)
                    later = set()
                    for r in stmts[i + 2:]:
                        later |= names(r, ast.Load)
                    if tg.id not in (names(b.iter) | names(cond) | names(key) | names(value)) and not (bound & later) and not any(isinstance(x, (ast.Yield, ast.YieldFrom, ast.Await, ast.NamedExpr)) for x in ast.walk(b)):
                        comp = ast.DictComp(key=key, value=value, generators=[ast.comprehension(target=b.target, iter=b.iter, ifs=[cond], is_async=0)])
                        new = ast.Assign(targets=[ast.Name(id=tg.id, ctx=ast.Store())], value=comp)
                        ast.copy_location(comp, b)
                        ast.copy_location(new, b)
                        ast.fix_missing_locations(new)
        if new is not None:
            out.append(new)
            i += 2
        else:
            out.append(a)
            i += 1
    return out


def inclusion_exclusion_to_intersection(stmts: list) -> list:
    """`len(A | B) < len(A) + len(B)` (also `>` with the sides swapped, `!=`, `A.union(B)`, and with the merged size held in a local assigned
    once) asks whether two sets overlap: it is rewritten to `len(A & B) != 0`; `==` / `>=` / `<=` (no element lost) to `len(A & B) == 0`.
    Returns a new top-level statement list; changed statements are copies."""
    import copy

    def union_of(e):
        if isinstance(e, ast.Call) and isinstance(e.func, ast.Name) and e.func.id == "len" and len(e.args) == 1 and not e.keywords:
            u = e.args[0]
            if isinstance(u, ast.BinOp) and isinstance(u.op, ast.BitOr):
                return u.left, u.right
            if isinstance(u, ast.Call) and isinstance(u.func, ast.Attribute) and u.func.attr == "union" and len(u.args) == 1 and not u.keywords:
                return u.func.value, u.args[0]
        return None

    def len_sum(e):
        if isinstance(e, ast.BinOp) and isinstance(e.op, ast.Add):
            xs = []
            for s in (e.left, e.right):
                if isinstance(s, ast.Call) and isinstance(s.func, ast.Name) and s.func.id == "len" and len(s.args) == 1 and not s.keywords:
                    xs.append(s.args[0])
            if len(xs) == 2:
                return xs
        return None

    assigned: dict = {}
    for st in stmts:
        for n in ast.walk(st):
            if isinstance(n, ast.Name) and isinstance(n.ctx, ast.Store):
                assigned[n.id] = assigned.get(n.id, 0) + 1
    held = {}
    for st in stmts:
        if isinstance(st, ast.Assign) and len(st.targets) == 1 and isinstance(st.targets[0], ast.Name) and assigned.get(st.targets[0].id) == 1 and union_of(st.value):
            held[st.targets[0].id] = st.value

    class T(ast.NodeTransformer):
        changed = False

        def visit_Compare(self, node):
            self.generic_visit(node)
            if len(node.ops) != 1:
                return node
            l, r, op = node.left, node.comparators[0], node.ops[0]
            l2 = held.get(l.id, l) if isinstance(l, ast.Name) else l
            r2 = held.get(r.id, r) if isinstance(r, ast.Name) else r
            if union_of(l2) and len_sum(r2):
                u, s, o = union_of(l2), len_sum(r2), op
            elif union_of(r2) and len_sum(l2):
                u, s = union_of(r2), len_sum(l2)
                o = {ast.Lt: ast.Gt, ast.Gt: ast.Lt, ast.LtE: ast.GtE, ast.GtE: ast.LtE}.get(type(op), type(op))()
            else:
                return node
            d = ast.dump
            if {d(u[0]), d(u[1])} != {d(s[0]), d(s[1])} or d(u[0]) == d(u[1]):
                return node
            if isinstance(o, (ast.Lt, ast.NotEq)):
                new_op = ast.NotEq()
            elif isinstance(o, (ast.Eq, ast.GtE)):
                new_op = ast.Eq()
            else:
                return node
            inter = ast.Call(func=ast.Name(id="len", ctx=ast.Load()), args=[ast.BinOp(left=copy.deepcopy(u[0]), op=ast.BitAnd(), right=copy.deepcopy(u[1]))], keywords=[])
            new = ast.Compare(left=inter, ops=[new_op], comparators=[ast.Constant(value=0)])
            ast.copy_location(new, node)
            ast.fix_missing_locations(new)
            T.changed = True
            return new

    out = []
    for st in stmts:
        if any(isinstance(n, ast.Compare) for n in ast.walk(st)):
            T.changed = False
            c = T().visit(copy.deepcopy(st))
            out.append(c if T.changed else st)
        else:
            out.append(st)
    return out
