"""Rational-coefficient multivariate polynomials (and simple quotients) in normal form.

Used for Python integers/floats that are sizes, offsets and constants: ``m - f - 2``, ``(i + 1) * k``,
``1 / m`` ... Equality of normal forms decides equality of the expressions for all symbol values.
"""

from __future__ import annotations

from fractions import Fraction


class Poly:
    """Polynomial: mapping monomial -> coefficient, monomial = sorted tuple of (symbol, exponent)."""

    __slots__ = ("terms",)

    def __init__(self, terms=None):
        self.terms: dict[tuple, Fraction] = {}
        if terms:
            for mono, c in terms.items():
                c = Fraction(c)
                if c != 0:
                    self.terms[mono] = c

    # -- constructors
    @staticmethod
    def const(c) -> "Poly":
        if isinstance(c, float):
            c = Fraction(c).limit_denominator(10**12) if c == c and abs(c) != float("inf") else None
            if c is None:
                raise ValueError("non-finite constant")
        return Poly({(): Fraction(c)})

    @staticmethod
    def sym(name: str) -> "Poly":
        return Poly({((name, 1),): Fraction(1)})

    # -- algebra
    def __add__(self, o: "Poly") -> "Poly":
        t = dict(self.terms)
        for m, c in o.terms.items():
            t[m] = t.get(m, Fraction(0)) + c
        return Poly(t)

    def __neg__(self) -> "Poly":
        return Poly({m: -c for m, c in self.terms.items()})

    def __sub__(self, o: "Poly") -> "Poly":
        return self + (-o)

    def __mul__(self, o: "Poly") -> "Poly":
        t: dict[tuple, Fraction] = {}
        for m1, c1 in self.terms.items():
            for m2, c2 in o.terms.items():
                d = dict(m1)
                for s, e in m2:
                    d[s] = d.get(s, 0) + e
                m = tuple(sorted((s, e) for s, e in d.items() if e != 0))
                t[m] = t.get(m, Fraction(0)) + c1 * c2
        return Poly(t)

    def is_const(self) -> bool:
        return all(m == () for m in self.terms)

    def const_value(self) -> Fraction | None:
        if not self.terms:
            return Fraction(0)
        if self.is_const():
            return self.terms[()]
        return None

    def is_monomial(self) -> bool:
        return len(self.terms) == 1

    def inverse(self) -> "Poly | None":
        """1/self when self is a single monomial (possibly with negative exponents afterwards)."""
        if len(self.terms) != 1:
            return None
        (m, c), = self.terms.items()
        return Poly({tuple(sorted((s, -e) for s, e in m)): 1 / c})

    def symbols(self) -> set[str]:
        return {s for m in self.terms for s, _ in m}

    def subs(self, name: str, value: "Poly") -> "Poly":
        out = Poly()
        for m, c in self.terms.items():
            term = Poly({(): c})
            for s, e in m:
                if s == name:
                    if e < 0:
                        inv = value.inverse()
                        if inv is None:
                            raise ValueError("cannot substitute into negative power")
                        base, e = inv, -e
                    else:
                        base = value
                    for _ in range(e):
                        term = term * base
                else:
                    term = term * Poly({((s, e),): Fraction(1)})
            out = out + term
        return out

    def __eq__(self, o) -> bool:
        return isinstance(o, Poly) and self.terms == o.terms

    def __hash__(self):
        return hash(tuple(sorted(self.terms.items())))

    def __repr__(self) -> str:
        if not self.terms:
            return "0"
        parts = []
        for m, c in sorted(self.terms.items(), key=lambda kv: (len(kv[0]), kv[0])):
            mono = "*".join(s if e == 1 else f"{s}^{e}" for s, e in m)
            if not mono:
                parts.append(str(c))
            elif c == 1:
                parts.append(mono)
            elif c == -1:
                parts.append("-" + mono)
            else:
                parts.append(f"{c}*{mono}")
        return " + ".join(parts).replace("+ -", "- ")


ZERO = Poly()
ONE = Poly.const(1)
