"""Command line of the static checks (see DESIGN.md section 9)."""

from __future__ import annotations

import argparse
import importlib
import json
import os
import sys
import time
import traceback

from . import AnalysisError
from .index import build_index
from .report import CheckContext, finish

PROPS = ["C01", "C02", "C03", "C05", "C06", "C07", "C08", "C10", "C11", "C12", "C13", "C14", "C15", "C16", "C18", "C19", "C20"]


def run_property(prop: str, repo: str, tier: str, seed: int, overlay=None, write_evidence=True, quiet=False) -> int:
    t0 = time.time()
    ctx = CheckContext(prop=prop, tier=tier, seed=seed)
    digest = "?"
    try:
        index = build_index(repo, overlay)
        digest = index.digest
        mod = importlib.import_module(f"sa.props.{prop}")
        mod.check(index, ctx)
    except AnalysisError as e:
        ctx.undecided("engine", "analysis", f"{e}")
    except RecursionError as e:  # pragma: no cover
        ctx.undecided("engine", "analysis", f"recursion limit: {e}")
    except Exception as e:  # tracebacks are analysis errors, never violations
        tb = traceback.format_exc(limit=6)
        ctx.undecided("engine", "checker-crash", f"{type(e).__name__}: {e}\n{tb}")
    if quiet:
        import contextlib
        import io

        buf = io.StringIO()
        with contextlib.redirect_stdout(buf):
            rc = finish(ctx, time.time() - t0, digest, repo, write_evidence)
        ctx.extra["_stdout"] = buf.getvalue()
        return rc
    return finish(ctx, time.time() - t0, digest, repo, write_evidence)


def main(argv=None) -> int:
    ap = argparse.ArgumentParser(prog="check")
    ap.add_argument("prop", nargs="?")
    ap.add_argument("--tier", default=os.environ.get("VERIF_TIER", "quick"), choices=["quick", "thorough"])
    ap.add_argument("--replay")
    ap.add_argument("--selfcheck", action="store_true")
    ap.add_argument("--all", action="store_true")
    ap.add_argument("--repo", default=os.environ.get("VERIF_REPO", "/repo"))
    ap.add_argument("--no-evidence", action="store_true")
    a = ap.parse_args(argv)
    seed = int(os.environ.get("VERIF_SEED", "0") or 0)
    if a.selfcheck:
        import compileall

        ok = compileall.compile_dir(os.path.dirname(__file__), quiet=1, force=False)
        try:
            idx = build_index(a.repo)
            print(f"selfcheck: {len(idx.modules)} modules, {len(idx.classes)} classes, {len(idx.functions)} functions parsed from {a.repo}/src/torchjd")
        except AnalysisError as e:
            print(f"ANALYSIS-ERROR selfcheck: {e}")
            return 2
        return 0 if ok else 2
    if a.all:
        rc = 0
        for p in PROPS:
            if a.tier == "thorough":
                from .selftest import run_thorough

                r = run_thorough(p, a.repo, seed, write_evidence=not a.no_evidence)
            else:
                r = run_property(p, a.repo, a.tier, seed, write_evidence=not a.no_evidence)
            rc = max(rc, r)
        return rc
    if not a.prop:
        ap.error("property id required")
    if a.replay:
        with open(a.replay, encoding="utf-8") as fh:
            rp = json.load(fh)
        want = rp["finding"]
        ctx_rc = run_property(a.prop, a.repo, a.tier, seed, write_evidence=False)
        print(f"replay of {want['rule']} @ {want['construct']}: {'still reported' if ctx_rc == 1 else 'not reproduced'}")
        return ctx_rc
    if a.tier == "thorough":
        from .selftest import run_thorough

        return run_thorough(a.prop, a.repo, seed, write_evidence=not a.no_evidence)
    return run_property(a.prop, a.repo, a.tier, seed, write_evidence=not a.no_evidence)


class _QuietPipe:
    """stdout that survives a reader that went away (`./check C01 | head -1`): the verdict is the exit code, not the text."""

    def __init__(self, raw):
        self.raw, self.dead = raw, False

    def write(self, text):
        if not self.dead:
            try:
                return self.raw.write(text)
            except BrokenPipeError:
                self.dead = True
        return len(text)

    def flush(self):
        if not self.dead:
            try:
                self.raw.flush()
            except BrokenPipeError:
                self.dead = True

    def __getattr__(self, name):
        return getattr(self.raw, name)


if __name__ == "__main__":
    sys.stdout = _QuietPipe(sys.stdout)
    try:
        rc_ = main()
        sys.stdout.flush()
        if sys.stdout.dead:
            os.dup2(os.open(os.devnull, os.O_WRONLY), 1)  # nothing more to say at interpreter shutdown
        sys.exit(rc_)
    except SystemExit:
        raise
    except Exception:  # pragma: no cover
        traceback.print_exc()
        print("ANALYSIS-ERROR checker crashed")
        sys.exit(2)
