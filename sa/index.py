"""Program index: modules, imports, classes (with MRO), functions — the stand-in for a type checker.

The index is built from a *source set* ``{relative path: text}`` so a variant of the repository can be
analysed as an in-memory overlay (self-test) without touching disk.
"""

from __future__ import annotations

import ast
import hashlib
import os
from dataclasses import dataclass, field

from . import AnalysisError

PKG = "torchjd"


def load_sources(repo: str) -> dict[str, str]:
    """Reads every ``*.py`` under ``<repo>/src/torchjd``; keys are paths relative to ``<repo>``."""
    root = os.path.join(repo, "src", PKG)
    out: dict[str, str] = {}
    for dirpath, dirnames, filenames in os.walk(root):
        dirnames[:] = sorted(d for d in dirnames if d != "__pycache__")
        for fn in sorted(filenames):
            if fn.endswith(".py"):
                full = os.path.join(dirpath, fn)
                with open(full, encoding="utf-8") as fh:
                    out[os.path.relpath(full, repo)] = fh.read()
    if not out:
        raise AnalysisError(f"no python sources found under {root}")
    return out


def digest(sources: dict[str, str]) -> str:
    h = hashlib.sha256()
    for k in sorted(sources):
        h.update(k.encode())
        h.update(b"\0")
        h.update(sources[k].encode())
        h.update(b"\0")
    return h.hexdigest()[:16]


@dataclass
class FunctionInfo:
    qualname: str  # module-qualified, e.g. torchjd.autojac._transform.jac.Jac._differentiate
    name: str
    node: ast.FunctionDef | ast.Lambda
    module: "ModuleInfo"
    cls: "ClassInfo | None" = None
    parent: "FunctionInfo | None" = None  # enclosing function for nested defs
    decorators: tuple[str, ...] = ()

    @property
    def is_static(self) -> bool:
        return "staticmethod" in self.decorators

    @property
    def is_classmethod(self) -> bool:
        return "classmethod" in self.decorators

    @property
    def is_property(self) -> bool:
        return "property" in self.decorators

    @property
    def is_abstract(self) -> bool:
        return "abstractmethod" in self.decorators

    @property
    def path(self) -> str:
        return self.module.path

    @property
    def short(self) -> str:
        """Qualified name without the package-module prefix: ``Jac._differentiate``."""
        return self.qualname[len(self.module.name) + 1 :]

    def loc(self, node: ast.AST | None = None) -> str:
        n = node if node is not None else self.node
        return f"{self.path}:{getattr(n, 'lineno', 0)}"


@dataclass
class ClassInfo:
    qualname: str
    name: str
    node: ast.ClassDef
    module: "ModuleInfo"
    base_exprs: list[ast.expr] = field(default_factory=list)
    bases: list["ClassInfo | str"] = field(default_factory=list)  # repo class or external dotted name
    methods: dict[str, FunctionInfo] = field(default_factory=dict)
    aliases: dict[str, str] = field(default_factory=dict)  # attr -> name of another class-level attr
    class_attrs: dict[str, ast.expr] = field(default_factory=dict)
    mro: list["ClassInfo"] = field(default_factory=list)
    external_bases: list[str] = field(default_factory=list)  # transitive external base names

    def lookup(self, attr: str) -> tuple["ClassInfo", FunctionInfo] | None:
        """MRO lookup of a method (following class-level aliases such as ``__lshift__ = compose``)."""
        for c in self.mro:
            if attr in c.methods:
                return c, c.methods[attr]
            if attr in c.aliases:
                target = c.aliases[attr]
                # alias is resolved in the class that defines it (python binds the function object)
                for c2 in c.mro:
                    if target in c2.methods:
                        return c, c2.methods[target]
        return None

    def defines(self, attr: str) -> bool:
        return attr in self.methods or attr in self.aliases or attr in self.class_attrs

    def is_subclass_of(self, other: "ClassInfo | str") -> bool:
        if isinstance(other, ClassInfo):
            return other in self.mro
        return other in self.external_bases

    @property
    def path(self) -> str:
        return self.module.path

    def loc(self) -> str:
        return f"{self.path}:{self.node.lineno}"


@dataclass
class ModuleInfo:
    name: str  # dotted
    path: str  # relative to repo
    tree: ast.Module
    source: str
    is_package: bool
    # local name -> ("mod", dotted) | ("obj", dotted module, attr)
    imports: dict[str, tuple] = field(default_factory=dict)
    functions: dict[str, FunctionInfo] = field(default_factory=dict)
    classes: dict[str, ClassInfo] = field(default_factory=dict)
    globals_: dict[str, ast.expr] = field(default_factory=dict)  # simple module-level assignments


class ProgramIndex:
    def __init__(self, sources: dict[str, str]):
        self.sources = sources
        self.digest = digest(sources)
        self.modules: dict[str, ModuleInfo] = {}
        self.functions: dict[str, FunctionInfo] = {}  # by qualname (incl. nested + lambdas)
        self.classes: dict[str, ClassInfo] = {}
        self._fn_of_node: dict[int, FunctionInfo] = {}
        for path, text in sorted(sources.items()):
            self._load_module(path, text)
        for m in self.modules.values():
            self._collect_imports(m)
        for m in self.modules.values():
            self._collect_defs(m)
        for c in self.classes.values():
            self._resolve_bases(c)
        for c in self.classes.values():
            c.mro = self._c3(c, ())
            ext: list[str] = []
            for k in c.mro:
                for b in k.bases:
                    if isinstance(b, str) and b not in ext:
                        ext.append(b)
            c.external_bases = ext

    # ------------------------------------------------------------------ loading
    def _load_module(self, path: str, text: str) -> None:
        rel = path
        assert rel.startswith("src/"), rel
        parts = rel[len("src/") : -len(".py")].split("/")
        is_pkg = parts[-1] == "__init__"
        if is_pkg:
            parts = parts[:-1]
        name = ".".join(parts)
        try:
            tree = ast.parse(text, filename=path)
        except SyntaxError as e:  # pragma: no cover
            raise AnalysisError(f"{path} does not parse: {e}") from e
        self.modules[name] = ModuleInfo(name, path, tree, text, is_pkg)

    def _collect_imports(self, m: ModuleInfo) -> None:
        for node in ast.walk(m.tree):
            if isinstance(node, ast.Import):
                for a in node.names:
                    local = a.asname or a.name.split(".")[0]
                    target = a.name if a.asname else a.name.split(".")[0]
                    m.imports[local] = ("mod", target)
            elif isinstance(node, ast.ImportFrom):
                if node.level:
                    base = m.name.split(".")
                    if not m.is_package:
                        base = base[:-1]
                    base = base[: len(base) - (node.level - 1)]
                    src = ".".join(base + ([node.module] if node.module else []))
                else:
                    src = node.module or ""
                for a in node.names:
                    local = a.asname or a.name
                    m.imports[local] = ("obj", src, a.name)

    def _collect_defs(self, m: ModuleInfo) -> None:
        for st in m.tree.body:
            if isinstance(st, ast.FunctionDef):
                self._add_function(st, m, None, None)
            elif isinstance(st, ast.ClassDef):
                self._add_class(st, m)
            elif isinstance(st, ast.Assign) and len(st.targets) == 1 and isinstance(st.targets[0], ast.Name):
                m.globals_[st.targets[0].id] = st.value
            elif isinstance(st, ast.AnnAssign) and isinstance(st.target, ast.Name) and st.value is not None:
                m.globals_[st.target.id] = st.value
            elif isinstance(st, ast.Assign) and len(st.targets) == 1 and isinstance(st.targets[0], ast.Attribute) and isinstance(st.targets[0].value, ast.Name) \
                    and st.targets[0].value.id in m.classes:
                # `C.attr = value` at module level, after the class statement: a class attribute bound late (e.g. to a class defined further down)
                ci = m.classes[st.targets[0].value.id]
                if isinstance(st.value, ast.Name):
                    ci.aliases[st.targets[0].attr] = st.value.id
                ci.class_attrs[st.targets[0].attr] = st.value
            else:
                self._late_setattr(st, m)

    @staticmethod
    def _late_setattr(st, m: ModuleInfo) -> None:
        """`setattr(C, "name", C.other)` at module level, alone or in `for n in ("a", "b", ...): setattr(C, n, C.other)` (the tuple may be a module
        constant defined above): class attributes bound right after the class statement, read as the aliases they are."""
        def bind(call, names):
            if not (isinstance(call, ast.Call) and isinstance(call.func, ast.Name) and call.func.id == "setattr" and len(call.args) == 3 and not call.keywords):
                return
            c, _, v = call.args
            if not (isinstance(c, ast.Name) and c.id in m.classes):
                return
            ci = m.classes[c.id]
            target = v.id if isinstance(v, ast.Name) else (v.attr if isinstance(v, ast.Attribute) and isinstance(v.value, ast.Name) and v.value.id == c.id else None)
            for n in names:
                if target is not None:
                    ci.aliases[n] = target
                ci.class_attrs[n] = v

        if isinstance(st, ast.Expr) and isinstance(st.value, ast.Call) and len(st.value.args) == 3 and isinstance(st.value.args[1], ast.Constant) and isinstance(st.value.args[1].value, str):
            bind(st.value, [st.value.args[1].value])
        elif isinstance(st, ast.For) and isinstance(st.target, ast.Name) and not st.orelse and len(st.body) == 1 and isinstance(st.body[0], ast.Expr):
            it = st.iter
            if isinstance(it, ast.Name) and it.id in m.globals_:
                it = m.globals_[it.id]
            call = st.body[0].value
            if isinstance(it, (ast.Tuple, ast.List)) and all(isinstance(e, ast.Constant) and isinstance(e.value, str) for e in it.elts) and isinstance(call, ast.Call) \
                    and len(call.args) == 3 and isinstance(call.args[1], ast.Name) and call.args[1].id == st.target.id:
                bind(call, [e.value for e in it.elts])

    @staticmethod
    def _decorators(node: ast.FunctionDef) -> tuple[str, ...]:
        out = []
        for d in node.decorator_list:
            if isinstance(d, ast.Name):
                out.append(d.id)
            elif isinstance(d, ast.Attribute):
                out.append(d.attr)
            elif isinstance(d, ast.Call):
                f = d.func
                out.append(f.id if isinstance(f, ast.Name) else getattr(f, "attr", "?"))
        return tuple(out)

    def _add_function(self, node, m: ModuleInfo, cls: ClassInfo | None, parent: FunctionInfo | None) -> FunctionInfo:
        if parent is not None:
            qn = f"{parent.qualname}.<locals>.{node.name}"
        elif cls is not None:
            qn = f"{cls.qualname}.{node.name}"
        else:
            qn = f"{m.name}.{node.name}"
        node = self._expand_wrapping_decorators(node, m)
        fi = FunctionInfo(qn, node.name, node, m, cls, parent, self._decorators(node))
        self.functions[qn] = fi
        self._fn_of_node[id(node)] = fi
        if cls is not None and parent is None:
            cls.methods[node.name] = fi
        elif cls is None and parent is None:
            m.functions[node.name] = fi
        # nested function definitions
        for sub in self._direct_nested_defs(node):
            self._add_function(sub, m, cls, fi)
        return fi

    @staticmethod
    def _expand_wrapping_decorators(node, m: ModuleInfo):
        """`@factory(a, b)` where `factory` is a function of the same module of the shape

            def factory(P...):            (or the decorator itself, without the factory layer: `@decorator`)
                def decorator(f):
                    @wraps(f)
                    def wrapper(X...):  PRE;  return f(X...)
                    return wrapper
                return decorator

        is the decorated function with PRE (no return / yield in it) executed first: the body becomes PRE + body, with the wrapper's parameters renamed to
        the function's own, the factory's parameters replaced by the arguments of the decorator call, `for v in (<constants>)` unrolled and
        `getattr(obj, "name")` read as `obj.name`.  Any other decorator is left alone."""
        import copy

        def body_of(fn):
            b = list(fn.body)
            if b and isinstance(b[0], ast.Expr) and isinstance(b[0].value, ast.Constant) and isinstance(b[0].value.value, str):
                b = b[1:]
            return b

        def module_fn(name):
            return next((st for st in m.tree.body if isinstance(st, ast.FunctionDef) and st.name == name), None)

        def def_and_return(fn):
            b = body_of(fn)
            if len(b) == 2 and isinstance(b[0], ast.FunctionDef) and isinstance(b[1], ast.Return) and isinstance(b[1].value, ast.Name) and b[1].value.id == b[0].name:
                return b[0]
            return None

        for d in list(node.decorator_list):
            call = d if isinstance(d, ast.Call) else None
            fname = d.func.id if call is not None and isinstance(d.func, ast.Name) else (d.id if isinstance(d, ast.Name) else None)
            outer = module_fn(fname) if fname else None
            if outer is None or outer is node:
                continue
            subst: dict = {}
            if call is not None:
                deco = def_and_return(outer)
                if deco is None or call.keywords or outer.args.kwonlyargs or outer.args.kwarg or outer.args.defaults:
                    continue
                pos = [a.arg for a in outer.args.args]
                if len(call.args) < len(pos) or (len(call.args) > len(pos) and outer.args.vararg is None) or any(isinstance(a, ast.Starred) for a in call.args):
                    continue
                for pn, a in zip(pos, call.args):
                    subst[pn] = a
                if outer.args.vararg is not None:
                    subst[outer.args.vararg.arg] = ast.Tuple(elts=list(call.args[len(pos):]), ctx=ast.Load())
            else:
                deco = outer
            if len(deco.args.args) != 1 or deco.args.vararg or deco.args.kwarg or deco.args.kwonlyargs:
                continue
            wrapper = def_and_return(deco)
            if wrapper is None:
                continue
            fpar = deco.args.args[0].arg
            wb = body_of(wrapper)
            wpar = [a.arg for a in wrapper.args.args]
            opar = [a.arg for a in node.args.args]
            if not wb or wrapper.args.vararg or wrapper.args.kwarg or wrapper.args.kwonlyargs or node.args.vararg or node.args.kwarg or node.args.kwonlyargs or len(wpar) != len(opar):
                continue
            last = wb[-1]
            if not (isinstance(last, ast.Return) and isinstance(last.value, ast.Call) and isinstance(last.value.func, ast.Name) and last.value.func.id == fpar and not last.value.keywords
                    and [a.id if isinstance(a, ast.Name) else None for a in last.value.args] == wpar):
                continue
            pre = wb[:-1]
            if any(isinstance(x, (ast.Return, ast.Yield, ast.YieldFrom, ast.Await, ast.FunctionDef, ast.Lambda, ast.Global, ast.Nonlocal)) for st in pre for x in ast.walk(st)) \
                    or any(isinstance(x, ast.Name) and x.id == fpar for st in pre for x in ast.walk(st)):
                continue
            stored = {x.id for st in pre for x in ast.walk(st) if isinstance(x, ast.Name) and isinstance(x.ctx, ast.Store)}
            if stored & (set(subst) | set(wpar) | set(opar)):
                continue
            for a, b in zip(wpar, opar):
                subst[a] = ast.Name(id=b, ctx=ast.Load())

            class Sub(ast.NodeTransformer):
                def __init__(self, mp):
                    self.mp = mp

                def visit_Name(self, n):
                    if isinstance(n.ctx, ast.Load) and n.id in self.mp:
                        return ast.copy_location(copy.deepcopy(self.mp[n.id]), n)
                    return n

                def visit_Call(self, n):
                    self.generic_visit(n)
                    if isinstance(n.func, ast.Name) and n.func.id == "getattr" and len(n.args) == 2 and not n.keywords and isinstance(n.args[1], ast.Constant) and isinstance(n.args[1].value, str):
                        return ast.copy_location(ast.Attribute(value=n.args[0], attr=n.args[1].value, ctx=ast.Load()), n)
                    return n

            def expand(stmts, mp):
                out = []
                for st in stmts:
                    if isinstance(st, ast.For) and isinstance(st.target, ast.Name) and not st.orelse and isinstance(st.iter, ast.Name) and st.iter.id in mp \
                            and isinstance(mp[st.iter.id], ast.Tuple) and all(isinstance(e, ast.Constant) for e in mp[st.iter.id].elts) \
                            and not any(isinstance(x, (ast.Break, ast.Continue)) for b in st.body for x in ast.walk(b)):
                        for e in mp[st.iter.id].elts:
                            out += expand(st.body, {**mp, st.target.id: e})
                    else:
                        out.append(ast.fix_missing_locations(Sub(mp).visit(copy.deepcopy(st))))
                return out

            new = copy.copy(node)
            new.decorator_list = [x for x in node.decorator_list if x is not d]
            doc = [node.body[0]] if node.body and isinstance(node.body[0], ast.Expr) and isinstance(node.body[0].value, ast.Constant) and isinstance(node.body[0].value.value, str) else []
            new.body = doc + expand(pre, subst) + list(node.body[len(doc):])
            node = new
        return node

    @staticmethod
    def _direct_nested_defs(fn_node) -> list[ast.FunctionDef]:
        out: list[ast.FunctionDef] = []

        def visit(n):
            for ch in ast.iter_child_nodes(n):
                if isinstance(ch, ast.FunctionDef):
                    out.append(ch)
                elif isinstance(ch, (ast.ClassDef, ast.Lambda)):
                    continue
                else:
                    visit(ch)

        for st in fn_node.body:
            if isinstance(st, ast.FunctionDef):
                out.append(st)
            else:
                visit(st)
        return out

    def _add_class(self, node: ast.ClassDef, m: ModuleInfo) -> None:
        qn = f"{m.name}.{node.name}"
        ci = ClassInfo(qn, node.name, node, m, list(node.bases))
        self.classes[qn] = ci
        m.classes[node.name] = ci
        for st in node.body:
            if isinstance(st, ast.FunctionDef):
                self._add_function(st, m, ci, None)
            elif isinstance(st, ast.Assign):
                for t in st.targets:
                    if isinstance(t, ast.Name):
                        if isinstance(st.value, ast.Name):
                            ci.aliases[t.id] = st.value.id
                        ci.class_attrs[t.id] = st.value
            elif isinstance(st, ast.AnnAssign) and isinstance(st.target, ast.Name) and st.value is not None:
                ci.class_attrs[st.target.id] = st.value
        # a class-level alias pointing at something that is not a method of the class/MRO is just an attr
        return None

    # ------------------------------------------------------------------ resolution
    def resolve_name(self, m: ModuleInfo, name: str, _depth: int = 0):
        """Resolves a module-level name to ClassInfo | FunctionInfo | ('ext', dotted) | ('mod', dotted)
        | ('global', module, expr) | None."""
        if _depth > 20:
            return None
        if name in m.classes:
            return m.classes[name]
        if name in m.functions:
            return m.functions[name]
        if name in m.imports:
            imp = m.imports[name]
            if imp[0] == "mod":
                return ("mod", imp[1])
            _, src, attr = imp
            return self.resolve_attr_of_module(src, attr, _depth + 1)
        if name in m.globals_:
            return ("global", m, m.globals_[name])
        return None

    def resolve_attr_of_module(self, modname: str, attr: str, _depth: int = 0):
        if modname in self.modules:
            mm = self.modules[modname]
            r = self.resolve_name(mm, attr, _depth + 1)
            if r is not None:
                return r
            sub = f"{modname}.{attr}"
            if sub in self.modules:
                return ("mod", sub)
            return None
        sub = f"{modname}.{attr}"
        if sub in self.modules:
            return ("mod", sub)
        if modname.split(".")[0] == PKG:
            return None
        return ("ext", sub)

    def resolve_expr(self, m: ModuleInfo, expr: ast.expr):
        """Resolves a dotted expression made of Names/Attributes/Subscripts(Generic[...]) statically."""
        if isinstance(expr, ast.Subscript):
            return self.resolve_expr(m, expr.value)
        if isinstance(expr, ast.Name):
            return self.resolve_name(m, expr.id)
        if isinstance(expr, ast.Attribute):
            base = self.resolve_expr(m, expr.value)
            if base is None:
                return None
            if isinstance(base, tuple) and base[0] == "mod":
                return self.resolve_attr_of_module(base[1], expr.attr)
            if isinstance(base, tuple) and base[0] == "ext":
                return ("ext", base[1] + "." + expr.attr)
            if isinstance(base, ClassInfo):
                r = base.lookup(expr.attr)
                return r[1] if r else None
        return None

    def _resolve_bases(self, c: ClassInfo) -> None:
        for b in c.base_exprs:
            r = self.resolve_expr(c.module, b)
            if isinstance(r, ClassInfo):
                c.bases.append(r)
            elif isinstance(r, tuple) and r[0] in ("ext", "mod"):
                c.bases.append(r[1])
            else:
                # builtins (dict, object, Exception ...)
                c.bases.append("builtins." + ast.unparse(b.value if isinstance(b, ast.Subscript) else b))

    def _c3(self, c: ClassInfo, seen: tuple) -> list[ClassInfo]:
        if c in seen:
            raise AnalysisError(f"inheritance cycle at {c.qualname}")
        parents = [b for b in c.bases if isinstance(b, ClassInfo)]
        seqs = [self._c3(p, seen + (c,)) for p in parents] + [list(parents)]
        res = [c]
        seqs = [s for s in seqs if s]
        while seqs:
            for s in seqs:
                head = s[0]
                if not any(head in t[1:] for t in seqs):
                    break
            else:
                raise AnalysisError(f"inconsistent MRO for {c.qualname}")
            res.append(head)
            seqs = [[x for x in s if x is not head] for s in seqs]
            seqs = [s for s in seqs if s]
        return res

    # ------------------------------------------------------------------ queries
    def module_of_path(self, path: str) -> ModuleInfo:
        for m in self.modules.values():
            if m.path == path:
                return m
        raise AnalysisError(f"anchor vanished: module {path}")

    def get_class(self, dotted: str) -> ClassInfo:
        """``dotted`` may be the full qualname or ``<module-suffix>.<Class>``/``<Class>`` if unique."""
        if dotted in self.classes:
            return self.classes[dotted]
        cands = [c for q, c in self.classes.items() if q.endswith("." + dotted)]
        if len(cands) == 1:
            return cands[0]
        raise AnalysisError(f"anchor vanished: class {dotted} ({len(cands)} candidates)")

    def find_class(self, dotted: str) -> ClassInfo | None:
        try:
            return self.get_class(dotted)
        except AnalysisError:
            return None

    def get_function(self, dotted: str) -> FunctionInfo:
        if dotted in self.functions:
            return self.functions[dotted]
        cands = [f for q, f in self.functions.items() if q.endswith("." + dotted)]
        if len(cands) == 1:
            return cands[0]
        raise AnalysisError(f"anchor vanished: function {dotted} ({len(cands)} candidates)")

    def find_function(self, dotted: str) -> FunctionInfo | None:
        try:
            return self.get_function(dotted)
        except AnalysisError:
            return None

    def function_of_node(self, node) -> FunctionInfo | None:
        return self._fn_of_node.get(id(node))

    def subclasses(self, base: ClassInfo, strict: bool = True) -> list[ClassInfo]:
        return [c for c in self.classes.values() if base in c.mro and (c is not base or not strict)]

    def concrete_subclasses(self, base: ClassInfo) -> list[ClassInfo]:
        out = []
        for c in self.subclasses(base, strict=False):
            if not self.abstract_methods(c):
                out.append(c)
        return out

    def abstract_methods(self, c: ClassInfo) -> set[str]:
        names: set[str] = set()
        for k in reversed(c.mro):
            for n, f in k.methods.items():
                if f.is_abstract:
                    names.add(n)
                else:
                    names.discard(n)
            for n in k.aliases:
                names.discard(n)
        return names

    def all_functions(self, prefix: str = "") -> list[FunctionInfo]:
        return [f for q, f in sorted(self.functions.items()) if q.startswith(prefix)]


def build_index(repo: str, overlay: dict[str, str] | None = None) -> ProgramIndex:
    src = load_sources(repo)
    if overlay:
        src.update(overlay)
    return ProgramIndex(src)
