"""Abstract interpreter for the Python subset torchjd uses (DESIGN.md 3.5).

* Outside abstract loops every undecidable branch is a *decision*; all decision vectors are enumerated
  by re-execution (trace partitioning: one run = one path).
* Inside an abstract loop (iteration over a sequence of unknown length) both branches are executed on
  cloned states and joined; loop heads are iterated to a fixpoint.
External operators are delegated to the operator table (``ops``).
"""

from __future__ import annotations

import ast
from dataclasses import replace
from fractions import Fraction

from . import AnalysisError
from .poly import Poly
from .report import norm_text
from .values import (
    FALSE, NONE, TRUE, Z, AVal, BoundV, ClassV, Const, DictV, Env, ExtMethodV, ExtV, FuncV, LambdaV, ListV, ModV,
    ObjV, PartialV, SetV, SuperV, TV, Unk, VmapV, clone_value, const_to_tv, join,
)

BUILTINS = {
    "len", "range", "zip", "sum", "list", "tuple", "set", "dict", "isinstance", "issubclass", "any", "all", "max",
    "min", "abs", "type", "super", "hasattr", "getattr", "setattr", "enumerate", "reversed", "sorted", "str", "repr",
    "float", "int", "bool", "print", "ValueError", "TypeError", "RuntimeError", "Exception", "NotImplementedError",
    "IndexError", "KeyError", "map", "filter", "iter", "next", "id", "hash", "round", "frozenset", "object", "divmod", "slice", "StopIteration",
}


class AbsRaise(Exception):
    """An abstract exception propagating through the interpreted program."""

    def __init__(self, exc_name: str, node=None, where: str = "", guard=None):
        super().__init__(exc_name)
        self.exc_name = exc_name
        self.node = node
        self.where = where


class PathLimit(Exception):
    pass


class Oracle:
    def __init__(self, prefix=()):
        self.prefix = list(prefix)
        self.log: list[tuple[str, int, int]] = []  # (site, chosen, n)

    def decide(self, site: str, n: int) -> int:
        i = len(self.log)
        c = self.prefix[i] if i < len(self.prefix) else 0
        self.log.append((site, c, n))
        return c

    def next_prefix(self):
        log = list(self.log)
        while log:
            site, c, n = log.pop()
            if c + 1 < n:
                return [x[1] for x in log] + [c + 1]
        return None


class Trace:
    def __init__(self):
        self.events: list[dict] = []
        self.decisions: list[str] = []
        self.taint = {"p": True, "q": True, "s": True, "z": True}  # implicit flows: branches on non-equivariant values
        self.decided: dict = {}  # test key -> outcome: the same symbolic question gets the same answer along one path
        self.iters: dict = {}  # one-shot iterator id -> position (int) | ("all" | "some", consumer, position)
        self.iter_n = 0
        self.call_serial = 0


class Result:
    """Outcome of one path: ``kind`` is 'return' or 'raise'."""

    def __init__(self, kind, value, trace, exc=None):
        self.kind = kind
        self.value = value
        self.trace = trace
        self.exc = exc

    @property
    def events(self):
        return self.trace.events

    def describe_path(self) -> str:
        return " ; ".join(self.trace.decisions) or "(straight-line)"


ONE_SHOT = {"builtins.zip", "builtins.map", "builtins.filter", "builtins.enumerate", "builtins.reversed", "itertools.chain", "itertools.chain.from_iterable",
            "itertools.starmap", "itertools.pairwise", "itertools.accumulate", "itertools.islice", "itertools.product", "itertools.combinations",
            "itertools.zip_longest", "itertools.compress", "itertools.takewhile", "itertools.dropwhile"}

NORMAL, RETURN, BREAK, CONTINUE, RAISE = "normal", "return", "break", "continue", "raise"


class Interp:
    MAX_PATHS = 400
    MAX_DEPTH = 40

    def __init__(self, index, ops):
        self.index = index
        self.ops = ops
        ops.interp = self
        self.oracle = Oracle()
        self.trace = Trace()
        self.join_depth = 0
        self.open_lids = []
        self.try_stack: list[list[str]] = []  # names catchable by enclosing handlers (oracle mode)
        self.call_stack: list = []
        self.site_stack: list = []  # call sites (line, col) leading to the current activation
        self.loop_ids = 0
        self.calls_made: list[tuple[str, str]] = []  # (caller qualname, callee description)
        self.functions_entered: set[str] = set()
        self.hooks: dict[str, object] = {}

    # ================================================================== driver
    def run_paths(self, thunk) -> list[Result]:
        """Runs ``thunk()`` once per decision vector; returns one Result per path."""
        results = []
        prefix = []
        while True:
            self.oracle = Oracle(prefix)
            self.trace = Trace()
            self.join_depth = 0
            self.open_lids = []
            self.try_stack = []
            self.call_stack = []
            try:
                v = thunk()
                results.append(Result("return", v, self.trace))
            except AbsRaise as e:
                results.append(Result("raise", None, self.trace, exc=e))
            prefix = self.oracle.next_prefix()
            if prefix is None:
                break
            if len(results) > self.MAX_PATHS:
                raise AnalysisError(f"more than {self.MAX_PATHS} paths")
        return results

    # ================================================================== events
    def where(self, node=None) -> tuple[str, str]:
        fn = self.call_stack[-1] if self.call_stack else None
        q = fn.qualname if fn is not None else "<module>"
        path = fn.path if fn is not None else ""
        line = getattr(node, "lineno", 0) if node is not None else 0
        return q, f"{path}:{line}"

    def event(self, kind: str, node=None, **data) -> None:
        q, loc = self.where(node)
        ev = {"kind": kind, "function": q, "loc": loc, "text": norm_text(node) if node is not None else ""}
        ev.update(data)
        if kind in ("raise", "may_raise_in_loop") and "loops" not in ev and hasattr(self.ops, "loop_ids"):
            ev["loops"] = list(self.ops.loop_ids)  # (pipeline runs) where in the loop nest the raise sits, and after which numbered events
            ev["after_seq"] = getattr(self.ops, "seq", 0)
        self.trace.events.append(ev)

    def unknown(self, why: str, node=None) -> Unk:
        self.event("unknown", node, why=why)
        return Unk(why)

    # ================================================================== environments
    def module_env(self, module) -> Env:
        return Env(module)

    def lookup_name(self, name: str, env: Env, node=None) -> AVal:
        v = env.lookup(name)
        if v is not None:
            return v
        r = self.index.resolve_name(env.module, name)
        if r is not None:
            return self.from_resolved(r)
        if name in BUILTINS:
            return ExtV("builtins." + name)
        return self.unknown(f"unresolved name {name}", node)

    def from_resolved(self, r) -> AVal:
        from .index import ClassInfo, FunctionInfo

        if isinstance(r, ClassInfo):
            return ClassV(r)
        if isinstance(r, FunctionInfo):
            return FuncV(r, None)
        if isinstance(r, tuple):
            if r[0] == "ext":
                return ExtV(r[1])
            if r[0] == "mod":
                return ModV(r[1]) if r[1] in self.index.modules else ExtV(r[1])
            if r[0] == "global":
                _, m, expr = r
                return self.eval(expr, Env(m))
        return Unk("unresolved")

    # ================================================================== statements
    def exec_function(self, info, args: dict, closure: Env | None, self_cls=None) -> AVal:
        """Executes a repository function with bound arguments; returns its (joined) return value."""
        if len(self.call_stack) > self.MAX_DEPTH:
            raise AnalysisError("call depth exceeded (recursion?) at " + info.qualname)
        env = Env(info.module, closure, info)
        env.self_cls = self_cls or info.cls
        env.vars.update(args)
        if self.call_stack:
            env.caller_owned = {k for k, v in args.items() if isinstance(v, (DictV, ListV, SetV))}
        gen = self._is_generator(info.node)
        if gen:
            # generator function: the values it yields, in order, as a list (sound for consumers that iterate it once)
            env.vars["__yield__"] = ListV(items=())
        self.call_stack.append(info)
        self.functions_entered.add(info.qualname)
        try:
            outs = self.exec_block(self._prenormalised(info.node), env)
        finally:
            self.call_stack.pop()
        self.last_writeback = None
        wb_names = set()
        for kind, (e, _) in outs.items():
            if kind in (RETURN, NORMAL) and e is not None:
                wb_names |= e.mutated_params & e.caller_owned
        if wb_names:
            wb = {}
            for nm_ in wb_names:
                acc_ = None
                for kind, (e, _) in outs.items():
                    if kind in (RETURN, NORMAL) and e is not None and nm_ in e.vars:
                        acc_ = e.vars[nm_] if acc_ is None else self.join_vals(acc_, e.vars[nm_], set())
                if acc_ is not None:
                    wb[nm_] = acc_
            if gen:
                self.event("lost_mutation", info.node, what=f"a generator function changes the containers {sorted(wb)} it received")
            else:
                self.last_writeback = wb
        if gen:
            acc = None
            for kind, (e, _) in outs.items():
                if kind in (RETURN, NORMAL):
                    v = e.lookup("__yield__") if hasattr(e, "lookup") else e.vars.get("__yield__")
                    acc = v if acc is None else self.join_vals(acc, v, set())
            if acc is None:
                raise AbsRaise("Exception", None, "all paths raise")
            return self.ops.fresh_iter(acc)
        return self._function_result(outs)

    _PRENORM: dict = {}

    def _prenormalised(self, fn_node):
        """The body of a function with filter loops written as the comprehensions they are (see normalize.filter_loops_to_comprehensions)."""
        k = id(fn_node)
        if k not in self._PRENORM:
            from .normalize import filter_loops_to_comprehensions, inclusion_exclusion_to_intersection

            self._PRENORM[k] = (fn_node, inclusion_exclusion_to_intersection(filter_loops_to_comprehensions(fn_node.body)))
        return self._PRENORM[k][1]

    _GEN_CACHE: dict = {}

    def _is_generator(self, fn_node) -> bool:
        k = id(fn_node)
        if k not in self._GEN_CACHE:
            found = False
            stack = list(getattr(fn_node, "body", []))
            while stack and not found:
                n = stack.pop()
                if isinstance(n, (ast.Yield, ast.YieldFrom)):
                    found = True
                elif not isinstance(n, (ast.FunctionDef, ast.AsyncFunctionDef, ast.Lambda, ast.ClassDef)):
                    stack.extend(ast.iter_child_nodes(n))
            self._GEN_CACHE[k] = (fn_node, found)
        return self._GEN_CACHE[k][1]

    def e_Yield(self, n, env):
        v = self.eval(n.value, env) if n.value is not None else NONE
        call = ast.copy_location(ast.Call(func=ast.Attribute(value=ast.Name(id="__yield__", ctx=ast.Load()), attr="append", ctx=ast.Load()), args=[], keywords=[]), n)
        ast.fix_missing_locations(call)
        cur = env.lookup("__yield__") if hasattr(env, "lookup") else None
        if not isinstance(cur, ListV):
            return self.unknown("yield outside a generator activation", n)
        self.ops.list_method(cur, "append", [v], {}, call, env)
        return NONE

    def e_YieldFrom(self, n, env):
        v = self.eval(n.value, env)
        call = ast.copy_location(ast.Call(func=ast.Attribute(value=ast.Name(id="__yield__", ctx=ast.Load()), attr="extend", ctx=ast.Load()), args=[], keywords=[]), n)
        ast.fix_missing_locations(call)
        cur = env.lookup("__yield__") if hasattr(env, "lookup") else None
        if not isinstance(cur, ListV):
            return self.unknown("yield from outside a generator activation", n)
        self.ops.list_method(cur, "extend", [v], {}, call, env)
        return NONE

    def _function_result(self, outs) -> AVal:
        rv = None
        for kind, (env, val) in outs.items():
            if kind == RETURN:
                rv = val if rv is None else join(rv, val)
            elif kind == NORMAL:
                rv = NONE if rv is None else join(rv, NONE)
        if rv is None:
            # only raising paths
            raise AbsRaise("Exception", None, "all paths raise")
        return rv

    def exec_block(self, stmts, env: Env) -> dict:
        """Returns {flow kind: (env, value)}; in oracle mode exactly one entry."""
        outs: dict = {}
        cur = env
        for st in stmts:
            r = self.exec_stmt(st, cur)
            nxt = None
            for kind, (e, v) in r.items():
                if kind == NORMAL:
                    nxt = e
                else:
                    self._merge_out(outs, kind, e, v)
            if nxt is None:
                return outs
            cur = nxt
        self._merge_out(outs, NORMAL, cur, None)
        return outs

    def _merge_out(self, outs, kind, env, val):
        if kind == RAISE:
            return
        if kind not in outs:
            outs[kind] = (env, val)
        else:
            e0, v0 = outs[kind]
            self.join_env_into(e0, env)
            outs[kind] = (e0, join(v0, val) if (v0 is not None or val is not None) else None)

    def exec_stmt(self, st, env: Env) -> dict:
        m = getattr(self, "s_" + type(st).__name__, None)
        if m is None:
            raise AnalysisError(f"statement kind {type(st).__name__} not supported ({self.where(st)[1]})")
        if self.join_depth > 0:
            try:
                return m(st, env)
            except AbsRaise as e:
                self.event("may_raise_in_loop", st, exc=e.exc_name)
                return {RAISE: (env, None)}
        return m(st, env)

    # ---- simple statements
    def s_Expr(self, st, env):
        self.eval(st.value, env)
        return {NORMAL: (env, None)}

    def s_Pass(self, st, env):
        return {NORMAL: (env, None)}

    def s_Import(self, st, env):
        return {NORMAL: (env, None)}

    s_ImportFrom = s_Import

    def s_Assert(self, st, env):
        self.eval(st.test, env)
        return {NORMAL: (env, None)}

    def s_FunctionDef(self, st, env):
        info = self.index.function_of_node(st)
        if info is None:
            raise AnalysisError("nested function not indexed: " + st.name)
        env.vars[st.name] = FuncV(info, env)
        return {NORMAL: (env, None)}

    def s_Return(self, st, env):
        v = self.eval(st.value, env) if st.value is not None else NONE
        return {RETURN: (env, v)}

    def s_Break(self, st, env):
        return {BREAK: (env, None)}

    def s_Continue(self, st, env):
        return {CONTINUE: (env, None)}

    def s_Raise(self, st, env):
        name = "Exception"
        if st.exc is not None:
            e = st.exc
            f = e.func if isinstance(e, ast.Call) else e
            name = f.id if isinstance(f, ast.Name) else getattr(f, "attr", "Exception")
            if isinstance(e, ast.Call):
                for a in e.args:  # evaluate message f-strings: harmless, but they may read attributes
                    pass
        self.event("raise", st, exc=name)
        raise AbsRaise(name, st, self.where(st)[1])

    def s_Assign(self, st, env):
        v = self.eval(st.value, env)
        # `acc = acc + f(row)` in a loop over the rows is the accumulation `acc += f(row)` into a fresh tensor: like there, the running sum does not
        # depend on the position the loop is at
        if len(st.targets) == 1 and isinstance(st.targets[0], ast.Name) and isinstance(st.value, ast.BinOp) and isinstance(st.value.op, ast.Add) and isinstance(v, TV):
            nm_ = st.targets[0].id
            for mine_, other_ in ((st.value.left, st.value.right), (st.value.right, st.value.left)):
                if isinstance(mine_, ast.Name) and mine_.id == nm_ and not (isinstance(other_, ast.Name) and other_.id == nm_):
                    from .ops import tv_of

                    cur_ = tv_of(env.lookup(nm_)) if env.lookup(nm_) is not None else None
                    if cur_ is not None and v.gen - cur_.gen and self.join_depth > 0 and self.ops.loops_run_to_the_end(v.gen - cur_.gen):
                        self.event("accumulate", st, op="Add", target=nm_, rhs_origin=sorted(v.origin), over_loop_index=True, target_axes=list(cur_.axes),
                                   target_poly=repr(cur_.poly) if cur_.poly is not None else None)
                        v = v.but(gen=cur_.gen)
                    break
        for t in st.targets:
            self.assign(t, v, env, st)
        return {NORMAL: (env, None)}

    def s_AnnAssign(self, st, env):
        if st.value is not None:
            self.assign(st.target, self.eval(st.value, env), env, st)
        return {NORMAL: (env, None)}

    def s_AugAssign(self, st, env):
        cur = self.eval(self._as_load(st.target), env)
        rhs = self.eval(st.value, env)
        new = self.ops.augassign(cur, st.op, rhs, st, env)
        self.assign(st.target, new, env, st, aug=True)
        return {NORMAL: (env, None)}

    def s_Delete(self, st, env):
        self.event("delete", st)
        return {NORMAL: (env, None)}

    @staticmethod
    def _as_load(t):
        import copy

        n = copy.copy(t)
        n.ctx = ast.Load()
        return n

    def assign(self, target, v: AVal, env: Env, st, aug=False) -> None:
        if isinstance(target, ast.Name):
            # python scoping: assignment binds in the current activation
            env.vars[target.id] = v
            env.caller_owned.discard(target.id)
        elif isinstance(target, (ast.Tuple, ast.List)):
            parts = self.unpack(v, len(target.elts), st)
            for t, pv in zip(target.elts, parts):
                self.assign(t, pv, env, st)
        elif isinstance(target, ast.Attribute):
            obj = self.eval(target.value, env)
            self.ops.store_attr(obj, target.attr, v, st, env, aug)
        elif isinstance(target, ast.Subscript):
            obj = self.eval(target.value, env)
            idx = self.eval_index(target.slice, env)
            new = self.ops.store_subscript(obj, idx, v, st, env, aug)
            if new is not None:
                self.rebind(target.value, new, env, st)
        elif isinstance(target, ast.Starred):
            self.assign(target.value, v, env, st)
        else:
            raise AnalysisError(f"assignment target {type(target).__name__} unsupported")

    def rebind(self, target_expr, new: AVal, env: Env, st) -> None:
        """Functional update of an (immutable) abstract container reachable through an l-value."""
        if isinstance(target_expr, ast.Name):
            e = env
            while e is not None:
                if target_expr.id in e.vars:
                    if target_expr.id in e.caller_owned:
                        # the container is the caller's object: abstract containers are values, so the change is handed back when the
                        # function returns (exec_function / call_value write it to the caller's l-value)
                        e.mutated_params.add(target_expr.id)
                    e.vars[target_expr.id] = new
                    return
                e = e.parent
            env.vars[target_expr.id] = new
        elif isinstance(target_expr, ast.Attribute):
            obj = self.eval(target_expr.value, env)
            if isinstance(obj, ObjV):
                if not any(f.name == "__init__" for f in self.call_stack):
                    self.event("self_write", st, attr=target_expr.attr, cls=obj.cls.qualname, how="container mutation", fresh=getattr(obj, "born_trace", None) is self.trace)
                obj.fields[target_expr.attr] = new
            else:
                self.event("lost_mutation", st)
        elif isinstance(target_expr, ast.Call) and isinstance(target_expr.func, ast.Attribute) and target_expr.func.attr in ("setdefault", "get") and target_expr.args:
            # d.setdefault(k, [])[i] = v  /  d.get(k)[i] = v: the (mutable) value stored under k is what was updated
            obj = self.eval(target_expr.func.value, env)
            if isinstance(obj, DictV):
                key = self.eval(target_expr.args[0], env)
                new2 = self.ops.store_subscript(obj, ("index", key), new, st, env, False)
                if new2 is not None:
                    self.rebind(target_expr.func.value, new2, env, st)
            else:
                self.event("lost_mutation", st)
        elif isinstance(target_expr, ast.Subscript):
            # xs[i][j] = v: the updated inner container is stored back into the outer one
            obj = self.eval(target_expr.value, env)
            idx = self.eval_index(target_expr.slice, env)
            if isinstance(obj, (DictV, ListV)):
                new2 = self.ops.store_subscript(obj, idx, new, st, env, False)
                if new2 is not None:
                    self.rebind(target_expr.value, new2, env, st)
            else:
                self.event("lost_mutation", st)
        else:
            self.event("lost_mutation", st)

    def unpack(self, v: AVal, n: int, node) -> list[AVal]:
        if isinstance(v, ListV):
            if v.items is not None:
                if len(v.items) == n:
                    return list(v.items)
                return [self.unknown(f"unpack arity {len(v.items)} != {n}", node)] * n
            r = self.ops.unpack_list(v, n, node)
            if r is not None:
                return r
            return [v.elem] * n
        if isinstance(v, ObjV) and getattr(v, "tuple_fields", None) and len(v.tuple_fields) == n:
            return [v.fields.get(f, Unk(f"field {f}")) for f in v.tuple_fields]  # NamedTuple instance
        r = self.ops.unpack(v, n, node)
        if r is not None:
            return r
        return [self.unknown(f"cannot unpack {v!r}", node)] * n

    # ---- branching
    def truth(self, v: AVal):
        """True / False when decidable, else None."""
        if isinstance(v, Const):
            return bool(v.v)
        if isinstance(v, TV) and v.is_py and v.poly is not None and v.poly.is_const():
            return v.poly.const_value() != 0
        if isinstance(v, ListV) and v.it is not None:
            return True  # an iterator object has no __bool__ / __len__: it is true whether or not anything is left in it
        if isinstance(v, ListV) and v.items is not None:
            return len(v.items) > 0
        if isinstance(v, DictV) and v.items is not None:
            return len(v.items) > 0
        if isinstance(v, SetV) and v.items is not None:
            return len(v.items) > 0
        if isinstance(v, (ObjV, FuncV, ClassV, ExtV, BoundV)) :
            if isinstance(v, ObjV) and v.payload is not None:
                return self.truth(v.payload)
            return True
        return None

    @staticmethod
    def _per_element_question(key: str) -> bool:
        if not key.startswith("nonempty?") or "(&:" in key or key.startswith("nonempty?~"):
            return False
        atoms = key[len("nonempty?"):].split("+")
        return bool(atoms) and all("[i]" in a for a in atoms)

    def s_If(self, st, env):
        n0 = len(self.trace.events)
        t = self.eval(st.test, env)
        dec = self.truth(t)
        if dec is None:
            dec = self.ops.decide_test(st.test, t, env)
        site = f"{self.where(st)[0]}: if {norm_text(st.test)}"
        cmps = [e for e in self.trace.events[n0:] if e["kind"] in ("size_compare", "scale_branch", "cmp")]
        tkey = self.ops.test_key(t, cmps, st.test) if dec is None else None
        if dec is None and tkey is not None and tkey[0] in self.trace.decided and self.join_depth == 0:
            dec = self.trace.decided[tkey[0]] ^ tkey[1]
        if dec is None:
            self.taint_by(t, st.test)
        if dec is None and self.join_depth > 0 and tkey is not None and self._per_element_question(tkey[0]):
            # inside a summarised loop, "is THIS element's collection empty?" (tasks_params[i]): the path assumes the same answer for every
            # element — two uniform paths instead of one summary in which objects of different make-up would have to be merged
            if tkey[0] in self.trace.decided:
                dec = self.trace.decided[tkey[0]] ^ tkey[1]
            else:
                c = self.oracle.decide(site, 2)
                self.trace.decisions.append(f"{'T' if c == 0 else 'F'}[{norm_text(st.test)} (every element)]")
                self.trace.decided[tkey[0]] = (c == 0) ^ tkey[1]
                dec = c == 0
            self.event("decision", st, test=norm_text(st.test), outcome=bool(dec), forced=False, compares=cmps, key=tkey[0], key_neg=tkey[1], uniform=True)
            self.ops.assume(st.test, bool(dec), env)
            return self.exec_block(st.body if dec else st.orelse, env)
        if dec is not None:
            self.event("decision", st, test=norm_text(st.test), outcome=bool(dec), forced=True, compares=cmps, key=tkey[0] if tkey else None, key_neg=tkey[1] if tkey else None)
            return self.exec_block(st.body if dec else st.orelse, env)
        if self.join_depth == 0:
            c = self.oracle.decide(site, 2)
            self.trace.decisions.append(f"{'T' if c == 0 else 'F'}[{norm_text(st.test)}]")
            if tkey is not None:
                self.trace.decided[tkey[0]] = (c == 0) ^ tkey[1]
            self.event("decision", st, test=norm_text(st.test), outcome=(c == 0), forced=False, compares=cmps, key=tkey[0] if tkey else None, key_neg=tkey[1] if tkey else None)
            self.ops.assume(st.test, c == 0, env)
            return self.exec_block(st.body if c == 0 else st.orelse, env)
        self.event("decision", st, test=norm_text(st.test), outcome=None, forced=False, compares=cmps, key=tkey[0] if tkey else None, key_neg=tkey[1] if tkey else None)
        env2 = env.clone({})
        self.ops.assume(st.test, True, env)
        a = self.exec_block(st.body, env)
        self.ops.assume(st.test, False, env2)
        b = self.exec_block(st.orelse, env2)
        outs: dict = {}
        for kind, (e, v) in a.items():
            self._merge_out(outs, kind, e, v)
        for kind, (e, v) in b.items():
            if kind not in outs and kind != RAISE:
                # only the cloned branch reaches this flow: bring its state back into the original identities
                self.adopt_env(env, e)
                e = env
            self._merge_out(outs, kind, e, v)
        return outs

    def taint_by(self, t, node) -> None:
        """A branch / bound controlled by ``t``: the rest of the path depends on it implicitly."""
        if isinstance(t, TV):
            for f, text in (("p", "row permutations"), ("q", "orthogonal column maps"), ("s", "column permutations"), ("z", "zero-column insertion")):
                if not getattr(t, f) and self.trace.taint[f]:
                    self.trace.taint[f] = False
                    self.event("clear", node, flag=f, why=f"control flow / extent depends on a value that is not invariant under {text}")

    def s_Try(self, st, env):
        names = []
        for h in st.handlers:
            if h.type is None:
                names.append("Exception")
            else:
                ts = h.type.elts if isinstance(h.type, ast.Tuple) else [h.type]
                for t in ts:
                    names.append(t.id if isinstance(t, ast.Name) else getattr(t, "attr", "Exception"))
        if self.join_depth > 0:
            self.event("try_in_loop", st)
            outs = self.exec_block(st.body, env)
            if st.finalbody and NORMAL in outs:
                outs = self._then(outs, st.finalbody)
            return outs
        self.try_stack.append(names)
        try:
            try:
                outs = self.exec_block(st.body, env)
            finally:
                self.try_stack.pop()
        except AbsRaise as e:
            h = self._matching_handler(st.handlers, e.exc_name)
            if h is None:
                raise
            self.trace.decisions.append(f"except {e.exc_name}")
            if h.name:
                env.vars[h.name] = ExtV("exception." + e.exc_name)
            outs = self.exec_block(h.body, env)
        else:
            if st.orelse and NORMAL in outs:
                outs = self._then(outs, st.orelse)
        if st.finalbody and NORMAL in outs:
            outs = self._then(outs, st.finalbody)
        return outs

    def _then(self, outs, stmts):
        env, _ = outs.pop(NORMAL)
        r = self.exec_block(stmts, env)
        for kind, (e, v) in r.items():
            self._merge_out(outs, kind, e, v)
        return outs

    EXC_PARENTS = {
        "LinAlgError": ["RuntimeError", "Exception"], "RuntimeError": ["Exception"], "ValueError": ["Exception"],
        "TypeError": ["Exception"], "IndexError": ["LookupError", "Exception"], "KeyError": ["LookupError", "Exception"],
        "SolverError": ["Exception"], "Exception": [],
    }

    def exc_matches(self, handler_name: str, exc_name: str) -> bool:
        return handler_name == exc_name or handler_name in self.EXC_PARENTS.get(exc_name, ["Exception"]) or handler_name == "BaseException"

    def _matching_handler(self, handlers, exc_name):
        for h in handlers:
            if h.type is None:
                return h
            ts = h.type.elts if isinstance(h.type, ast.Tuple) else [h.type]
            for t in ts:
                n = t.id if isinstance(t, ast.Name) else getattr(t, "attr", "")
                if self.exc_matches(n, exc_name):
                    return h
        return None

    def may_raise(self, exc_names: list[str], node, what: str) -> None:
        """Called by the operator table for operators documented to raise: in oracle mode, inside a
        ``try`` whose handlers catch one of them, this is a decision point."""
        if self.join_depth > 0 or not self.try_stack:
            return
        for frame in reversed(self.try_stack):
            for exc in exc_names:
                if any(self.exc_matches(h, exc) for h in frame):
                    c = self.oracle.decide(f"{self.where(node)[0]}: {what} raises {exc}", 2)
                    if c == 1:
                        self.trace.decisions.append(f"{what} raises {exc}")
                        raise AbsRaise(exc, node, self.where(node)[1])
                    return

    def s_Match(self, st, env):
        from .astutil import desugar_match

        stmts = desugar_match(st)
        if stmts is None:
            raise AnalysisError(f"match statement with a pattern outside the supported subset ({self.where(st)[1]})")
        return self.exec_block(stmts, env)

    def s_With(self, st, env):
        for it in st.items:
            v = self.eval(it.context_expr, env)
            if it.optional_vars is not None:
                self.assign(it.optional_vars, v, env, st)
        return self.exec_block(st.body, env)

    # ---- loops
    def s_For(self, st, env):
        it = self.eval(st.iter, env)
        seq = self.ops.iterate(it, st.iter, env, parts=self.join_depth == 0)  # ("concrete", [vals]) | ("abstract", elem, info) | ("parts", elem, info, [vals])
        if seq[0] != "concrete" and (self._void_elem(seq[1]) or self._decided_empty(it)):
            # summary of a collection that never received an element / that this path decided to be empty
            seq = ("concrete", [])
        if seq[0] != "concrete" and self.join_depth == 0 and self._range_known_empty(it):
            # `range(c)` where this path already decided `c > 0` to be false: zero iterations
            self.event("decision", st, test=f"{norm_text(st.iter)} is empty", outcome=True, forced=True, compares=[])
            seq = ("concrete", [])
        if seq[0] == "concrete":
            return self._concrete_loop(st, env, seq[1])
        if seq[0] == "parts":
            # a summarised prefix followed by known items: the generic iterations first, then one iteration per item
            _, elem, info, tail = seq
            outs = self._abstract_loop(st, env, elem, info, run_orelse=False)
            if NORMAL not in outs:
                return outs
            env1, _ = outs.pop(NORMAL)
            rest = self._concrete_loop(st, env1, tail)
            for kind, (e, val) in rest.items():
                self._merge_out(outs, kind, e, val)
            return outs
        _, elem, info = seq
        return self._abstract_loop(st, env, elem, info)

    def _concrete_loop(self, st, env, items):
        outs: dict = {}
        cur = env
        for v in items:
            self.assign(st.target, v, cur, st)
            r = self.exec_block(st.body, cur)
            nxt = None
            for kind, (e, val) in r.items():
                if kind in (NORMAL, CONTINUE):
                    if nxt is None:
                        nxt = e
                    else:
                        self.join_env_into(nxt, e)
                elif kind == BREAK:
                    self._merge_out(outs, "loopbreak", e, None)
                else:
                    self._merge_out(outs, kind, e, val)
            if nxt is None:
                cur = None
                break
            cur = nxt
        final = cur
        if "loopbreak" in outs:
            be, _ = outs.pop("loopbreak")
            if final is None:
                final = be
            else:
                self.join_env_into(final, be)
        if final is not None:
            if st.orelse:
                r = self.exec_block(st.orelse, final)
                for kind, (e, val) in r.items():
                    self._merge_out(outs, kind, e, val)
            else:
                self._merge_out(outs, NORMAL, final, None)
        return outs

    def _decided_empty(self, coll) -> bool:
        """The emptiness question about this key collection was already answered 'empty' on the current path."""
        if self.join_depth > 0:
            return False
        v = coll.payload if isinstance(coll, ObjV) and coll.payload is not None else coll
        if isinstance(v, DictV):
            v = v.keys
        if not isinstance(v, (ListV, SetV)) or v.items is not None:
            return False
        at = sorted(self.ops.atoms_of(v))
        if not at:
            return False
        dec = self.trace.decided
        return dec.get("nonempty?" + "+".join(at)) is False or all(dec.get("nonempty?" + a) is False for a in at)

    @staticmethod
    def _void_elem(elem) -> bool:
        """The generic element of a summary that never received an element (also as the value half of dict items)."""
        if elem is None:
            return True
        return isinstance(elem, ListV) and elem.kind == "tuple" and elem.items is not None and any(x is None for x in elem.items)

    def _range_known_empty(self, it) -> bool:
        from .values import ListV, TV

        if not (isinstance(it, ListV) and it.items is None and it.order and it.order[0] and it.order[0][0] == "range"):
            return False
        ln = it.length
        if not (isinstance(ln, TV) and ln.poly is not None):
            return False
        return self.trace.decided.get(f"Gt:{ln.poly!r}") is False

    def s_While(self, st, env):
        """While an iteration is completely determined by the current state — the test has a definite answer, the body asks
        the oracle nothing and ends in one way — the loop is unrolled (bounded). Each iteration runs on a clone of the state;
        the first one that is not determined is rolled back and the abstract loop takes over from there."""
        outs: dict = {}
        cur = env
        tr = self.trace
        for _ in range(64):
            snap = (dict(tr.iters), len(tr.events), len(tr.decisions), len(self.oracle.log), dict(tr.decided), dict(tr.taint))

            def rollback():
                tr.iters = snap[0]
                del tr.events[snap[1]:]
                del tr.decisions[snap[2]:]
                del self.oracle.log[snap[3]:]
                tr.decided = snap[4]
                tr.taint = snap[5]

            probe = cur.clone({})
            try:
                t = self.eval(st.test, probe)
                dec = self.truth(t)
                if dec is None or len(self.oracle.log) != snap[3]:
                    rollback()
                    break
                if not dec:
                    self.adopt_env(cur, probe)
                    if st.orelse:
                        r = self.exec_block(st.orelse, cur)
                        for kind, (e, val) in r.items():
                            self._merge_out(outs, kind, e, val)
                    else:
                        self._merge_out(outs, NORMAL, cur, None)
                    return self._finish_while(outs)
                r = self.exec_block(st.body, probe)
            except AbsRaise:
                if len(self.oracle.log) != snap[3]:
                    rollback()
                    break
                self.adopt_env(cur, probe)
                raise
            if len(self.oracle.log) != snap[3] or len(r) != 1:
                rollback()
                break
            (kind, (e, val)), = r.items()
            self.adopt_env(cur, e)
            if kind in (NORMAL, CONTINUE):
                continue
            if kind == BREAK:
                self._merge_out(outs, NORMAL, cur, None)
            else:
                self._merge_out(outs, kind, cur, val)
            return self._finish_while(outs)
        r = self._abstract_loop(st, cur, None, {"while": True})
        for kind, (e, val) in r.items():
            self._merge_out(outs, kind, e, val)
        return self._finish_while(outs)

    def _finish_while(self, outs):
        if "loopbreak" in outs:
            be, _ = outs.pop("loopbreak")
            self._merge_out(outs, NORMAL, be, None)
        return outs

    def _abstract_loop(self, st, env: Env, elem, info: dict, run_orelse: bool = True):
        self.loop_ids += 1
        lid = f"L{self.loop_ids}"
        symmetric = bool(info.get("symmetric"))
        self.join_depth += 1
        self.open_lids.append(lid)
        self.ops.loop_enter(lid, st, info, env)
        outs: dict = {}
        head = env  # state at loop head (joined over iterations)
        exit_env = None
        try:
            for _ in range(8):
                body_env = head.clone({})
                if isinstance(st, ast.For):
                    ev = self.ops.loop_elem(elem, lid, info)
                    self.assign(st.target, ev, body_env, st)
                    if _ == 0:
                        # a value the loop variable(s) held before the loop (left by an earlier loop over the same name) is overwritten at
                        # the start of every iteration: joining it with the element now keeps it from costing a second pass later
                        for nm_ in {x.id for x in ast.walk(st.target) if isinstance(x, ast.Name)}:
                            if nm_ in head.vars and nm_ in body_env.vars:
                                head.vars[nm_] = self.join_vals(head.vars[nm_], body_env.vars[nm_], set())
                else:
                    self.eval(st.test, body_env)
                    self.ops.assume(st.test, True, body_env)
                r = self.exec_block(st.body, body_env)
                nxt = None
                for kind, (e, val) in r.items():
                    if kind in (NORMAL, CONTINUE):
                        if nxt is None:
                            nxt = e
                        else:
                            self.join_env_into(nxt, e)
                    elif kind == BREAK:
                        if exit_env is None:
                            exit_env = e
                        else:
                            self.join_env_into(exit_env, e)
                    else:
                        self._merge_out(outs, kind, e, val)
                if nxt is None:
                    break
                self.ops.loop_back(nxt, lid, info)
                before = self.snapshot(head)
                if self.ops.induction(head, nxt, lid, info):
                    # a running offset `x = x + width(element)` got its closed form: this pass saw only the first iteration's value of
                    # it; interpret the body again with the closed form instead of joining what this pass produced
                    continue
                self.join_env_into(head, nxt)
                if self.snapshot(head) == before:
                    break
            else:
                self.event("no_fixpoint", st)
        finally:
            self.join_depth -= 1
            self.open_lids.pop()
        if exit_env is not None:
            self.join_env_into(head, exit_env)
        self.ops.loop_exit(head, lid, info, st)
        if st.orelse and run_orelse:
            r = self.exec_block(st.orelse, head)
            for kind, (e, val) in r.items():
                self._merge_out(outs, kind, e, val)
        else:
            self._merge_out(outs, NORMAL, head, None)
        return outs

    # ---- env joins
    def join_env_into(self, a: Env, b: Env) -> None:
        seen = set()
        ea, eb = a, b
        while ea is not None and eb is not None:
            for k in set(ea.vars) | set(eb.vars):
                va, vb = ea.vars.get(k), eb.vars.get(k)
                if va is None:
                    ea.vars[k] = vb
                elif vb is None:
                    pass
                else:
                    ea.vars[k] = self.join_vals(va, vb, seen)
            ea, eb = ea.parent, eb.parent

    def adopt_env(self, a: Env, b: Env) -> None:
        """Overwrites the state reachable from ``a`` with the state of its clone ``b`` (objects matched by oid)."""
        seen = set()

        def adopt_val(va, vb):
            if isinstance(va, ObjV) and isinstance(vb, ObjV) and va.oid == vb.oid and va is not vb:
                if va.oid in seen:
                    return va
                seen.add(va.oid)
                for k2, fb in vb.fields.items():
                    va.fields[k2] = adopt_val(va.fields.get(k2), fb)
                va.payload = vb.payload
                return va
            return vb

        ea, eb = a, b
        while ea is not None and eb is not None:
            for k, vb in eb.vars.items():
                ea.vars[k] = adopt_val(ea.vars.get(k), vb)
            ea, eb = ea.parent, eb.parent

    def join_vals(self, va, vb, seen):
        if isinstance(va, ObjV) and isinstance(vb, ObjV):
            if va is vb:
                return va
            if va.oid == vb.oid:
                if va.oid not in seen:
                    seen.add(va.oid)
                    for k in set(va.fields) | set(vb.fields):
                        fa, fb = va.fields.get(k), vb.fields.get(k)
                        if fa is None:
                            va.fields[k] = fb
                        elif fb is not None:
                            va.fields[k] = self.join_vals(fa, fb, seen)
                    if va.payload is not None or vb.payload is not None:
                        va.payload = join(va.payload, vb.payload)
                return va
            from .values import join_objects

            return join_objects(va, vb)
        if isinstance(va, (FuncV, LambdaV, BoundV, PartialV, ClassV, ExtV, ModV, VmapV)):
            return va if type(va) is type(vb) else Unk("join of callables")
        return join(va, vb)

    def snapshot(self, env: Env):
        out = []
        seen = set()

        def sv(v):
            if isinstance(v, ObjV):
                if v.oid in seen:
                    return ("obj", v.oid)
                seen.add(v.oid)
                return ("obj", v.oid, tuple(sorted((k, sv(x)) for k, x in v.fields.items())), sv(v.payload))
            if isinstance(v, (FuncV, LambdaV, BoundV, PartialV, VmapV, SuperV)):
                return type(v).__name__
            return v

        e = env
        while e is not None:
            out.append(tuple(sorted(((k, sv(v)) for k, v in e.vars.items()), key=lambda kv: kv[0])))
            e = e.parent
        return tuple(out)

    # ================================================================== expressions
    def eval(self, node, env: Env) -> AVal:
        m = getattr(self, "e_" + type(node).__name__, None)
        if m is None:
            return self.unknown(f"expression kind {type(node).__name__}", node)
        return m(node, env)

    def e_Constant(self, n, env):
        return Const(n.value)

    def e_Name(self, n, env):
        return self.lookup_name(n.id, env, n)

    def e_JoinedStr(self, n, env):
        return TV(kind="pystr") if False else Const("<str>")

    def e_FormattedValue(self, n, env):
        return Const("<str>")

    def e_Tuple(self, n, env):
        return self._display(n, env, "tuple")

    def e_List(self, n, env):
        return self._display(n, env, "list")

    def _display(self, n, env, kind):
        try:
            return ListV(items=tuple(self._elts(n.elts, env)), kind=kind, born=tuple(self.open_lids))
        except _AbstractDisplay:
            out = ListV(items=(), kind=kind)
            for e in n.elts:
                if isinstance(e, ast.Starred):
                    part = self.ops.to_list(self.eval(e.value, env), kind, e)
                else:
                    part = ListV(items=(self.eval(e, env),), kind=kind)
                if not isinstance(part, ListV):
                    return self.unknown("starred display of non-sequence", n)
                if not isinstance(e, ast.Starred) and out.items is None and self.join_depth == 0 and hasattr(self.ops, "appended") and out.it is None:
                    out = replace(self.ops.appended(out, part.items[0]), kind=kind)  # `[*xs, y]`: y stays a known item after the summarised part
                    continue
                out = part if (out.items is not None and len(out.items) == 0) else self.ops.concat_lists(out, part, n)
            return out

    def e_Set(self, n, env):
        if any(isinstance(e, ast.Starred) for e in n.elts):
            try:
                return self.ops.make_set(self._elts(n.elts, env), n)  # {*xs, y} with concrete xs
            except _AbstractDisplay:
                return self.unknown("set display with a starred abstract sequence", n)
        return self.ops.make_set([self.eval(e, env) for e in n.elts], n)

    def _elts(self, elts, env):
        out = []
        for e in elts:
            if isinstance(e, ast.Starred):
                v = self.eval(e.value, env)
                sp = self.ops.spread(v, e)
                if sp is None:
                    return [self.unknown("starred of abstract sequence", e)]
                if sp[0] == "concrete":
                    out.extend(sp[1])
                else:
                    # star of an abstract sequence inside a display: the display becomes abstract
                    raise _AbstractDisplay(sp[1])
            else:
                out.append(self.eval(e, env))
        return out

    def e_Dict(self, n, env):
        items = []
        for k, v in zip(n.keys, n.values):
            if k is None:
                return self.unknown("dict unpacking", n)
            items.append((self.eval(k, env), self.eval(v, env)))
        return DictV(items=tuple(items), born=self.join_depth)

    def e_Attribute(self, n, env):
        base = self.eval(n.value, env)
        return self.getattr(base, n.attr, n, env)

    def e_Subscript(self, n, env):
        base = self.eval(n.value, env)
        idx = self.eval_index(n.slice, env)
        if isinstance(base, ObjV) and getattr(base, "tuple_fields", None) and all(f in base.fields for f in base.tuple_fields):
            base = ListV(items=tuple(base.fields[f] for f in base.tuple_fields), kind="tuple")  # NamedTuple instance indexed like a tuple
        return self.ops.subscript(base, idx, n, env)

    def eval_index(self, s, env):
        if isinstance(s, ast.Slice):
            return ("slice", self.eval(s.lower, env) if s.lower else None, self.eval(s.upper, env) if s.upper else None,
                    self.eval(s.step, env) if s.step else None)
        if isinstance(s, ast.Tuple):
            return ("tuple", tuple(self.eval_index(e, env) for e in s.elts))
        v = self.eval(s, env)
        if isinstance(v, ListV) and v.kind == "slice" and v.items is not None and len(v.items) == 3:
            lo, hi, st_ = (None if isinstance(x, Const) and x.v is None else x for x in v.items)
            return ("slice", lo, hi, st_)
        if isinstance(v, ListV) and v.kind == "tuple" and v.items is not None and all(not isinstance(x, ListV) or x.kind == "slice" for x in v.items):
            # x[t] with a tuple value t is x[t0, t1, ...]; x[()] is x itself
            return ("tuple", tuple(("index", x) for x in v.items))
        return ("index", v)

    def e_UnaryOp(self, n, env):
        v = self.eval(n.operand, env)
        return self.ops.unary(n.op, v, n, env)

    def e_BinOp(self, n, env):
        a = self.eval(n.left, env)
        b = self.eval(n.right, env)
        return self.binop(a, n.op, b, n, env)

    def binop(self, a, op, b, n, env):
        # operator overloading on repository objects (``<<`` and ``|`` on transforms)
        dunder = {ast.LShift: "__lshift__", ast.BitOr: "__or__", ast.Add: "__add__", ast.MatMult: "__matmul__"}.get(type(op))
        if isinstance(a, ObjV) and dunder:
            r = a.cls.lookup(dunder)
            if r is not None:
                return self.call_value(BoundV(FuncV(r[1], None), a), [b], {}, n, env)
        return self.ops.binary(a, op, b, n, env)

    def e_BoolOp(self, n, env):
        is_and = isinstance(n.op, ast.And)
        vals = []
        last = None
        for e in n.values:
            v = self.eval(e, env)
            last = v
            t = self.truth(v)
            if t is None:
                t = self.ops.decide_test(e, v, env)
            if t is not None:
                booly = lambda x: (isinstance(x, Const) and isinstance(x.v, bool)) or (isinstance(x, TV) and x.kind == "pybool")
                if is_and and not t:
                    if vals and all(booly(x) for x in vals) and booly(v):
                        return FALSE  # `flag and False` over booleans: False whatever the flag
                    return v if not vals else self.ops.boolop(n.op, vals + [v], n)
                if not is_and and t:
                    if vals and all(booly(x) for x in vals) and booly(v):
                        return TRUE  # `flag or True` over booleans: True whatever the flag
                    return v if not vals else self.ops.boolop(n.op, vals + [v], n)
                continue  # neutral element
            vals.append(v)
            if is_and:
                self.ops.assume(e, True, env)
        if not vals:
            # every operand was decided and neutral: python hands back the LAST operand (`None or ()` is `()`, `[1] and {2}` is `{2}`)
            if last is not None and not (isinstance(last, Const) and (isinstance(last.v, bool) or last.v is None)) and not (isinstance(last, TV) and last.kind == "pybool"):
                return last
            return TRUE if is_and else FALSE
        if len(vals) == 1:
            return vals[0]
        return self.ops.boolop(n.op, vals, n)

    def e_Compare(self, n, env):
        left = self.eval(n.left, env)
        res = None
        for op, c in zip(n.ops, n.comparators):
            right = self.eval(c, env)
            r = self.ops.compare(left, op, right, n, env)
            res = r if res is None else self.ops.boolop(ast.And(), [res, r], n)
            left = right
        return res

    def e_IfExp(self, n, env):
        t = self.eval(n.test, env)
        dec = self.truth(t)
        if dec is None:
            dec = self.ops.decide_test(n.test, t, env)
        if dec is not None:
            return self.eval(n.body if dec else n.orelse, env)
        self.taint_by(t, n.test)
        if self.join_depth == 0:
            c = self.oracle.decide(f"{self.where(n)[0]}: ifexp {norm_text(n.test)}", 2)
            self.trace.decisions.append(f"{'T' if c == 0 else 'F'}[{norm_text(n.test)}]")
            self.ops.assume(n.test, c == 0, env)
            return self.eval(n.body if c == 0 else n.orelse, env)
        undo = self.ops.assume(n.test, True, env) or []
        a = self.eval(n.body, env)
        for d, k, v in undo:
            d[k] = v
        undo = self.ops.assume(n.test, False, env) or []
        b = self.eval(n.orelse, env)
        for d, k, v in undo:
            d[k] = v
        return join(a, b)

    def e_Lambda(self, n, env):
        return LambdaV(n, env, env.module)

    def e_Starred(self, n, env):
        return self.eval(n.value, env)

    def e_NamedExpr(self, n, env):
        v = self.eval(n.value, env)
        self.assign(n.target, v, env, n)
        return v

    # ---- comprehensions
    def e_ListComp(self, n, env):
        return self._comp(n, env, "list")

    def e_GeneratorExp(self, n, env):
        return self.ops.fresh_iter(self._comp(n, env, "list"))

    def e_SetComp(self, n, env):
        r = self._comp(n, env, "list")
        return self.ops.to_set(r, n)

    def e_DictComp(self, n, env):
        return self._comp(n, env, "dict")

    def _comp(self, n, env, kind):
        cenv = Env(env.module, env, env.fn)
        cenv.self_cls = env.self_cls
        n = self._selection_by_membership(n, env)
        return self._comp_rec(n, n.generators, 0, cenv, kind)

    def _selection_by_membership(self, n, env):
        """`{k: f(k, v) for k, v in D.items() if k in S}` where every member of S is a key of D (the names of the collections S is made of are
        among those of D's keys) selects exactly the members of S: it is evaluated as `{k: f(k, D[k]) for k in S}`."""
        if len(n.generators) != 1 or not hasattr(self.ops, "atoms_of"):
            return n
        g = n.generators[0]
        plain = lambda e: isinstance(e, ast.Name) or (isinstance(e, ast.Attribute) and plain(e.value))
        if len(g.ifs) != 1 or g.is_async:
            return n
        c = g.ifs[0]
        if not (isinstance(c, ast.Compare) and len(c.ops) == 1 and isinstance(c.ops[0], ast.In) and isinstance(c.left, ast.Name) and plain(c.comparators[0])):
            return n
        it, vname = g.iter, None
        if isinstance(it, ast.Call) and isinstance(it.func, ast.Attribute) and it.func.attr in ("items", "keys") and not it.args and not it.keywords and plain(it.func.value):
            dexpr = it.func.value
            if it.func.attr == "items":
                if not (isinstance(g.target, ast.Tuple) and len(g.target.elts) == 2 and all(isinstance(e, ast.Name) for e in g.target.elts)):
                    return n
                kname, vname = g.target.elts[0].id, g.target.elts[1].id
            elif isinstance(g.target, ast.Name):
                kname = g.target.id
            else:
                return n
        elif plain(it) and isinstance(g.target, ast.Name):
            dexpr, kname = it, g.target.id
        else:
            return n
        if c.left.id != kname or kname == vname:
            return n
        D, S = self.eval(dexpr, env), self.eval(c.comparators[0], env)
        if isinstance(D, ObjV) and D.payload is not None:
            D = D.payload
        if not isinstance(D, DictV) or D.items is not None or not isinstance(S, (SetV, ListV)):
            return n
        dk = self.ops.dict_keys(D)
        a_d, a_s = (self.ops.atoms_of(dk) if dk is not None else frozenset()), self.ops.atoms_of(S)
        filt = lambda v: getattr(v, "order", None) is not None and "filtered" in str(v.order[1])
        if not a_s or not a_s <= a_d or filt(S) or (dk is not None and filt(dk)):
            return n

        class _Sub(ast.NodeTransformer):
            def visit_Name(self_, x):
                if vname is not None and x.id == vname and isinstance(x.ctx, ast.Load):
                    return ast.copy_location(ast.Subscript(value=dexpr, slice=ast.Name(id=kname, ctx=ast.Load()), ctx=ast.Load()), x)
                return x

        import copy

        m = copy.copy(n)
        for f_ in ("key", "value", "elt"):
            if hasattr(n, f_):
                setattr(m, f_, ast.fix_missing_locations(_Sub().visit(copy.deepcopy(getattr(n, f_)))))
        m.generators = [ast.copy_location(ast.comprehension(target=ast.copy_location(ast.Name(id=kname, ctx=ast.Store()), g.target), iter=c.comparators[0], ifs=[], is_async=0), g.target)]
        self.event("selection_by_membership", n, of=sorted(a_d), selected=sorted(a_s))
        return m

    def _comp_rec(self, n, gens, gi, env, kind, first=None):
        """Evaluates generator ``gi``; returns ListV / DictV."""
        if gi == len(gens):
            if kind == "dict":
                return ("leaf", (self.eval(n.key, env), self.eval(n.value, env)))
            return ("leaf", self.eval(n.elt, env))
        g = gens[gi]
        it = self.eval(g.iter, env) if first is None else first
        if gi == 0 and first is None and self.join_depth == 0 and isinstance(it, ListV) and it.items is None and it.it is None and it.parts():
            # a summarised list followed by known items (`[*task_transforms, shared_transform]`): the comprehension over the summarised part, then
            # over the items, laid end to end — the members are never merged into one generic element
            head, tail = it.parts()
            order = (tuple(x for x in it.order[0] if x != "then-last"), it.order[1]) if it.order is not None else None
            r1 = self._comp_rec(n, gens, 0, env, kind, first=ListV(items=None, elem=head, kind=it.kind, over=it.over, order=order))
            r2 = self._comp_rec(n, gens, 0, env, kind, first=ListV(items=tuple(tail), kind=it.kind))
            if kind == "dict":
                return self.ops.dict_union(r1, r2, n)
            if isinstance(r1, ListV) and isinstance(r2, ListV):
                if r2.items is not None and r1.items is None and all(not isinstance(x, ListV) for x in r2.items):
                    out = r1
                    for x in r2.items:  # appended one by one: the result keeps its own summarised-part-plus-items shape
                        e_ = out.elem
                        out = ListV(items=None, elem=x if e_ is None else self.join_vals(e_, x, set()), kind=out.kind, order=out.order, over=out.over,
                                    head=(out.parts()[0] if out.parts() else out.elem), tail=((out.parts()[1] if out.parts() else ()) + (x,)))
                        out = replace(out, tail_elem=out.elem)
                    return out
                return self.ops.concat_lists(r1, r2, n)
            return r1 if isinstance(r2, ListV) and r2.items == () else self.unknown("comprehension over a list with a summarised part and known items", n)
        seq = self.ops.iterate(it, g.iter, env)
        if seq[0] != "concrete" and (self._void_elem(seq[1]) or self._decided_empty(it)):
            seq = ("concrete", [])  # summary of a collection that never received an element / that this path decided to be empty
        if seq[0] == "concrete":
            leaves = []
            for v in seq[1]:
                self.assign(g.target, v, env, n)
                keep = True
                for cond in g.ifs:
                    t = self.truth(self.eval(cond, env))
                    if t is False:
                        keep = False
                    elif t is None:
                        self.event("abstract_filter", cond)
                if not keep:
                    continue
                r = self._comp_rec(n, gens, gi + 1, env, kind)
                leaves.append(r)
            res = self.ops.comp_concrete(leaves, kind, n, env)
        else:
            _, elem, info = seq
            self.loop_ids += 1
            lid = f"L{self.loop_ids}"
            self.join_depth += 1
            self.open_lids.append(lid)
            self.ops.comp_enter(info)
            try:
                ev = self.ops.loop_elem(elem, lid, info)
                self.assign(g.target, ev, env, n)
                filtered = False
                for cond in g.ifs:
                    self.eval(cond, env)
                    filtered = True
                r = self._comp_rec(n, gens, gi + 1, env, kind)
            finally:
                self.join_depth -= 1
                self.open_lids.pop()
                self.ops.comp_exit(info)
            res = self.ops.comp_abstract(r, kind, info, lid, filtered, n, env)
        if gi == 0:
            return res[1] if isinstance(res, tuple) and res and res[0] == "leaf" else res
        return res

    # ================================================================== attribute access / calls
    def getattr(self, base: AVal, attr: str, node, env) -> AVal:
        if isinstance(base, ObjV):
            if attr in base.fields:
                return base.fields[attr]
            r = base.cls.lookup(attr)
            if r is not None:
                owner, f = r
                if f.is_property:
                    return self.call_value(BoundV(FuncV(f, None), base), [], {}, node, env)
                if f.is_static:
                    return FuncV(f, None)
                if f.is_classmethod:
                    return BoundV(FuncV(f, None), ClassV(base.cls))
                return BoundV(FuncV(f, None), base)
            for c in base.cls.mro:
                if attr in c.class_attrs:
                    return self.eval(c.class_attrs[attr], Env(c.module))
            if attr == "__class__":
                return ClassV(base.cls)
            return self.ops.obj_attr(base, attr, node, env)
        if isinstance(base, ClassV):
            if attr == "__name__":
                return Const(base.cls.name)
            r = base.cls.lookup(attr)
            if r is not None:
                owner, f = r
                if f.is_classmethod:
                    return BoundV(FuncV(f, None), base)
                return FuncV(f, None)
            for c in base.cls.mro:
                if attr in c.class_attrs:
                    return self.eval(c.class_attrs[attr], Env(c.module))
            return self.ops.class_attr(base, attr, node, env)
        if isinstance(base, SuperV):
            obj = base.obj
            cls = obj.cls if isinstance(obj, ObjV) else obj.cls
            mro = cls.mro
            start = mro.index(base.after) + 1 if base.after in mro else 0
            for c in mro[start:]:
                if attr in c.methods:
                    f = c.methods[attr]
                    if f.is_static:
                        return FuncV(f, None)
                    return BoundV(FuncV(f, None), obj)
            return ExtMethodV(base, attr)
        if isinstance(base, ModV):
            r = self.index.resolve_attr_of_module(base.name, attr)
            if r is None:
                return self.unknown(f"module {base.name} has no {attr}", node)
            return self.from_resolved(r)
        if isinstance(base, ExtV):
            return self.ops.ext_attr(base, attr, node, env)
        return self.ops.value_attr(base, attr, node, env)

    def e_Call(self, n, env):
        # super()
        if isinstance(n.func, ast.Name) and n.func.id == "super" and not n.args:
            slf = env.lookup("self")
            e = env
            while slf is None and e is not None:
                e = e.parent
                slf = e.lookup("self") if e else None
            cls = None
            e = env
            while e is not None and cls is None:
                cls = e.self_cls
                e = e.parent
            if slf is None or cls is None:
                return self.unknown("super() outside method", n)
            return SuperV(slf, cls)
        f = self.eval(n.func, env)
        args = []
        self.trace.call_serial += 1
        for a in n.args:
            if isinstance(a, ast.Starred):
                v = self.eval(a.value, env)
                sp = self.ops.spread(v, a)
                if sp and sp[0] == "concrete":
                    args.extend(sp[1])
                else:
                    args.append(("*", sp[1] if sp else v))  # what the spreading saw: a one-shot iterator is consumed by it, not again by the callee
            else:
                args.append(self.eval(a, env))
        kwargs = {}
        for k in n.keywords:
            if k.arg is None:
                v = self.eval(k.value, env)
                if isinstance(v, DictV) and v.items is not None and all(isinstance(kk, Const) for kk, _ in v.items):
                    for kk, vv in v.items:
                        kwargs[kk.v] = vv
                else:
                    kwargs["**"] = v
            else:
                kwargs[k.arg] = self.eval(k.value, env)
        return self.call_value(f, args, kwargs, n, env)

    def _write_back(self, info, wb: dict, args: list, node, env) -> None:
        """Containers the callee changed in place (they were the caller's objects): the caller's l-values receive the final value."""
        params = [a.arg for a in info.node.args.args]
        call = node if isinstance(node, ast.Call) else None
        plain = call is not None and env is not None and not any(isinstance(a, ast.Starred) for a in call.args) and not any(k.arg is None for k in call.keywords)
        off = len(args) - len(call.args) if plain else 0  # bound methods: self was prepended
        for pname, val in wb.items():
            expr = None
            if plain:
                kw = next((k.value for k in call.keywords if k.arg == pname), None)
                if kw is not None:
                    expr = kw
                elif pname in params and 0 <= params.index(pname) - off < len(call.args):
                    expr = call.args[params.index(pname) - off]
            if isinstance(expr, (ast.Name, ast.Attribute)):
                self.rebind(expr, val, env, node)
            elif isinstance(expr, (ast.List, ast.Dict, ast.Set, ast.Tuple, ast.ListComp, ast.DictComp, ast.SetComp, ast.Constant)) or (isinstance(expr, ast.Call) and isinstance(expr.func, ast.Name) and expr.func.id in ("list", "dict", "set", "deque")):
                pass  # a temporary: nobody else sees it
            else:
                self.event("lost_mutation", node, what=f"`{pname}` is a container received as an argument and changed in place by {info.short}; the caller's view of it could not be updated")

    def call_value(self, f: AVal, args: list, kwargs: dict, node, env) -> AVal:
        caller = self.call_stack[-1].qualname if self.call_stack else "<entry>"
        if isinstance(f, FuncV):
            self.calls_made.append((caller, f.info.qualname))
            bound = self.bind(f.info, args, kwargs, node, f.closure)
            if bound is None:
                return self.unknown(f"cannot bind arguments of {f.info.short}", node)
            hook = self.hooks.get("call")
            if hook is not None:
                r = hook(f.info, bound, node)
                if r is not None:
                    return r
            self.site_stack.append((getattr(node, "lineno", 0), getattr(node, "col_offset", 0)))
            try:
                result = self.exec_function(f.info, bound, f.closure, f.info.cls)
            finally:
                self.site_stack.pop()
            wb, self.last_writeback = getattr(self, "last_writeback", None), None
            if wb:
                self._write_back(f.info, wb, args, node, env)
            return result
        if isinstance(f, BoundV):
            return self.call_value(f.func, [f.self_obj] + list(args), kwargs, node, env)
        if isinstance(f, PartialV):
            kw = dict(f.kwargs)
            kw.update(kwargs)
            return self.call_value(f.func, list(f.args) + list(args), kw, node, env)
        if isinstance(f, LambdaV):
            lenv = Env(f.module, f.closure, f.closure.fn if f.closure else None)
            if f.closure is not None:
                lenv.self_cls = f.closure.self_cls
            params = f.node.args
            names = [a.arg for a in params.posonlyargs + params.args]
            for nm, v in zip(names, args):
                lenv.vars[nm] = v
            for k, v in kwargs.items():
                lenv.vars[k] = v
            nd = len(params.defaults)
            for i, d in enumerate(params.defaults):
                nm = names[len(names) - nd + i]
                if nm not in lenv.vars:
                    lenv.vars[nm] = self.eval(d, f.closure or Env(f.module))
            return self.eval(f.node.body, lenv)
        if isinstance(f, ClassV):
            self.calls_made.append((caller, f.cls.qualname))
            return self.instantiate(f.cls, args, kwargs, node, env)
        if isinstance(f, ObjV):
            r = f.cls.lookup("__call__")
            if r is not None:
                return self.call_value(BoundV(FuncV(r[1], None), f), args, kwargs, node, env)
            return self.ops.call_object(f, args, kwargs, node, env)
        if isinstance(f, ExtV):
            self.calls_made.append((caller, f.name))
            r = self.ops.call_ext(f.name, args, kwargs, node, env)
            if f.name in ONE_SHOT and isinstance(r, ListV):
                r = self.ops.fresh_iter(r)  # these return iterators: what one consumer took is gone for the next
            return r
        if isinstance(f, ExtMethodV):
            self.calls_made.append((caller, f"<{type(f.recv).__name__}>.{f.name}"))
            return self.ops.call_method(f.recv, f.name, args, kwargs, node, env)
        if isinstance(f, VmapV):
            return self.ops.call_vmap(f, args, kwargs, node, env)
        if isinstance(f, Unk):
            self.event("unknown_call", node, why=f.why)
            return Unk("call of unknown: " + f.why)
        return self.ops.call_other(f, args, kwargs, node, env)

    def bind(self, info, args, kwargs, node, closure) -> dict | None:
        a = info.node.args
        params = [p.arg for p in a.posonlyargs + a.args]
        bound: dict[str, AVal] = {}
        pos = list(args)
        if any(isinstance(x, tuple) and x and x[0] == "*" for x in pos):
            return None
        if len(pos) > len(params) and a.vararg is None:
            return None
        for nm, v in zip(params, pos):
            bound[nm] = v
        if a.vararg is not None:
            bound[a.vararg.arg] = ListV(items=tuple(pos[len(params):]), kind="tuple")
        extra = {}
        for k, v in kwargs.items():
            if k in params or k in [p.arg for p in a.kwonlyargs]:
                if k in bound:
                    return None
                bound[k] = v
            elif a.kwarg is not None:
                extra[k] = v
            else:
                return None
        if a.kwarg is not None:
            bound[a.kwarg.arg] = DictV(items=tuple((Const(k), v) for k, v in extra.items()))
        denv = closure if closure is not None else Env(info.module)
        nd = len(a.defaults)
        for i, d in enumerate(a.defaults):
            nm = params[len(params) - nd + i]
            if nm not in bound:
                bound[nm] = self.eval(d, denv)
        for p, d in zip(a.kwonlyargs, a.kw_defaults):
            if p.arg not in bound and d is not None:
                bound[p.arg] = self.eval(d, denv)
        for nm in params:
            if nm not in bound:
                return None
        return bound

    def instantiate(self, cls, args, kwargs, node, env) -> AVal:
        if self.index.abstract_methods(cls):
            self.event("abstract_instantiation", node, cls=cls.qualname)
        obj = ObjV(cls)
        obj.born_trace = self.trace  # (an object created during the run being interpreted: a store to it is not a store to pre-existing state)
        r = cls.lookup("__init__")
        if r is not None:
            self.call_value(BoundV(FuncV(r[1], None), obj), args, kwargs, node, env)
        else:
            self.ops.ext_init(obj, cls, args, kwargs, node, env)
        return obj


class _AbstractDisplay(Exception):
    def __init__(self, v):
        self.v = v
